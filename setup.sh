#!/bin/bash
# Build the whole framework offline from files on disk (MANIFEST.setup_cmd).
set -e
export CARGO_NET_OFFLINE=true
cd "$(dirname "${BASH_SOURCE[0]}")"
( cd mc && cargo build --release --offline --bins 2>&1 | tail -3 )
if [ -x loomcheck/setup.sh ]; then loomcheck/setup.sh; fi
if [ -x selfcomp/setup.sh ]; then selfcomp/setup.sh; fi
echo "setup done"
