#!/bin/bash
# Build and run the loom exploration of the reply slot (C02 part b). Exit 0 ok / 1 violation / 2 machinery.
export CARGO_NET_OFFLINE=true
cd "$(dirname "${BASH_SOURCE[0]}")"
log="$(mktemp)"
if ! cargo build --release --offline -q >"$log" 2>&1; then cat "$log" >&2; rm -f "$log"; echo "MACHINERY-FAILURE loomcheck build failed" >&2; exit 2; fi
rm -f "$log"
/verif/target-loom/release/loomcheck "$@"
rc=$?
if [ $rc -ne 0 ] && [ $rc -ne 1 ]; then echo "MACHINERY-FAILURE loomcheck exited with $rc" >&2; exit 2; fi
exit $rc
