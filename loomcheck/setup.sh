#!/bin/bash
set -e
export CARGO_NET_OFFLINE=true
cd "$(dirname "${BASH_SOURCE[0]}")"
cargo build --release --offline 2>&1 | tail -2
