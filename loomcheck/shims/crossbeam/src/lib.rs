//! Stand-in for `crossbeam::queue::ArrayQueue`: a bounded FIFO under a loom mutex, i.e. the
//! queue is trusted to be linearizable and every operation is a scheduling point.
pub mod queue {
    use std::collections::VecDeque;
    pub struct ArrayQueue<T> {
        q: loom::sync::Mutex<VecDeque<T>>,
        cap: usize,
    }
    impl<T> ArrayQueue<T> {
        pub fn new(cap: usize) -> Self {
            ArrayQueue { q: loom::sync::Mutex::new(VecDeque::new()), cap }
        }
        pub fn push(&self, v: T) -> Result<(), T> {
            let mut q = self.q.lock().unwrap();
            if q.len() >= self.cap {
                Err(v)
            } else {
                q.push_back(v);
                Ok(())
            }
        }
        pub fn pop(&self) -> Option<T> {
            self.q.lock().unwrap().pop_front()
        }
        pub fn len(&self) -> usize {
            self.q.lock().unwrap().len()
        }
        pub fn is_empty(&self) -> bool {
            self.len() == 0
        }
    }
}
