//! Stand-in for `parking_lot::Mutex` built on `loom::sync::Mutex` (lock() never poisons).
pub struct Mutex<T>(loom::sync::Mutex<T>);
pub type MutexGuard<'a, T> = loom::sync::MutexGuard<'a, T>;
impl<T> Mutex<T> {
    pub fn new(v: T) -> Self {
        Mutex(loom::sync::Mutex::new(v))
    }
    pub fn lock(&self) -> MutexGuard<'_, T> {
        self.0.lock().unwrap()
    }
}
