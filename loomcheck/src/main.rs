//! C02 part (b): thread interleavings of the pooled reply slot, explored with loom on the
//! UNCHANGED /repo/src/production/response_pool.rs (included by path; its parking_lot and
//! crossbeam imports resolve to loom-based shims).
#[allow(dead_code)]
#[path = "/repo/src/production/response_pool.rs"]
mod response_pool;

use std::sync::atomic::{AtomicUsize, Ordering};
use response_pool::{response_future, ResponsePool, ResponseSlot};
use std::sync::Arc;

/// The protocol of ShardHandle::pooled_fast_get: acquire, hand the slot to the "actor", await the
/// reply, release. `n` requesters, one responder thread per request (so replies can race), pool of
/// capacity `cap` with `prewarm` slots so that slots are reused across requesters.
fn scenario(requesters: usize, cap: usize, prewarm: usize, rounds: usize) {
    let pool: Arc<ResponsePool<usize>> = Arc::new(ResponsePool::new(cap, prewarm));
    let mut handles = Vec::new();
    for r in 0..requesters {
        let pool = pool.clone();
        handles.push(loom::thread::spawn(move || {
            for round in 0..rounds {
                let want = 100 * (r + 1) + round;
                let slot: Arc<ResponseSlot<usize>> = pool.acquire();
                let actor_slot = slot.clone();
                // the "shard actor": replies to exactly this request
                let actor = loom::thread::spawn(move || {
                    actor_slot.send(want);
                });
                let got = loom::future::block_on(response_future(slot.clone()));
                pool.release(slot);
                assert_eq!(got, want, "requester {r} received a reply meant for somebody else");
                actor.join().unwrap();
            }
        }));
    }
    for h in handles {
        h.join().unwrap();
    }
}

/// Same protocol with ONE shared actor thread fed through a channel (the real shape: one shard
/// actor serves all requesters), which leaves enough loom threads for several rounds per requester,
/// so that a slot released by one requester is re-acquired by another while replies are in flight.
fn scenario_shared_actor(requesters: usize, cap: usize, prewarm: usize, rounds: usize) {
    let pool: Arc<ResponsePool<usize>> = Arc::new(ResponsePool::new(cap, prewarm));
    let (tx, rx) = loom::sync::mpsc::channel::<(Arc<ResponseSlot<usize>>, usize)>();
    let total = requesters * rounds;
    let actor = loom::thread::spawn(move || {
        for _ in 0..total {
            let (slot, want) = rx.recv().unwrap();
            slot.send(want);
        }
    });
    let mut handles = Vec::new();
    for r in 0..requesters {
        let pool = pool.clone();
        let tx = tx.clone();
        handles.push(loom::thread::spawn(move || {
            for round in 0..rounds {
                let want = 100 * (r + 1) + round;
                let slot: Arc<ResponseSlot<usize>> = pool.acquire();
                tx.send((slot.clone(), want)).unwrap();
                let got = loom::future::block_on(response_future(slot.clone()));
                pool.release(slot);
                assert_eq!(got, want, "requester {r} received a reply meant for somebody else");
            }
        }));
    }
    for h in handles {
        h.join().unwrap();
    }
    actor.join().unwrap();
}

fn run(name: &str, preemptions: Option<usize>, f: impl Fn() + Sync + Send + 'static) -> (usize, bool, String) {
    let count = Arc::new(AtomicUsize::new(0));
    let c2 = count.clone();
    let mut b = loom::model::Builder::new();
    b.preemption_bound = preemptions;
    b.max_branches = 100_000;
    let res = std::panic::catch_unwind(std::panic::AssertUnwindSafe(|| {
        b.check(move || {
            c2.fetch_add(1, Ordering::SeqCst);
            f();
        });
    }));
    let n = count.load(Ordering::SeqCst);
    match res {
        Ok(()) => {
            eprintln!("loom {name}: {n} executions, preemption bound {:?}: ok", preemptions);
            (n, true, String::new())
        }
        Err(p) => {
            let msg = if let Some(s) = p.downcast_ref::<String>() {
                s.clone()
            } else if let Some(s) = p.downcast_ref::<&str>() {
                s.to_string()
            } else {
                "panic".into()
            };
            eprintln!("loom {name}: FAILED after {n} executions: {msg}");
            (n, false, msg)
        }
    }
}

fn main() {
    let tier = std::env::args().skip_while(|a| a != "--tier").nth(1).unwrap_or_else(|| "quick".into());
    let out = std::env::args().skip_while(|a| a != "--out").nth(1).unwrap_or_else(|| "/verif/replays/C02-loom.part.json".into());
    let thorough = tier == "thorough";
    std::panic::set_hook(Box::new(|_| {}));
    let mut scenarios = Vec::new();
    let mut ok = true;
    let mut total = 0usize;
    // (name, shared actor?, requesters, pool capacity, prewarm, rounds, preemption bound)
    let mut configs: Vec<(&'static str, bool, usize, usize, usize, usize, usize)> = vec![
        ("2 requesters, 1 responder thread each, pool cap 1 prewarm 1", false, 2, 1, 1, 1, if thorough { 4 } else { 2 }),
        ("2 requesters, 1 responder thread each, pool cap 2 prewarm 1", false, 2, 2, 1, 1, if thorough { 4 } else { 2 }),
        ("2 requesters x 2 rounds, shared actor, pool cap 1 prewarm 1", true, 2, 1, 1, 2, if thorough { 3 } else { 2 }),
    ];
    if thorough {
        configs.push(("3 requesters x 1 round, shared actor, pool cap 1 prewarm 0", true, 3, 1, 0, 1, 2));
        configs.push(("2 requesters x 2 rounds, shared actor, pool cap 2 prewarm 0", true, 2, 2, 0, 2, 2));
    }
    let handles: Vec<_> = configs
        .into_iter()
        .map(|(name, shared, req, cap, pre, rounds, bound)| {
            std::thread::spawn(move || {
                let (n, good, msg) = run(name, Some(bound), move || {
                    if shared {
                        scenario_shared_actor(req, cap, pre, rounds)
                    } else {
                        scenario(req, cap, pre, rounds)
                    }
                });
                (name, n, good, msg, bound)
            })
        })
        .collect();
    for h in handles {
        let (name, n, good, msg, bound) = h.join().expect("scenario thread");
        total += n;
        ok &= good;
        scenarios.push(serde_json::json!({"scenario": name, "executions": n, "preemption_bound": bound, "ok": good, "failure": msg}));
    }
    let doc = serde_json::json!({"tool": "loom 0.7.2", "subject": "/repo/src/production/response_pool.rs (unchanged, via #[path])",
        "executions": total, "scenarios": scenarios, "ok": ok});
    std::fs::write(&out, serde_json::to_string_pretty(&doc).unwrap()).expect("write loom part");
    if !ok {
        let replay = "/verif/replays/C02-loom.json";
        let _ = std::fs::create_dir_all("/verif/replays");
        let _ = std::fs::write(replay, serde_json::to_string_pretty(&doc).unwrap());
        println!("  signature: loom reply-slot protocol");
        println!("VIOLATION property=C02 replay={replay}");
        std::process::exit(1);
    }
}
