#!/bin/bash
# tools/try_seed_wt.sh <worktree> <tier> <ID> [<ID>...] : run checks against a scratch worktree of /repo that has a
# seeded change applied, WITHOUT touching /repo or /verif: a scratch copy of the harness is pointed at the
# worktree, builds into its own target dir and writes evidence/replays under its own VERIF_ROOT.
# (C02's loom part still reads /repo's response_pool.rs; use try_seed.sh for seeds in that file.)
set -u
wt="$1"; tier="$2"; shift 2
S=/tmp/seedmc-$(basename "$wt")
mkdir -p "$S/root/evidence" "$S/root/replays"
rsync -a --delete --exclude target /verif/mc/ "$S/mc/"
sed -i "s#path = \"/repo\"#path = \"$wt\"#" "$S/mc/harness/Cargo.toml"
sed -i "s#/verif/target#$S/target#" "$S/mc/.cargo/config.toml"
cp /verif/known_findings.txt /verif/properties.jsonl "$S/root/"
ln -sfn /verif/loomcheck "$S/root/loomcheck"; ln -sfn /verif/selfcomp "$S/root/selfcomp"
export CARGO_NET_OFFLINE=true VERIF_ROOT="$S/root"
for id in "$@"; do
  bin=$(echo "$id" | tr A-Z a-z)
  if ! ( cd "$S/mc" && cargo build --release --offline -q --bin "$bin" ) >"$S/build.log" 2>&1; then
    echo "== $id build failed"; tail -20 "$S/build.log"; continue
  fi
  out=$("$S/target/release/$bin" --tier "$tier" 2>/dev/null); rc=$?
  echo "== $id tier=$tier exit=$rc"
  echo "$out" | grep -E "^VIOLATION|^  signature:|^PASS|^FAIL|MACHINERY" | head -40
done
echo "(scratch in $S; remove with rm -rf $S when done)"
