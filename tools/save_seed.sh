#!/bin/bash
# tools/save_seed.sh <id-lowercase> <detected-by text> : store a confirmed seeded change under /verif/seeded/<ID>/
id=$1; shift; detected="$*"
base=${id:0:3}; ID=$(echo $base | tr a-z A-Z); DIR=$ID${id#$base}; src=/tmp/seed-$id-out; dst=/verif/seeded/$DIR
mkdir -p $dst; cp $src/patch.diff $dst/patch.diff; rm -rf $dst/demo; cp -r $src/demo $dst/demo
python3 - "$src/meta.json" "$dst/meta.json" "$ID" "$detected" "$DIR" <<'PY'
import json,sys
src,dst,ID,det,DIR=sys.argv[1:6]
m=json.load(open(src))
m["property"]=ID
m["detected_by"]=det
m["how_to_run_against_checks"]=f"git -C /repo apply /verif/seeded/{DIR}/patch.diff && ./check {ID} --tier quick ; git -C /repo checkout -- ."
json.dump(m,open(dst,"w"),indent=1)
PY
echo saved $dst
