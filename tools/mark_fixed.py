#!/usr/bin/env python3
"""mark_fixed.py <PROPERTY> <commit> : turn every open finding of PROPERTY listed in the NOTE lines of the
given check output (stdin: output of ./check) as 'not reproduced' into a fixed: entry with <commit>."""
import sys,re
prop,commit=sys.argv[1],sys.argv[2]
only=sys.argv[3:] # optional substrings
notrep=set()
for l in sys.stdin:
    m=re.match(r'NOTE: listed known finding not reproduced in this run \(tier \w+\): (.*)$', l.rstrip('\n'))
    if m: notrep.add(m.group(1))
out=[];n=0
for line in open('/verif/known_findings.txt'):
    l=line.rstrip('\n')
    m=re.match(r'open: property=(\S+) sig=(.*?) -- (.*)$', l)
    if m and m.group(1)==prop and m.group(2) in notrep and (not only or any(o in m.group(2) for o in only)):
        out.append(f"fixed: property={prop} {commit} sig={m.group(2)} -- {m.group(3)}"); n+=1
    else: out.append(l)
open('/verif/known_findings.txt','w').write('\n'.join(out)+'\n')
print("marked",n)
