#!/bin/bash
# usage: tools/rehash.sh <git command that rewrites /repo history>...
# Keeps known_findings.txt 'fixed:' hashes in step with a history rewrite (maps by commit subject).
set -e
cd /repo
git log --format='%h%x09%s' > /tmp/rehash.before
"$@"
git log --format='%h%x09%s' > /tmp/rehash.after
python3 - <<'PY'
before={l.split('\t')[0]:l.rstrip('\n').split('\t')[1] for l in open('/tmp/rehash.before')}
after={l.rstrip('\n').split('\t')[1]:l.split('\t')[0] for l in open('/tmp/rehash.after')}
import re
out=[]
for line in open('/verif/known_findings.txt'):
    m=re.match(r'^(fixed: property=\S+) (\S+) (.*)$', line.rstrip('\n'))
    if m and m.group(2) in before:
        subj=before[m.group(2)]
        if subj in after:
            line=f"{m.group(1)} {after[subj]} {m.group(3)}\n"
        else:
            print("WARNING: commit subject vanished:", subj)
    out.append(line)
open('/verif/known_findings.txt','w').write(''.join(out))
PY
