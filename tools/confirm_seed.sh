#!/bin/bash
# confirm_seed.sh <id> : in /tmp/seed-<id>: full suite with the change (demo excluded), demo with change (must fail), demo without (must pass)
id=$1; wt=/tmp/seed-$id; out=/tmp/seed-$id-out
cd $wt || exit 2
export RUSTC_WRAPPER= CARGO_BUILD_RUSTC_WRAPPER= CARGO_NET_OFFLINE=true CARGO_TARGET_DIR=$wt-target
demo=$(ls tests/seed_demo*.rs 2>/dev/null | head -1 | xargs -n1 basename 2>/dev/null | sed 's/\.rs$//')
[ -z "$demo" ] && demo=seed_demo
suite=$(cargo nextest run --workspace --no-fail-fast --test-threads 8 --offline -E "not binary($demo)" 2>&1 | grep -E "Summary|tests run" | tail -1)
with=$(cargo nextest run --offline --test $demo 2>&1 | grep -E "Summary|tests run" | tail -1)
git apply -R $out/patch.diff || echo 'REVERSE-APPLY FAILED'
without=$(cargo nextest run --offline --test $demo 2>&1 | grep -E "Summary|tests run" | tail -1)
git apply $out/patch.diff || echo 'RE-APPLY FAILED'
python3 - "$out/meta.json" "$suite" "$with" "$without" <<'PY'
import json,sys
p,suite,w,wo=sys.argv[1:5]
try: m=json.load(open(p))
except Exception: m={}
m["lead_confirmation"]={"full_suite_with_change_demo_excluded":suite.strip(),"demo_with_change":w.strip(),"demo_without_change":wo.strip()}
json.dump(m,open(p,"w"),indent=1)
PY
echo "$id: suite[$suite] with[$with] without[$without]"
