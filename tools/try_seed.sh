#!/bin/bash
# tools/try_seed.sh <patch.diff> <tier> <ID> [<ID>...] : apply a seeded change to /repo, run the checks, undo it.
# Prints, per check, the exit status and the VIOLATION/KNOWN lines. /repo is left exactly as it was.
set -u
patch="$1"; tier="$2"; shift 2
if [ -n "$(git -C /repo status --porcelain)" ]; then echo "/repo is not clean" >&2; exit 2; fi
if ! git -C /repo apply --check "$patch" 2>/dev/null; then echo "patch does not apply to /repo HEAD" >&2; exit 2; fi
git -C /repo apply "$patch"
trap 'git -C /repo checkout -- . ; git -C /repo clean -fdq src' EXIT
for id in "$@"; do
  out=$(/verif/check "$id" --tier "$tier" 2>/dev/null); rc=$?
  echo "== $id tier=$tier exit=$rc"
  echo "$out" | grep -E "^VIOLATION|^  signature:|^PASS|^FAIL|MACHINERY" | head -12
done
