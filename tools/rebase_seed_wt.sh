#!/bin/bash
# tools/rebase_seed_wt.sh <id> : move the scratch worktree /tmp/seed-<id> (seeded change applied) onto /repo's current HEAD
id=$1; wt=/tmp/seed-$id; out=/tmp/seed-$id-out
cd $wt || exit 2
git apply -R $out/patch.diff || { echo "reverse apply failed"; exit 2; }
git checkout -q --detach $(git -C /repo rev-parse HEAD) || exit 2
git apply $out/patch.diff || { echo "patch does not apply on new HEAD"; exit 2; }
echo "rebased $wt onto $(git rev-parse --short HEAD)"
