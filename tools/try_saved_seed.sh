#!/bin/bash
# tools/try_saved_seed.sh <SEED e.g. C06i> <tier> <ID> [<ID>...] : run checks against a saved seeded change WITHOUT touching /repo:
# a scratch worktree of /repo's HEAD gets the patch, a scratch copy of the harness is pointed at it (see try_seed_wt.sh).
set -u
seed="$1"; tier="$2"; shift 2
wt=/tmp/seedwt-$seed
git -C /repo worktree remove --force "$wt" 2>/dev/null
git -C /repo worktree add --detach "$wt" HEAD -q || exit 2
if ! git -C "$wt" apply "/verif/seeded/$seed/patch.diff"; then echo "patch does not apply to /repo HEAD"; git -C /repo worktree remove --force "$wt"; exit 2; fi
/verif/tools/try_seed_wt.sh "$wt" "$tier" "$@"
git -C /repo worktree remove --force "$wt"; rm -rf "/tmp/seedmc-$(basename $wt)"
