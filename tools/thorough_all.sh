#!/bin/bash
# tools/thorough_all.sh [ids...] : run the thorough tier of the given checks (default all) one after another; used with `vp run`.
# Builds into its own target directory so that it does not disturb builds in /verif.
export CARGO_TARGET_DIR="${CARGO_TARGET_DIR:-/root/.vp/tgt-thorough}"
cd "$(dirname "${BASH_SOURCE[0]}")/.."
ids="$@"; [ -z "$ids" ] && ids="$(seq -f 'C%02g' 1 20)"
for id in $ids; do
  s=$(date +%s); ./check $id --tier thorough > thorough_$id.log 2>&1; rc=$?; e=$(date +%s)
  echo "$id rc=$rc t=$((e-s))s viol=$(grep -c '^VIOLATION' thorough_$id.log) known=$(grep -c '^KNOWN-FINDING' thorough_$id.log)"
  grep '^VIOLATION\|^  signature' thorough_$id.log | head -20
done
