#!/usr/bin/env python3
"""Generate /verif/MANIFEST.json from tools/checks.json (one entry per claimed property)."""
import json, os, subprocess
root = os.path.dirname(os.path.dirname(os.path.abspath(__file__)))
checks = json.load(open(os.path.join(root, "tools", "checks.json")))
props = [json.loads(l) for l in open(os.path.join(root, "properties.jsonl"))]
claimed = {c["property_id"] for c in checks["checks"]}
hooks = subprocess.run(["git", "-C", "/repo", "log", "--format=%H %s"], capture_output=True, text=True).stdout.splitlines()
hook_commits = [l.split()[0] for l in hooks if "verif hooks" in l]
m = {
    "version": 1,
    "setup_cmd": "./setup.sh",
    "hooks": {
        "guard": "--cfg redis_rust_verif",
        "enable": "RUSTFLAGS=--cfg redis_rust_verif via /verif/mc/.cargo/config.toml (the harness crate depends on /repo by path, so every check rebuilds the current working tree)",
        "baseline_off_cmd": "cd /repo && RUSTC_WRAPPER= CARGO_BUILD_RUSTC_WRAPPER= CARGO_NET_OFFLINE=true cargo nextest run --workspace --no-fail-fast --test-threads 8 --offline",
        "source_commits": hook_commits,
        "add_only": True,
    },
    "engines": checks["engines"],
    "checks": [],
    "notes": checks.get("notes", ""),
    "not_applicable": [],
}
for c in checks["checks"]:
    pid = c["property_id"]
    m["checks"].append({
        "property_id": pid,
        "quick_cmd": c.get("quick_cmd", f"./check {pid} --tier quick"),
        "thorough_cmd": c.get("thorough_cmd", f"./check {pid} --tier thorough"),
        "evidence_file": f"/verif/evidence/{pid}.json",
        "replay_cmd_template": c.get("replay", f"./check {pid} --replay {{path}}"),
        "engine": c["engine"],
        "level_claimed": {"category": c["level"], "text": c["text"], "design_ref": c["design_ref"]},
        "level_note": c["note"],
        "technique": c["technique"],
    })
for p in props:
    if p["id"] not in claimed:
        m["not_applicable"].append({"property_id": p["id"], "reason": checks.get("pending", {}).get(p["id"], "check not built yet (work in progress); see DESIGN.md")})
json.dump(m, open(os.path.join(root, "MANIFEST.json"), "w"), indent=1)
print("claimed:", sorted(claimed), "unclaimed:", [x["property_id"] for x in m["not_applicable"]])
