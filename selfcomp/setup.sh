#!/bin/bash
# Builds the LD_PRELOAD shim used by the C20 self-composition check (see shim.c).
set -e
cd "$(dirname "${BASH_SOURCE[0]}")"
gcc -O2 -fPIC -shared -Wall -Wextra -o shim.so.tmp shim.c -ldl
mv -f shim.so.tmp shim.so
echo "selfcomp: built $(pwd)/shim.so"
