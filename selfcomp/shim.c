/*
 * LD_PRELOAD shim for the C20 self-composition check (/verif/mc/harness/src/bin/c20.rs).
 *
 * Makes the process environment an explicit, owned input:
 *   VERIF_RANDOM_KEY=<hex u64>   getrandom(), syscall(SYS_getrandom, ...) and reads of
 *                                /dev/urandom, /dev/random return a byte stream that is a pure
 *                                function of the key and of the stream position (splitmix64).
 *                                => std::collections::hash_map::RandomState keys and the ahash
 *                                fixed seeds (getrandom::fill) are chosen by the caller.
 *   VERIF_CLOCK_OFFSET=<secs>    clock_gettime(CLOCK_REALTIME[_COARSE|_ALARM], CLOCK_TAI),
 *                                gettimeofday() and time() are shifted by that many seconds.
 *   VERIF_CLOCK_SCALE=<n>        every wall/monotonic clock runs n times faster than real time, counted from
 *                                process start (elapsed' = n * elapsed): a harness whose trace depends on how
 *                                much wall-clock time passed behaves differently under n = 1 and n > 1.
 *                                Monotonic clocks are NOT shifted: std::time::Instant exposes only
 *                                differences (a constant shift is unobservable) and shifting them
 *                                would break absolute-deadline futex waits.
 *   VERIF_NO_ASLR=1              the constructor sets personality(ADDR_NO_RANDOMIZE) and re-executes
 *                                the program once, so that addresses (ahash mixes the address of a
 *                                static and of a heap box into every RandomState) are the same in
 *                                every child. Result is exported as VERIF_SHIM_ASLR=off|on.
 * The constructor exports VERIF_SHIM_LOADED=1. verif_shim_stats() reports what was served.
 * Without the variables every function forwards to libc unchanged.
 */
#define _GNU_SOURCE
#include <dlfcn.h>
#include <errno.h>
#include <fcntl.h>
#include <stdarg.h>
#include <stdint.h>
#include <stdio.h>
#include <stdlib.h>
#include <string.h>
#include <sys/mman.h>
#include <sys/personality.h>
#include <sys/syscall.h>
#include <sys/time.h>
#include <sys/types.h>
#include <time.h>
#include <unistd.h>

static int have_key = 0;
static uint64_t key = 0;
static int64_t clock_off = 0;
static uint64_t stream_pos = 0; /* 8-byte blocks handed out so far */
static uint64_t n_getrandom = 0, n_getrandom_bytes = 0, n_clock = 0, n_urandom_open = 0;
static long long clock_scale = 1;
static void init_clock_bases(void);

static uint64_t splitmix(uint64_t x) {
    x += 0x9E3779B97F4A7C15ULL;
    x = (x ^ (x >> 30)) * 0xBF58476D1CE4E5B9ULL;
    x = (x ^ (x >> 27)) * 0x94D049BB133111EBULL;
    return x ^ (x >> 31);
}

static void fill(unsigned char *buf, size_t len) {
    size_t i = 0;
    while (i < len) {
        uint64_t blk = __atomic_fetch_add(&stream_pos, 1, __ATOMIC_RELAXED);
        uint64_t v = splitmix(splitmix(key) ^ splitmix(blk * 0xD1342543DE82EF95ULL + 1));
        for (int b = 0; b < 8 && i < len; b++, i++) buf[i] = (unsigned char)(v >> (8 * b));
    }
}

void verif_shim_stats(uint64_t out[4]) {
    out[0] = n_getrandom;
    out[1] = n_getrandom_bytes;
    out[2] = n_clock;
    out[3] = n_urandom_open;
}

__attribute__((constructor)) static void shim_init(void) {
    const char *k = getenv("VERIF_RANDOM_KEY");
    if (k && *k) {
        key = strtoull(k, NULL, 16);
        have_key = 1;
    }
    const char *o = getenv("VERIF_CLOCK_OFFSET");
    if (o && *o) clock_off = strtoll(o, NULL, 10);
    const char *sc = getenv("VERIF_CLOCK_SCALE");
    if (sc && *sc) clock_scale = strtoll(sc, NULL, 10);
    if (clock_scale > 1) init_clock_bases();
    const char *a = getenv("VERIF_NO_ASLR");
    if (a && *a == '1') {
        int cur = personality(0xffffffffUL);
        if (cur != -1 && !(cur & ADDR_NO_RANDOMIZE)) {
            if (!getenv("VERIF_SHIM_REEXEC") && personality((unsigned long)cur | ADDR_NO_RANDOMIZE) != -1) {
                /* re-exec with identical argv; the marker prevents a loop if it does not stick */
                static char cmdline[1 << 16];
                static char *argv[4096];
                int fd = open("/proc/self/cmdline", O_RDONLY);
                ssize_t n = 0, r;
                if (fd >= 0) {
                    while ((r = read(fd, cmdline + n, sizeof(cmdline) - 1 - (size_t)n)) > 0) n += r;
                    close(fd);
                }
                int argc = 0;
                for (ssize_t p = 0; p < n && argc < 4095;) {
                    argv[argc++] = cmdline + p;
                    p += (ssize_t)strlen(cmdline + p) + 1;
                }
                argv[argc] = NULL;
                if (argc > 0) {
                    setenv("VERIF_SHIM_REEXEC", "1", 1);
                    execv("/proc/self/exe", argv);
                    /* exec failed: fall through with ASLR on */
                }
            }
            setenv("VERIF_SHIM_ASLR", "on", 1);
        } else if (cur != -1) {
            setenv("VERIF_SHIM_ASLR", "off", 1);
        } else {
            setenv("VERIF_SHIM_ASLR", "on", 1);
        }
    }
    setenv("VERIF_SHIM_LOADED", "1", 1);
}

/* ---------------------------------------------------------------- randomness */

ssize_t getrandom(void *buf, size_t len, unsigned int flags) {
    if (!have_key) {
        static ssize_t (*real)(void *, size_t, unsigned int);
        if (!real) real = (ssize_t(*)(void *, size_t, unsigned int))dlsym(RTLD_NEXT, "getrandom");
        if (real) return real(buf, len, flags);
        errno = ENOSYS;
        return -1;
    }
    (void)flags;
    __atomic_fetch_add(&n_getrandom, 1, __ATOMIC_RELAXED);
    __atomic_fetch_add(&n_getrandom_bytes, len, __ATOMIC_RELAXED);
    if (len) fill((unsigned char *)buf, len);
    return (ssize_t)len;
}

int getentropy(void *buf, size_t len) {
    if (!have_key) {
        static int (*real)(void *, size_t);
        if (!real) real = (int (*)(void *, size_t))dlsym(RTLD_NEXT, "getentropy");
        if (real) return real(buf, len);
        errno = ENOSYS;
        return -1;
    }
    if (len > 256) {
        errno = EIO;
        return -1;
    }
    __atomic_fetch_add(&n_getrandom, 1, __ATOMIC_RELAXED);
    __atomic_fetch_add(&n_getrandom_bytes, len, __ATOMIC_RELAXED);
    fill((unsigned char *)buf, len);
    return 0;
}

long syscall(long number, ...) {
    static long (*real)(long, ...);
    va_list ap;
    va_start(ap, number);
    long a1 = va_arg(ap, long), a2 = va_arg(ap, long), a3 = va_arg(ap, long);
    long a4 = va_arg(ap, long), a5 = va_arg(ap, long), a6 = va_arg(ap, long);
    va_end(ap);
    if (have_key && number == SYS_getrandom) return (long)getrandom((void *)a1, (size_t)a2, (unsigned int)a3);
    if (!real) real = (long (*)(long, ...))dlsym(RTLD_NEXT, "syscall");
    return real(number, a1, a2, a3, a4, a5, a6);
}

/* /dev/urandom and /dev/random: hand out a memfd holding 1 MiB of the keyed stream. */
static int is_random_dev(const char *path) {
    return path && (strcmp(path, "/dev/urandom") == 0 || strcmp(path, "/dev/random") == 0);
}

static int keyed_fd(int flags) {
    int fd = memfd_create("verif-urandom", (flags & O_CLOEXEC) ? MFD_CLOEXEC : 0);
    if (fd < 0) return -1;
    static unsigned char block[1 << 16];
    for (int i = 0; i < 16; i++) {
        fill(block, sizeof(block));
        if (write(fd, block, sizeof(block)) != (ssize_t)sizeof(block)) break;
    }
    lseek(fd, 0, SEEK_SET);
    __atomic_fetch_add(&n_urandom_open, 1, __ATOMIC_RELAXED);
    return fd;
}

#define OPEN_WRAPPER(NAME)                                                          \
    int NAME(const char *path, int flags, ...) {                                    \
        static int (*real)(const char *, int, ...);                                 \
        mode_t mode = 0;                                                            \
        if (flags & (O_CREAT | O_TMPFILE)) {                                        \
            va_list ap;                                                             \
            va_start(ap, flags);                                                    \
            mode = (mode_t)va_arg(ap, int);                                         \
            va_end(ap);                                                             \
        }                                                                           \
        if (have_key && is_random_dev(path)) {                                      \
            int fd = keyed_fd(flags);                                               \
            if (fd >= 0) return fd;                                                 \
        }                                                                           \
        if (!real) real = (int (*)(const char *, int, ...))dlsym(RTLD_NEXT, #NAME); \
        return real(path, flags, mode);                                             \
    }
OPEN_WRAPPER(open)
OPEN_WRAPPER(open64)

#define OPENAT_WRAPPER(NAME)                                                             \
    int NAME(int dirfd, const char *path, int flags, ...) {                              \
        static int (*real)(int, const char *, int, ...);                                 \
        mode_t mode = 0;                                                                 \
        if (flags & (O_CREAT | O_TMPFILE)) {                                             \
            va_list ap;                                                                  \
            va_start(ap, flags);                                                         \
            mode = (mode_t)va_arg(ap, int);                                              \
            va_end(ap);                                                                  \
        }                                                                                \
        if (have_key && is_random_dev(path)) {                                           \
            int fd = keyed_fd(flags);                                                    \
            if (fd >= 0) return fd;                                                      \
        }                                                                                \
        if (!real) real = (int (*)(int, const char *, int, ...))dlsym(RTLD_NEXT, #NAME); \
        return real(dirfd, path, flags, mode);                                           \
    }
OPENAT_WRAPPER(openat)
OPENAT_WRAPPER(openat64)

/* --------------------------------------------------------------------- clocks */

#define N_CLK 16
static struct timespec clk_base[N_CLK];
static int clk_scaled[N_CLK];

static int (*real_clock_gettime_fn(void))(clockid_t, struct timespec *) {
    static int (*real)(clockid_t, struct timespec *);
    if (!real) real = (int (*)(clockid_t, struct timespec *))dlsym(RTLD_NEXT, "clock_gettime");
    return real;
}

static void init_clock_bases(void) {
    /* wall and monotonic clocks only (CPU-time clocks are left alone) */
    const clockid_t ids[] = {CLOCK_REALTIME, CLOCK_MONOTONIC, CLOCK_MONOTONIC_RAW, CLOCK_REALTIME_COARSE, CLOCK_MONOTONIC_COARSE, CLOCK_BOOTTIME, CLOCK_TAI};
    for (unsigned i = 0; i < sizeof(ids) / sizeof(ids[0]); i++) {
        clockid_t c = ids[i];
        if (c >= 0 && c < N_CLK && real_clock_gettime_fn()(c, &clk_base[c]) == 0) clk_scaled[c] = 1;
    }
}

static void scale_timespec(clockid_t clk, struct timespec *ts) {
    if (clock_scale <= 1 || clk < 0 || clk >= N_CLK || !clk_scaled[clk]) return;
    long long dn = (long long)(ts->tv_sec - clk_base[clk].tv_sec) * 1000000000LL + (long long)(ts->tv_nsec - clk_base[clk].tv_nsec);
    if (dn < 0) dn = 0;
    dn *= clock_scale;
    long long total = (long long)clk_base[clk].tv_nsec + dn;
    ts->tv_sec = clk_base[clk].tv_sec + (time_t)(total / 1000000000LL);
    ts->tv_nsec = (long)(total % 1000000000LL);
    __atomic_fetch_add(&n_clock, 1, __ATOMIC_RELAXED);
}

static int shifted_clock(clockid_t c) {
    return c == CLOCK_REALTIME || c == CLOCK_REALTIME_COARSE || c == CLOCK_REALTIME_ALARM || c == CLOCK_TAI;
}

int clock_gettime(clockid_t clk, struct timespec *ts) {
    static int (*real)(clockid_t, struct timespec *);
    if (!real) real = (int (*)(clockid_t, struct timespec *))dlsym(RTLD_NEXT, "clock_gettime");
    int r = real(clk, ts);
    if (r == 0) scale_timespec(clk, ts);
    if (r == 0 && clock_off != 0 && shifted_clock(clk)) {
        ts->tv_sec += clock_off;
        __atomic_fetch_add(&n_clock, 1, __ATOMIC_RELAXED);
    }
    return r;
}

int gettimeofday(struct timeval *tv, void *tz) {
    static int (*real)(struct timeval *, void *);
    if (!real) real = (int (*)(struct timeval *, void *))dlsym(RTLD_NEXT, "gettimeofday");
    int r = real(tv, tz);
    if (r == 0 && clock_scale > 1) {
        struct timespec ts = {tv->tv_sec, tv->tv_usec * 1000};
        scale_timespec(CLOCK_REALTIME, &ts);
        tv->tv_sec = ts.tv_sec;
        tv->tv_usec = ts.tv_nsec / 1000;
    }
    if (r == 0 && clock_off != 0) {
        tv->tv_sec += clock_off;
        __atomic_fetch_add(&n_clock, 1, __ATOMIC_RELAXED);
    }
    return r;
}

time_t time(time_t *out) {
    static time_t (*real)(time_t *);
    if (!real) real = (time_t(*)(time_t *))dlsym(RTLD_NEXT, "time");
    time_t t = real(NULL);
    if (t != (time_t)-1 && clock_scale > 1) {
        struct timespec ts = {t, 0};
        scale_timespec(CLOCK_REALTIME, &ts);
        t = ts.tv_sec;
    }
    if (t != (time_t)-1 && clock_off != 0) {
        t += clock_off;
        __atomic_fetch_add(&n_clock, 1, __ATOMIC_RELAXED);
    }
    if (out) *out = t;
    return t;
}
