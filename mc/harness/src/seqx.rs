//! SEQX — explicit-state breadth-first exploration by replay (DESIGN §2.1).
//!
//! A state is represented by the operation history reaching it (real objects are not Clone).
//! `run(history, op)` must build a fresh real system, replay `history`, apply `op`, evaluate
//! its oracle on that transition (reporting violations itself) and return the canonical
//! fingerprint of the new state, or `None` to stop exploring beyond it (violating / disabled).
use crate::par;
use std::collections::HashSet;
use std::hash::{Hash, Hasher};
use std::time::Instant;

#[derive(Clone, Debug, Default)]
pub struct BfsStats {
    pub states: u64,
    pub transitions: u64,
    pub pruned_transitions: u64,
    pub depth_completed: usize,
    pub frontier_sizes: Vec<usize>,
    pub truncated: bool,
    /// one-step probes run from transitions whose successor fingerprint had been seen before
    pub duplicate_probes: u64,
}

pub fn fp128(s: &str) -> u128 {
    let mut h1 = std::collections::hash_map::DefaultHasher::new();
    s.hash(&mut h1);
    let mut h2 = std::collections::hash_map::DefaultHasher::new();
    0xA5u8.hash(&mut h2);
    s.hash(&mut h2);
    ((h1.finish() as u128) << 64) | (h2.finish() as u128)
}

pub struct Bfs {
    pub n_ops: usize,
    pub max_depth: usize,
    pub max_states: u64,
    pub deadline: Option<Instant>,
    pub workers: usize,
    /// Also run every op once (without expanding further) from each transition whose successor was
    /// deduplicated: if the fingerprint abstracts away something the implementation remembers, the
    /// merged state's one-step future is still compared on the real system (within the depth bound).
    pub probe_duplicates: bool,
}

impl Bfs {
    pub fn new(n_ops: usize, max_depth: usize) -> Self {
        Bfs {
            n_ops,
            max_depth,
            max_states: u64::MAX,
            deadline: None,
            workers: par::workers(),
            probe_duplicates: false,
        }
    }

    pub fn run<R>(&self, init_fp: &str, run: R) -> BfsStats
    where
        R: Fn(&[u16], u16) -> Option<String> + Sync,
    {
        let mut stats = BfsStats::default();
        let mut seen: HashSet<u128> = HashSet::new();
        seen.insert(fp128(init_fp));
        stats.states = 1;
        let mut frontier: Vec<Vec<u16>> = vec![vec![]];
        for depth in 0..self.max_depth {
            if frontier.is_empty() {
                stats.depth_completed = self.max_depth;
                break;
            }
            stats.frontier_sizes.push(frontier.len());
            // one work item per (state, op) so that parallelism does not depend on frontier size
            let items: Vec<(usize, u16)> = (0..frontier.len())
                .flat_map(|i| (0..self.n_ops as u16).map(move |o| (i, o)))
                .collect();
            let deadline = self.deadline;
            let results: Vec<Option<Option<u128>>> = par::par_map_n(self.workers, &items, |_, (i, o)| {
                if let Some(d) = deadline {
                    if Instant::now() > d {
                        return None;
                    }
                }
                Some(run(&frontier[*i], *o).map(|s| fp128(&s)))
            });
            let mut next: Vec<Vec<u16>> = Vec::new();
            let mut dups: Vec<Vec<u16>> = Vec::new();
            let mut incomplete = false;
            for ((i, o), r) in items.iter().zip(results) {
                match r {
                    None => incomplete = true,
                    Some(None) => {
                        stats.transitions += 1;
                        stats.pruned_transitions += 1;
                    }
                    Some(Some(fp)) => {
                        stats.transitions += 1;
                        let mut h = frontier[*i].clone();
                        h.push(*o);
                        if seen.insert(fp) {
                            stats.states += 1;
                            next.push(h);
                        } else if self.probe_duplicates && depth + 1 < self.max_depth {
                            dups.push(h);
                        }
                    }
                }
            }
            if incomplete {
                stats.truncated = true;
                break;
            }
            if !dups.is_empty() {
                let probe_items: Vec<(usize, u16)> = (0..dups.len()).flat_map(|i| (0..self.n_ops as u16).map(move |o| (i, o))).collect();
                let done: Vec<bool> = par::par_map_n(self.workers, &probe_items, |_, (i, o)| {
                    if let Some(d) = deadline {
                        if Instant::now() > d {
                            return false;
                        }
                    }
                    let _ = run(&dups[*i], *o);
                    true
                });
                stats.duplicate_probes += done.iter().filter(|d| **d).count() as u64;
                if done.iter().any(|d| !*d) {
                    stats.truncated = true;
                    break;
                }
            }
            stats.depth_completed = depth + 1;
            if stats.states > self.max_states {
                stats.truncated = true;
                break;
            }
            frontier = next;
        }
        stats
    }
}
