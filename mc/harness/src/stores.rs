//! Logging, fault-injecting stores for crash and fault enumeration (CRASHX, DESIGN §2.1).
//!
//! `VWalStore` implements the repo's public `WalStore` trait: every I/O call is appended to a log
//! together with the resulting (length, synced length) of the file, a fault plan maps call indices
//! to answers, and the crash image after any log prefix (each file cut to its last successful
//! sync) can be reconstructed.
use redis_sim::streaming::{WalError, WalFileReader, WalFileWriter, WalStore};
use std::collections::BTreeMap;
use std::sync::atomic::{AtomicU64, Ordering};
use std::sync::{Arc, Mutex};

#[derive(Clone, Copy, Debug, PartialEq, Eq)]
pub enum WalFault {
    /// the call fails with an I/O error and has no effect
    Fail,
    /// append only: the first half of the bytes reach the file, then an error is returned
    Partial,
    /// append/create only: DiskFull, no effect
    DiskFull,
    /// append only: like Partial, but the writer's reported size() does not count the torn bytes — the bookkeeping of a
    /// writer that adds to its size only after a complete write (the repository's LocalWalWriter)
    PartialUncounted,
}

impl WalFault {
    pub fn name(&self) -> &'static str {
        match self {
            WalFault::Fail => "fail",
            WalFault::Partial => "partial",
            WalFault::DiskFull => "diskfull",
            WalFault::PartialUncounted => "partial-uncounted",
        }
    }
}

#[derive(Clone, Debug)]
pub struct WalOp {
    pub kind: &'static str, // create | append | sync | delete
    pub file: String,
    pub ok: bool,
    pub fault: Option<WalFault>,
    /// bytes appended by this op (append only)
    pub bytes: Vec<u8>,
    /// state of `file` after the op
    pub len_after: usize,
    pub synced_after: usize,
}

#[derive(Default, Debug, Clone)]
struct VFile {
    data: Vec<u8>,
    synced: usize,
}

#[derive(Default)]
struct Inner {
    files: BTreeMap<String, VFile>,
    log: Vec<WalOp>,
    /// call index -> fault
    plan: BTreeMap<usize, WalFault>,
    calls: usize,
    /// called right before an I/O call is logged, with the number of calls logged so far (must not touch the store)
    observer: Option<Arc<dyn Fn(usize) + Send + Sync>>,
}

#[derive(Clone)]
pub struct VWalStore {
    inner: Arc<Mutex<Inner>>,
    /// number of I/O calls logged so far (readable from wakers: timestamps acknowledgements)
    pub log_len: Arc<AtomicU64>,
}

impl Default for VWalStore {
    fn default() -> Self {
        Self::new()
    }
}

impl VWalStore {
    pub fn new() -> Self {
        VWalStore {
            inner: Arc::new(Mutex::new(Inner::default())),
            log_len: Arc::new(AtomicU64::new(0)),
        }
    }

    pub fn with_plan(plan: &[(usize, WalFault)]) -> Self {
        let s = Self::new();
        s.inner.lock().unwrap().plan = plan.iter().cloned().collect();
        s
    }

    /// A store holding exactly these (fully synced) files: a post-crash image.
    pub fn from_image(files: &BTreeMap<String, Vec<u8>>) -> Self {
        let s = Self::new();
        {
            let mut i = s.inner.lock().unwrap();
            for (k, v) in files {
                i.files.insert(
                    k.clone(),
                    VFile {
                        data: v.clone(),
                        synced: v.len(),
                    },
                );
            }
        }
        s
    }

    pub fn log(&self) -> Vec<WalOp> {
        self.inner.lock().unwrap().log.clone()
    }

    pub fn calls(&self) -> usize {
        self.inner.lock().unwrap().calls
    }

    /// Files as they are right now (unsynced bytes included).
    pub fn files_now(&self) -> BTreeMap<String, Vec<u8>> {
        self.inner.lock().unwrap().files.iter().map(|(k, v)| (k.clone(), v.data.clone())).collect()
    }

    /// Crash image after the first `prefix` logged I/O calls: every file cut to the bytes covered by
    /// its last successful sync within the prefix; deleted files are gone.
    pub fn crash_image(log: &[WalOp], prefix: usize) -> BTreeMap<String, Vec<u8>> {
        let mut data: BTreeMap<String, Vec<u8>> = BTreeMap::new();
        let mut synced: BTreeMap<String, usize> = BTreeMap::new();
        for op in &log[..prefix.min(log.len())] {
            match op.kind {
                "create" if op.ok => {
                    data.insert(op.file.clone(), Vec::new());
                    synced.insert(op.file.clone(), 0);
                }
                "append" => {
                    if let Some(d) = data.get_mut(&op.file) {
                        d.extend_from_slice(&op.bytes);
                    }
                }
                "sync" if op.ok => {
                    let l = data.get(&op.file).map(|d| d.len()).unwrap_or(0);
                    synced.insert(op.file.clone(), l);
                }
                "delete" if op.ok => {
                    data.remove(&op.file);
                    synced.remove(&op.file);
                }
                _ => {}
            }
        }
        data.into_iter()
            .map(|(k, v)| {
                let s = synced.get(&k).copied().unwrap_or(0);
                (k, v[..s.min(v.len())].to_vec())
            })
            .collect()
    }

    /// Install a callback that runs right before every I/O call takes effect (what else is true at that crash point?).
    pub fn set_observer(&self, f: Arc<dyn Fn(usize) + Send + Sync>) {
        self.inner.lock().unwrap().observer = Some(f);
    }

    fn record(&self, i: &mut Inner, op: WalOp) {
        if let Some(f) = &i.observer {
            f(i.log.len());
        }
        i.log.push(op);
        self.log_len.store(i.log.len() as u64, Ordering::SeqCst);
    }

    fn next_fault(i: &mut Inner) -> Option<WalFault> {
        let idx = i.calls;
        i.calls += 1;
        i.plan.get(&idx).copied()
    }
}

pub struct VWriter {
    store: VWalStore,
    name: String,
    /// bytes in the file that size() does not report (torn bytes of PartialUncounted faults)
    hidden: u64,
}

fn io_err(msg: &str) -> WalError {
    WalError::Io(std::io::Error::new(std::io::ErrorKind::Other, msg.to_string()))
}

impl WalFileWriter for VWriter {
    fn append(&mut self, data: &[u8]) -> Result<u64, WalError> {
        let mut i = self.store.inner.lock().unwrap();
        let fault = VWalStore::next_fault(&mut i);
        let (written, result): (&[u8], Result<(), WalError>) = match fault {
            None => (data, Ok(())),
            Some(WalFault::Fail) => (&data[..0], Err(io_err("injected append failure"))),
            Some(WalFault::DiskFull) => (&data[..0], Err(WalError::DiskFull)),
            Some(WalFault::Partial) => {
                let n = data.len() / 2;
                (&data[..n], Err(WalError::PartialWrite { expected: data.len(), actual: n }))
            }
            Some(WalFault::PartialUncounted) => {
                let n = data.len() / 2;
                self.hidden += n as u64;
                (&data[..n], Err(io_err("injected write failure after part of the bytes")))
            }
        };
        let f = i.files.entry(self.name.clone()).or_default();
        f.data.extend_from_slice(written);
        let (len_after, synced_after) = (f.data.len(), f.synced);
        let op = WalOp {
            kind: "append",
            file: self.name.clone(),
            ok: result.is_ok(),
            fault,
            bytes: written.to_vec(),
            len_after,
            synced_after,
        };
        self.store.record(&mut i, op);
        let hidden = self.hidden;
        result.map(|_| len_after as u64 - hidden)
    }

    fn sync(&mut self) -> Result<(), WalError> {
        let mut i = self.store.inner.lock().unwrap();
        let fault = VWalStore::next_fault(&mut i);
        let ok = fault.is_none();
        let f = i.files.entry(self.name.clone()).or_default();
        if ok {
            f.synced = f.data.len();
        }
        let (len_after, synced_after) = (f.data.len(), f.synced);
        let op = WalOp {
            kind: "sync",
            file: self.name.clone(),
            ok,
            fault,
            bytes: Vec::new(),
            len_after,
            synced_after,
        };
        self.store.record(&mut i, op);
        if ok {
            Ok(())
        } else {
            Err(WalError::FsyncFailed("injected fsync failure".into()))
        }
    }

    fn size(&self) -> u64 {
        self.store.inner.lock().unwrap().files.get(&self.name).map(|f| f.data.len() as u64).unwrap_or(0) - self.hidden
    }
}

pub struct VReader(Vec<u8>);

impl WalFileReader for VReader {
    fn read_all(&mut self) -> Result<Vec<u8>, WalError> {
        Ok(self.0.clone())
    }
}

impl WalStore for VWalStore {
    type Writer = VWriter;
    type Reader = VReader;

    fn create(&self, name: &str) -> Result<VWriter, WalError> {
        let mut i = self.inner.lock().unwrap();
        let fault = VWalStore::next_fault(&mut i);
        let ok = fault.is_none();
        if ok {
            i.files.insert(name.to_string(), VFile::default());
        }
        let op = WalOp {
            kind: "create",
            file: name.to_string(),
            ok,
            fault,
            bytes: Vec::new(),
            len_after: 0,
            synced_after: 0,
        };
        self.record(&mut i, op);
        if ok {
            Ok(VWriter {
                store: self.clone(),
                name: name.to_string(),
                hidden: 0,
            })
        } else if fault == Some(WalFault::DiskFull) {
            Err(WalError::DiskFull)
        } else {
            Err(io_err("injected create failure"))
        }
    }

    fn open_read(&self, name: &str) -> Result<VReader, WalError> {
        let i = self.inner.lock().unwrap();
        match i.files.get(name) {
            Some(f) => Ok(VReader(f.data.clone())),
            None => Err(WalError::NotFound(name.to_string())),
        }
    }

    fn list(&self) -> Result<Vec<String>, WalError> {
        Ok(self.inner.lock().unwrap().files.keys().cloned().collect())
    }

    fn delete(&self, name: &str) -> Result<(), WalError> {
        let mut i = self.inner.lock().unwrap();
        let existed = i.files.remove(name).is_some();
        let op = WalOp {
            kind: "delete",
            file: name.to_string(),
            ok: existed,
            fault: None,
            bytes: Vec::new(),
            len_after: 0,
            synced_after: 0,
        };
        self.record(&mut i, op);
        Ok(())
    }

    fn exists(&self, name: &str) -> Result<bool, WalError> {
        Ok(self.inner.lock().unwrap().files.contains_key(name))
    }
}

// =============================================================================================
// Object store
// =============================================================================================

use redis_sim::streaming::{ListResult, ObjectMeta, ObjectStore};
use std::future::Future;
use std::io::{Error as IoError, ErrorKind, Result as IoResult};
use std::pin::Pin;
use std::task::{Context, Poll};

#[derive(Clone, Copy, Debug, PartialEq, Eq)]
pub enum ObjFault {
    /// transient error, no effect
    Fail,
    /// put only: the object is left truncated (first half), then an error is returned
    TruncatedPut,
    /// get only: the call succeeds but one byte of the returned copy is flipped (a transient read corruption, as the
    /// repository's own SimulatedObjectStore injects with get_corrupt_prob); the stored object is intact
    CorruptRead,
}

impl ObjFault {
    pub fn name(&self) -> &'static str {
        match self {
            ObjFault::Fail => "fail",
            ObjFault::TruncatedPut => "truncated-put",
            ObjFault::CorruptRead => "corrupt-read",
        }
    }
}

pub type ObjImage = BTreeMap<String, Vec<u8>>;

#[derive(Clone, Debug)]
pub struct ObjOp {
    pub kind: &'static str, // put | get | exists | delete | list | rename | head
    pub key: String,
    pub ok: bool,
    pub fault: Option<ObjFault>,
    /// who issued it (label set by the harness before running a component)
    pub actor: String,
    /// for put: the full bytes the caller wanted to store (crash-inside-put variants)
    pub put_bytes: Vec<u8>,
}

#[derive(Default)]
struct ObjInner {
    objects: ObjImage,
    log: Vec<ObjOp>,
    /// store contents after each logged op (index i = after op i)
    snapshots: Vec<Arc<ObjImage>>,
    plan: BTreeMap<usize, ObjFault>,
    calls: usize,
    actor: String,
    yield_each_op: bool,
    /// (substring, n): the n-th (1-based) get from now on whose key contains the substring returns a corrupted copy
    corrupt_get: Option<(String, usize)>,
}

/// Logging, fault-injecting object store. Operations are atomic (like the repo's in-memory and
/// S3 stores); with `yield_each_op` every operation first returns Pending once so that a
/// scheduler can interleave two components at store-operation granularity.
#[derive(Clone, Default)]
pub struct VObjStore {
    inner: Arc<Mutex<ObjInner>>,
}

struct YieldOnce(bool);
impl Future for YieldOnce {
    type Output = ();
    fn poll(mut self: Pin<&mut Self>, cx: &mut Context<'_>) -> Poll<()> {
        if self.0 {
            Poll::Ready(())
        } else {
            self.0 = true;
            cx.waker().wake_by_ref();
            Poll::Pending
        }
    }
}

impl VObjStore {
    pub fn new() -> Self {
        Self::default()
    }
    pub fn from_image(img: &ObjImage) -> Self {
        let s = Self::new();
        s.inner.lock().unwrap().objects = img.clone();
        s
    }
    pub fn set_plan(&self, plan: &[(usize, ObjFault)]) {
        let mut i = self.inner.lock().unwrap();
        i.plan = plan.iter().cloned().collect();
    }
    /// Fault indices are relative to calls made from now on.
    pub fn reset_call_counter(&self) {
        self.inner.lock().unwrap().calls = 0;
    }
    pub fn set_actor(&self, a: &str) {
        self.inner.lock().unwrap().actor = a.to_string();
    }
    /// The n-th (1-based) `get` from now on of a key containing `substring` succeeds with one flipped byte.
    pub fn corrupt_nth_get(&self, substring: &str, n: usize) {
        self.inner.lock().unwrap().corrupt_get = if n == 0 { None } else { Some((substring.to_string(), n)) };
    }
    pub fn set_yield(&self, y: bool) {
        self.inner.lock().unwrap().yield_each_op = y;
    }
    pub fn log(&self) -> Vec<ObjOp> {
        self.inner.lock().unwrap().log.clone()
    }
    pub fn log_len(&self) -> usize {
        self.inner.lock().unwrap().log.len()
    }
    pub fn calls(&self) -> usize {
        self.inner.lock().unwrap().calls
    }
    pub fn image_now(&self) -> ObjImage {
        self.inner.lock().unwrap().objects.clone()
    }
    /// Store contents after the first `prefix` logged operations (`base` = contents before op 0).
    pub fn image_after(&self, base: &ObjImage, prefix: usize) -> ObjImage {
        let i = self.inner.lock().unwrap();
        if prefix == 0 {
            base.clone()
        } else {
            (*i.snapshots[prefix - 1]).clone()
        }
    }
    pub fn clear_log(&self) {
        let mut i = self.inner.lock().unwrap();
        i.log.clear();
        i.snapshots.clear();
    }

    fn begin(&self) -> (Option<ObjFault>, bool, String) {
        let mut i = self.inner.lock().unwrap();
        let idx = i.calls;
        i.calls += 1;
        (i.plan.get(&idx).copied(), i.yield_each_op, i.actor.clone())
    }

    fn finish(&self, kind: &'static str, key: &str, ok: bool, fault: Option<ObjFault>, actor: String, put_bytes: Vec<u8>) {
        let mut i = self.inner.lock().unwrap();
        i.log.push(ObjOp { kind, key: key.to_string(), ok, fault, actor, put_bytes });
        let snap = Arc::new(i.objects.clone());
        i.snapshots.push(snap);
    }
}

fn inj() -> IoError {
    IoError::new(ErrorKind::Other, "injected object-store failure")
}

impl ObjectStore for VObjStore {
    fn put<'a>(&'a self, key: &'a str, data: &'a [u8]) -> Pin<Box<dyn Future<Output = IoResult<()>> + Send + 'a>> {
        Box::pin(async move {
            let (fault, y, actor) = self.begin();
            if y {
                YieldOnce(false).await;
            }
            let res = match fault {
                None => {
                    self.inner.lock().unwrap().objects.insert(key.to_string(), data.to_vec());
                    Ok(())
                }
                Some(ObjFault::TruncatedPut) => {
                    self.inner.lock().unwrap().objects.insert(key.to_string(), data[..data.len() / 2].to_vec());
                    Err(inj())
                }
                Some(ObjFault::Fail) | Some(ObjFault::CorruptRead) => Err(inj()),
            };
            self.finish("put", key, res.is_ok(), fault, actor, data.to_vec());
            res
        })
    }

    fn get<'a>(&'a self, key: &'a str) -> Pin<Box<dyn Future<Output = IoResult<Vec<u8>>> + Send + 'a>> {
        Box::pin(async move {
            let (mut fault, y, actor) = self.begin();
            {
                let mut i = self.inner.lock().unwrap();
                let hit = match &mut i.corrupt_get {
                    Some((sub, n)) if key.contains(sub.as_str()) => {
                        *n -= 1;
                        *n == 0
                    }
                    _ => false,
                };
                if hit {
                    i.corrupt_get = None;
                    fault = Some(ObjFault::CorruptRead);
                }
            }
            if y {
                YieldOnce(false).await;
            }
            let res = if fault.is_some() && fault != Some(ObjFault::CorruptRead) {
                Err(inj())
            } else {
                match self.inner.lock().unwrap().objects.get(key) {
                    Some(d) => {
                        let mut d = d.clone();
                        if fault == Some(ObjFault::CorruptRead) && !d.is_empty() {
                            let mid = d.len() / 2;
                            d[mid] ^= 0xFF;
                        }
                        Ok(d)
                    }
                    None => Err(IoError::new(ErrorKind::NotFound, format!("not found: {key}"))),
                }
            };
            self.finish("get", key, res.is_ok(), fault, actor, Vec::new());
            res
        })
    }

    fn exists<'a>(&'a self, key: &'a str) -> Pin<Box<dyn Future<Output = IoResult<bool>> + Send + 'a>> {
        Box::pin(async move {
            let (fault, y, actor) = self.begin();
            if y {
                YieldOnce(false).await;
            }
            let res = if fault.is_some() { Err(inj()) } else { Ok(self.inner.lock().unwrap().objects.contains_key(key)) };
            self.finish("exists", key, res.is_ok(), fault, actor, Vec::new());
            res
        })
    }

    fn delete<'a>(&'a self, key: &'a str) -> Pin<Box<dyn Future<Output = IoResult<()>> + Send + 'a>> {
        Box::pin(async move {
            let (fault, y, actor) = self.begin();
            if y {
                YieldOnce(false).await;
            }
            let res = if fault.is_some() {
                Err(inj())
            } else {
                self.inner.lock().unwrap().objects.remove(key);
                Ok(())
            };
            self.finish("delete", key, res.is_ok(), fault, actor, Vec::new());
            res
        })
    }

    fn list<'a>(&'a self, prefix: &'a str, _continuation_token: Option<&'a str>) -> Pin<Box<dyn Future<Output = IoResult<ListResult>> + Send + 'a>> {
        Box::pin(async move {
            let (fault, y, actor) = self.begin();
            if y {
                YieldOnce(false).await;
            }
            let res = if fault.is_some() {
                Err(inj())
            } else {
                let i = self.inner.lock().unwrap();
                Ok(ListResult {
                    objects: i
                        .objects
                        .iter()
                        .filter(|(k, _)| k.starts_with(prefix))
                        .map(|(k, v)| ObjectMeta { key: k.clone(), size_bytes: v.len() as u64, created_at_ms: 0, etag: None })
                        .collect(),
                    continuation_token: None,
                })
            };
            self.finish("list", prefix, res.is_ok(), fault, actor, Vec::new());
            res
        })
    }

    fn rename<'a>(&'a self, from: &'a str, to: &'a str) -> Pin<Box<dyn Future<Output = IoResult<()>> + Send + 'a>> {
        Box::pin(async move {
            let (fault, y, actor) = self.begin();
            if y {
                YieldOnce(false).await;
            }
            let res = if fault.is_some() {
                Err(inj())
            } else {
                let mut i = self.inner.lock().unwrap();
                match i.objects.remove(from) {
                    Some(d) => {
                        i.objects.insert(to.to_string(), d);
                        Ok(())
                    }
                    None => Err(IoError::new(ErrorKind::NotFound, format!("not found: {from}"))),
                }
            };
            self.finish("rename", to, res.is_ok(), fault, actor, Vec::new());
            res
        })
    }

    fn head<'a>(&'a self, key: &'a str) -> Pin<Box<dyn Future<Output = IoResult<ObjectMeta>> + Send + 'a>> {
        Box::pin(async move {
            let (fault, y, actor) = self.begin();
            if y {
                YieldOnce(false).await;
            }
            let res = if fault.is_some() {
                Err(inj())
            } else {
                match self.inner.lock().unwrap().objects.get(key) {
                    Some(d) => Ok(ObjectMeta { key: key.to_string(), size_bytes: d.len() as u64, created_at_ms: 0, etag: None }),
                    None => Err(IoError::new(ErrorKind::NotFound, format!("not found: {key}"))),
                }
            };
            self.finish("head", key, res.is_ok(), fault, actor, Vec::new());
            res
        })
    }
}

/// A handle on a `VObjStore` that stamps every operation it issues with `tag` (the log's `actor`), so that the log of
/// a store shared by two tasks tells whose operation each entry was.
#[derive(Clone)]
pub struct Tagged(pub VObjStore, pub &'static str);

impl ObjectStore for Tagged {
    fn put<'a>(&'a self, key: &'a str, data: &'a [u8]) -> Pin<Box<dyn Future<Output = IoResult<()>> + Send + 'a>> {
        Box::pin(async move {
            self.0.set_actor(self.1);
            self.0.put(key, data).await
        })
    }
    fn get<'a>(&'a self, key: &'a str) -> Pin<Box<dyn Future<Output = IoResult<Vec<u8>>> + Send + 'a>> {
        Box::pin(async move {
            self.0.set_actor(self.1);
            self.0.get(key).await
        })
    }
    fn exists<'a>(&'a self, key: &'a str) -> Pin<Box<dyn Future<Output = IoResult<bool>> + Send + 'a>> {
        Box::pin(async move {
            self.0.set_actor(self.1);
            self.0.exists(key).await
        })
    }
    fn delete<'a>(&'a self, key: &'a str) -> Pin<Box<dyn Future<Output = IoResult<()>> + Send + 'a>> {
        Box::pin(async move {
            self.0.set_actor(self.1);
            self.0.delete(key).await
        })
    }
    fn list<'a>(&'a self, prefix: &'a str, continuation_token: Option<&'a str>) -> Pin<Box<dyn Future<Output = IoResult<ListResult>> + Send + 'a>> {
        Box::pin(async move {
            self.0.set_actor(self.1);
            self.0.list(prefix, continuation_token).await
        })
    }
    fn rename<'a>(&'a self, from: &'a str, to: &'a str) -> Pin<Box<dyn Future<Output = IoResult<()>> + Send + 'a>> {
        Box::pin(async move {
            self.0.set_actor(self.1);
            self.0.rename(from, to).await
        })
    }
    fn head<'a>(&'a self, key: &'a str) -> Pin<Box<dyn Future<Output = IoResult<ObjectMeta>> + Send + 'a>> {
        Box::pin(async move {
            self.0.set_actor(self.1);
            self.0.head(key).await
        })
    }
}
