// logging stores: see later
