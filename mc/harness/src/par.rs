//! Deterministic parallel map (results in input order) over std threads.
use std::sync::atomic::{AtomicUsize, Ordering};
use std::sync::Mutex;

pub fn workers() -> usize {
    std::env::var("VERIF_WORKERS")
        .ok()
        .and_then(|s| s.parse().ok())
        .unwrap_or_else(|| std::thread::available_parallelism().map(|p| p.get()).unwrap_or(4))
        .max(1)
}

pub fn par_map<T: Sync, R: Send, F: Fn(usize, &T) -> R + Sync>(items: &[T], f: F) -> Vec<R> {
    par_map_n(workers(), items, f)
}

pub fn par_map_n<T: Sync, R: Send, F: Fn(usize, &T) -> R + Sync>(n: usize, items: &[T], f: F) -> Vec<R> {
    let next = AtomicUsize::new(0);
    let out: Mutex<Vec<Option<R>>> = Mutex::new((0..items.len()).map(|_| None).collect());
    let chunk = (items.len() / (n * 8)).clamp(1, 256);
    std::thread::scope(|s| {
        for _ in 0..n.min(items.len().max(1)) {
            s.spawn(|| loop {
                let start = next.fetch_add(chunk, Ordering::Relaxed);
                if start >= items.len() {
                    break;
                }
                let end = (start + chunk).min(items.len());
                let mut local = Vec::with_capacity(end - start);
                for i in start..end {
                    local.push(f(i, &items[i]));
                }
                let mut o = out.lock().unwrap();
                for (k, r) in local.into_iter().enumerate() {
                    o[start + k] = Some(r);
                }
            });
        }
    });
    out.into_inner().unwrap().into_iter().map(|r| r.expect("worker panicked")).collect()
}
