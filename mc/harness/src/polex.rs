//! POLEX — poll-level controlled scheduler and stateless DFS over choice sequences
//! (DESIGN §2.1). The unit of scheduling is one `Future::poll`.
use std::future::Future;
use std::pin::Pin;
use std::sync::atomic::{AtomicBool, Ordering};
use std::sync::{Arc, Mutex};
use std::task::{Context, Poll, Wake, Waker};
use std::time::{Duration, Instant};

// ------------------------------------------------------------------------------------------
// Chooser: the source of every nondeterministic decision of one execution.
// ------------------------------------------------------------------------------------------

#[derive(Clone, Debug)]
pub struct ChoicePoint {
    pub chosen: u32,
    pub n: u32,
    pub class: Option<u8>,
    /// budget use per class before this choice
    pub used_before: [u32; 4],
}

pub struct Chooser {
    prefix: Vec<(u32, u32)>,
    pub trail: Vec<ChoicePoint>,
    pub used: [u32; 4],
    pub diverged: Option<String>,
}

impl Chooser {
    pub fn new(prefix: Vec<(u32, u32)>) -> Self {
        Chooser {
            prefix,
            trail: Vec::new(),
            used: [0; 4],
            diverged: None,
        }
    }

    /// Choose among `n` options (option 0 is the default). `class`: budget class charged when
    /// a non-default option is taken (0 = preemptions, 1 = faults, …); `None` = free choice.
    pub fn choose(&mut self, n: usize, class: Option<u8>) -> usize {
        assert!(n > 0, "choose(0)");
        let pos = self.trail.len();
        let c = if pos < self.prefix.len() {
            let (c, pn) = self.prefix[pos];
            if pn != 0 && pn as usize != n && self.diverged.is_none() {
                self.diverged = Some(format!(
                    "replay divergence at choice {pos}: {n} options now, {pn} when recorded"
                ));
            }
            if c as usize >= n {
                if self.diverged.is_none() {
                    self.diverged = Some(format!("replay divergence at choice {pos}: option {c} of {n}"));
                }
                0
            } else {
                c
            }
        } else {
            0
        };
        self.trail.push(ChoicePoint {
            chosen: c,
            n: n as u32,
            class,
            used_before: self.used,
        });
        if c > 0 {
            if let Some(k) = class {
                self.used[k as usize] += 1;
            }
        }
        c as usize
    }

    pub fn schedule(&self) -> Vec<u32> {
        self.trail.iter().map(|c| c.chosen).collect()
    }
}

#[derive(Clone, Debug)]
pub struct DfsConfig {
    /// maximum non-default picks per budget class (u32::MAX = unbounded)
    pub budgets: [u32; 4],
    pub max_executions: u64,
    pub deadline: Option<Instant>,
}

impl Default for DfsConfig {
    fn default() -> Self {
        DfsConfig {
            budgets: [u32::MAX; 4],
            max_executions: u64::MAX,
            deadline: None,
        }
    }
}

#[derive(Clone, Debug, Default)]
pub struct DfsStats {
    pub executions: u64,
    pub truncated: bool,
    pub max_choice_points: usize,
    pub max_used: [u32; 4],
}

fn next_prefix(trail: &[ChoicePoint], budgets: &[u32; 4]) -> Option<Vec<(u32, u32)>> {
    let mut i = trail.len();
    while i > 0 {
        i -= 1;
        let cp = &trail[i];
        if cp.chosen + 1 < cp.n {
            let allowed = match cp.class {
                None => true,
                Some(k) => cp.chosen > 0 || cp.used_before[k as usize] < budgets[k as usize],
            };
            if allowed {
                let mut p: Vec<(u32, u32)> = trail[..i].iter().map(|c| (c.chosen, c.n)).collect();
                p.push((cp.chosen + 1, cp.n));
                return Some(p);
            }
        }
    }
    None
}

/// Enumerate every execution of `run_one` (which must be a deterministic function of the
/// choices it requests) within the budgets. `run_one` returns `false` to abort the search.
pub fn explore<F: FnMut(&mut Chooser) -> bool>(cfg: &DfsConfig, mut run_one: F) -> DfsStats {
    let mut stats = DfsStats::default();
    let mut prefix: Vec<(u32, u32)> = Vec::new();
    loop {
        let mut ch = Chooser::new(prefix);
        let cont = run_one(&mut ch);
        if let Some(d) = &ch.diverged {
            eprintln!("MACHINERY-FAILURE nondeterministic harness: {d}");
            std::process::exit(2);
        }
        stats.executions += 1;
        stats.max_choice_points = stats.max_choice_points.max(ch.trail.len());
        for k in 0..4 {
            stats.max_used[k] = stats.max_used[k].max(ch.used[k]);
        }
        if !cont {
            stats.truncated = true;
            break;
        }
        match next_prefix(&ch.trail, &cfg.budgets) {
            Some(p) => prefix = p,
            None => break,
        }
        if stats.executions >= cfg.max_executions {
            stats.truncated = true;
            break;
        }
        if let Some(d) = cfg.deadline {
            if Instant::now() > d {
                stats.truncated = true;
                break;
            }
        }
    }
    stats
}

/// Replay exactly one schedule (list of chosen options).
pub fn replay_prefix(schedule: &[u32]) -> Chooser {
    Chooser::new(schedule.iter().map(|c| (*c, 0)).collect())
}

// ------------------------------------------------------------------------------------------
// Task scheduler
// ------------------------------------------------------------------------------------------

pub type LocalFut = Pin<Box<dyn Future<Output = ()>>>;

pub struct WakeFlag {
    woken: AtomicBool,
    /// value of the harness's "stamp" source at each wake (e.g. I/O log length)
    pub stamps: Mutex<Vec<u64>>,
    stamp_src: Option<Arc<std::sync::atomic::AtomicU64>>,
}

impl Wake for WakeFlag {
    fn wake(self: Arc<Self>) {
        self.wake_by_ref();
    }
    fn wake_by_ref(self: &Arc<Self>) {
        self.woken.store(true, Ordering::SeqCst);
        if let Some(s) = &self.stamp_src {
            self.stamps.lock().unwrap().push(s.load(Ordering::SeqCst));
        }
    }
}

pub struct TaskSlot {
    pub name: String,
    fut: Option<LocalFut>,
    pub flag: Arc<WakeFlag>,
    pub daemon: bool,
    pub done: bool,
    pub polls: u32,
}

pub const ADVANCE: usize = usize::MAX;

pub struct Sched {
    pub tasks: Vec<TaskSlot>,
    pub advance_left: u32,
    pub advance_by: Duration,
    pub last: Option<usize>,
    /// sequence of task ids polled (ADVANCE for clock advances)
    pub trace: Vec<usize>,
    pub stamp_src: Option<Arc<std::sync::atomic::AtomicU64>>,
    pub panicked: Option<String>,
    /// number of steps performed so far (readable from inside tasks: logical time of a history)
    pub step_counter: Arc<std::sync::atomic::AtomicU64>,
    /// When set, "nothing enabled but clients unfinished" is resolved by letting (virtual) time
    /// pass — time always advances in reality — up to this many forced steps; only then is it a
    /// deadlock. Forced advances are not choices and cost nothing.
    pub forced_advances_left: u32,
    /// a harness-owned clock (milliseconds) that moves by the given amount whenever the scheduler takes an ADVANCE step
    pub harness_clock: Option<(Arc<std::sync::atomic::AtomicU64>, u64)>,
}

impl Default for Sched {
    fn default() -> Self {
        Self::new()
    }
}

impl Sched {
    pub fn new() -> Self {
        Sched {
            tasks: Vec::new(),
            advance_left: 0,
            advance_by: Duration::from_millis(1),
            last: None,
            trace: Vec::new(),
            stamp_src: None,
            panicked: None,
            step_counter: Arc::new(std::sync::atomic::AtomicU64::new(0)),
            forced_advances_left: 0,
            harness_clock: None,
        }
    }

    pub fn add(&mut self, name: &str, fut: LocalFut, daemon: bool) -> usize {
        let flag = Arc::new(WakeFlag {
            woken: AtomicBool::new(true),
            stamps: Mutex::new(Vec::new()),
            stamp_src: self.stamp_src.clone(),
        });
        self.tasks.push(TaskSlot {
            name: name.to_string(),
            fut: Some(Box::pin(tokio::task::unconstrained(fut))),
            flag,
            daemon,
            done: false,
            polls: 0,
        });
        self.tasks.len() - 1
    }

    /// Adopt futures that the code under check handed to `verif_hooks::spawn` (as daemons).
    pub fn adopt_captured(&mut self) -> usize {
        let caught = redis_sim::verif_hooks::take_captured();
        let n = caught.len();
        for (label, fut) in caught {
            let idx = self.tasks.len();
            self.add(&format!("{label}#{idx}"), fut, true);
        }
        n
    }

    pub fn is_enabled(&self, id: usize) -> bool {
        let t = &self.tasks[id];
        !t.done && t.flag.woken.load(Ordering::SeqCst)
    }

    /// Enabled choices in canonical order: the task that ran last first (if still enabled),
    /// then ascending ids, then the clock advance (if any left).
    pub fn enabled(&self) -> Vec<usize> {
        let mut v = Vec::new();
        if let Some(l) = self.last {
            if l != ADVANCE && self.is_enabled(l) {
                v.push(l);
            }
        }
        for id in 0..self.tasks.len() {
            if Some(id) != self.last && self.is_enabled(id) {
                v.push(id);
            }
        }
        if self.advance_left > 0 {
            v.push(ADVANCE);
        }
        v
    }

    pub fn last_still_enabled(&self) -> bool {
        matches!(self.last, Some(l) if l != ADVANCE && self.is_enabled(l))
    }

    pub fn clients_done(&self) -> bool {
        self.tasks.iter().all(|t| t.daemon || t.done)
    }

    /// Perform one step: poll one task once, or advance the paused clock.
    pub async fn step(&mut self, id: usize) {
        self.step_counter.fetch_add(1, Ordering::SeqCst);
        self.trace.push(id);
        self.last = Some(id);
        if id == ADVANCE {
            assert!(self.advance_left > 0);
            self.advance_left -= 1;
            if let Some((c, ms)) = &self.harness_clock {
                c.fetch_add(*ms, Ordering::SeqCst);
            }
            tokio::time::advance(self.advance_by).await;
            return;
        }
        let t = &mut self.tasks[id];
        assert!(!t.done, "polling finished task");
        t.flag.woken.store(false, Ordering::SeqCst);
        t.polls += 1;
        let waker = Waker::from(t.flag.clone());
        let mut cx = Context::from_waker(&waker);
        let mut fut = t.fut.take().expect("future present");
        let res = std::panic::catch_unwind(std::panic::AssertUnwindSafe(|| fut.as_mut().poll(&mut cx)));
        match res {
            Ok(Poll::Ready(())) => {
                t.done = true;
            }
            Ok(Poll::Pending) => {
                t.fut = Some(fut);
            }
            Err(p) => {
                t.done = true;
                let msg = if let Some(s) = p.downcast_ref::<&str>() {
                    s.to_string()
                } else if let Some(s) = p.downcast_ref::<String>() {
                    s.clone()
                } else {
                    "panic".to_string()
                };
                self.panicked = Some(format!("task {} panicked: {}", t.name, msg));
            }
        }
        self.adopt_captured();
    }

    /// Run until every non-daemon task is done, asking `ch` at each point with more than one
    /// enabled choice. Returns Err(description) on deadlock (clients unfinished, nothing enabled),
    /// panic, or when `max_steps` is exceeded.
    pub async fn run_to_completion(&mut self, ch: &mut Chooser, max_steps: usize) -> Result<(), String> {
        let mut steps = 0usize;
        while !self.clients_done() {
            if let Some(p) = &self.panicked {
                return Err(p.clone());
            }
            let en = self.enabled();
            if en.is_empty() && self.forced_advances_left > 0 {
                self.forced_advances_left -= 1;
                self.step_counter.fetch_add(1, Ordering::SeqCst);
                self.trace.push(ADVANCE);
                self.last = Some(ADVANCE);
                tokio::time::advance(self.advance_by).await;
                continue;
            }
            if en.is_empty() {
                let stuck: Vec<&str> = self
                    .tasks
                    .iter()
                    .filter(|t| !t.daemon && !t.done)
                    .map(|t| t.name.as_str())
                    .collect();
                return Err(format!("deadlock: no enabled task, unfinished: {}", stuck.join(",")));
            }
            let pick = if en.len() == 1 {
                0
            } else {
                // class 0: preemption (the task that just ran could continue);
                // class 1: delay (a non-default task is picked at a point where the last task is blocked)
                let class = if self.last_still_enabled() { Some(0u8) } else { Some(1u8) };
                ch.choose(en.len(), class)
            };
            self.step(en[pick]).await;
            steps += 1;
            if steps > max_steps {
                return Err(format!("step limit {max_steps} exceeded (livelock?)"));
            }
        }
        if let Some(p) = &self.panicked {
            return Err(p.clone());
        }
        Ok(())
    }

    /// Drive daemons (and anything else enabled) in canonical order until nothing is enabled.
    /// Used for sequential clients where the schedule is not a dimension.
    pub async fn quiesce(&mut self, max_steps: usize) -> Result<(), String> {
        let mut steps = 0;
        loop {
            if let Some(p) = &self.panicked {
                return Err(p.clone());
            }
            let en: Vec<usize> = self.enabled().into_iter().filter(|i| *i != ADVANCE).collect();
            if en.is_empty() {
                return Ok(());
            }
            self.step(en[0]).await;
            steps += 1;
            if steps > max_steps {
                return Err("step limit exceeded in quiesce".into());
            }
        }
    }

    pub fn trace_names(&self) -> Vec<String> {
        self.trace
            .iter()
            .map(|i| if *i == ADVANCE { "advance".to_string() } else { self.tasks[*i].name.clone() })
            .collect()
    }
}

/// Fresh current-thread runtime with the clock paused; capture of spawned actors active.
pub fn with_runtime<T>(f: impl FnOnce(&tokio::runtime::Runtime) -> T) -> T {
    let rt = tokio::runtime::Builder::new_current_thread()
        .enable_time()
        .start_paused(true)
        .build()
        .expect("runtime");
    redis_sim::verif_hooks::begin_capture();
    let out = f(&rt);
    let _ = redis_sim::verif_hooks::end_capture();
    drop(rt);
    out
}
