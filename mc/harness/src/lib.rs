//! Common machinery for the model-checking harnesses (see /verif/DESIGN.md §2).
pub mod cli;
pub mod cmdgen;
pub mod connsys;
pub mod dump;
pub mod imgx;
pub mod model;
pub mod par;
pub mod persist_kit;
pub mod polex;
pub mod report;
pub mod resp;
pub mod seqx;
pub mod shardsys;
pub mod stores;

pub use cli::{Args, Tier};
pub use report::Reporter;

/// Text of a caught panic payload.
pub fn panic_text(p: &Box<dyn std::any::Any + Send>) -> String {
    if let Some(s) = p.downcast_ref::<&str>() {
        s.to_string()
    } else if let Some(s) = p.downcast_ref::<String>() {
        s.clone()
    } else {
        "<non-string panic>".to_string()
    }
}

/// Panics of the code under check are caught and attributed by the harnesses; do not spam stderr.
pub fn quiet_panics() {
    std::panic::set_hook(Box::new(|info| {
        if std::env::var("VERIF_SHOW_PANICS").is_ok() {
            eprintln!("{info}");
        }
    }));
}

pub use tikv_jemallocator as jemalloc;

/// Opt-in: make jemalloc the global allocator of a check binary (the system allocator contends
/// badly when 16 exploration threads churn small allocations).
#[macro_export]
macro_rules! use_jemalloc {
    () => {
        #[global_allocator]
        static GLOBAL: $crate::jemalloc::Jemalloc = $crate::jemalloc::Jemalloc;
    };
}

extern "C" {
    fn dup(fd: i32) -> i32;
    fn dup2(a: i32, b: i32) -> i32;
    fn close(fd: i32) -> i32;
}

/// While alive, file descriptor 2 points at /dev/null: the code under check reports every segment it cannot decode
/// with `eprintln!`, which a damage sweep turns into hundreds of thousands of lines. `VERIF_SHOW_STDERR=1` disables it.
pub struct StderrGag {
    saved: i32,
}

impl StderrGag {
    pub fn new() -> Self {
        if std::env::var("VERIF_SHOW_STDERR").is_ok() {
            return StderrGag { saved: -1 };
        }
        use std::os::fd::AsRawFd;
        let saved = unsafe { dup(2) };
        if let Ok(f) = std::fs::OpenOptions::new().write(true).open("/dev/null") {
            unsafe { dup2(f.as_raw_fd(), 2) };
        }
        StderrGag { saved }
    }
}

impl Default for StderrGag {
    fn default() -> Self {
        Self::new()
    }
}

impl Drop for StderrGag {
    fn drop(&mut self) {
        if self.saved >= 0 {
            unsafe {
                dup2(self.saved, 2);
                close(self.saved);
            }
        }
    }
}
