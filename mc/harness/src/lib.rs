//! Common machinery for the model-checking harnesses (see /verif/DESIGN.md §2).
pub mod cli;
pub mod cmdgen;
pub mod connsys;
pub mod dump;
pub mod imgx;
pub mod model;
pub mod par;
pub mod persist_kit;
pub mod polex;
pub mod report;
pub mod resp;
pub mod seqx;
pub mod shardsys;
pub mod stores;

pub use cli::{Args, Tier};
pub use report::Reporter;

/// Text of a caught panic payload.
pub fn panic_text(p: &Box<dyn std::any::Any + Send>) -> String {
    if let Some(s) = p.downcast_ref::<&str>() {
        s.to_string()
    } else if let Some(s) = p.downcast_ref::<String>() {
        s.clone()
    } else {
        "<non-string panic>".to_string()
    }
}

/// Panics of the code under check are caught and attributed by the harnesses; do not spam stderr.
pub fn quiet_panics() {
    std::panic::set_hook(Box::new(|info| {
        if std::env::var("VERIF_SHOW_PANICS").is_ok() {
            eprintln!("{info}");
        }
    }));
}

pub use tikv_jemallocator as jemalloc;

/// Opt-in: make jemalloc the global allocator of a check binary (the system allocator contends
/// badly when 16 exploration threads churn small allocations).
#[macro_export]
macro_rules! use_jemalloc {
    () => {
        #[global_allocator]
        static GLOBAL: $crate::jemalloc::Jemalloc = $crate::jemalloc::Jemalloc;
    };
}
