//! C11 — recovery returns exactly the merge of everything persisted, idempotently.
//! Exhaustive enumeration: update sets x all placements into checkpoint / segments / WAL files
//! (all orders, optional duplicate) built with the real writers; recovered by the real
//! RecoveryManager::recover / recover_with_wal and applied to a real ReplicatedShardedState.
use redis_sim::production::ReplicatedShardedState;
use redis_sim::replication::state::ReplicationDelta;
use redis_sim::replication::ReplicationConfig;
use redis_sim::streaming::{RecoveryManager, WalEntry, WalRotator};
use serde_json::json;
use std::collections::{BTreeMap, BTreeSet, HashMap};
use std::sync::atomic::{AtomicU64, Ordering};
use vh::persist_kit::*;
use vh::resp;
use vh::shardsys::VerifTime;
use vh::stores::{VObjStore, VWalStore};
use vh::{cli, par, Reporter, Tier};

vh::use_jemalloc!();

/// container index: 0 = checkpoint, 1..=3 = segments, 4..=5 = WAL files
const N_CONT: usize = 6;

#[derive(Clone, Debug)]
struct Case {
    updates: Vec<Upd>,
    place: Vec<usize>,
    /// duplicate update `dup.0` additionally into container `dup.1`
    dup: Option<(usize, usize)>,
}

impl Case {
    fn containers(&self) -> Vec<Vec<Upd>> {
        let mut c = vec![Vec::new(); N_CONT];
        for (u, p) in self.updates.iter().zip(&self.place) {
            c[*p].push(*u);
        }
        if let Some((i, p)) = self.dup {
            c[p].push(self.updates[i]);
        }
        c
    }
    fn show(&self) -> String {
        let c = self.containers();
        let names = ["checkpoint", "seg1", "seg2", "seg3", "wal1", "wal2"];
        c.iter().zip(names).filter(|(v, _)| !v.is_empty()).map(|(v, n)| format!("{n}=[{}]", v.iter().map(|u| u.show()).collect::<Vec<_>>().join(" "))).collect::<Vec<_>>().join(" ")
    }
    fn json(&self) -> serde_json::Value {
        json!({"updates": self.updates.iter().map(|u| json!([u.key, Kind::ALL.iter().position(|k| *k == u.kind).unwrap(), u.time, u.replica])).collect::<Vec<_>>(),
               "place": self.place, "dup": self.dup.map(|(a, b)| json!([a, b])), "shown": self.show()})
    }
}

fn wal_store(files: &[Vec<Upd>]) -> VWalStore {
    let st = VWalStore::new();
    for f in files {
        if f.is_empty() {
            continue;
        }
        // a fresh rotator per file = a server run that created one WAL file
        let mut rot = WalRotator::new(st.clone(), 1 << 30).expect("rotator");
        for u in f {
            let d = u.delta();
            let e = WalEntry::from_delta(&d, d.value.timestamp.time).expect("wal entry");
            rot.append(&e).expect("append");
        }
        rot.sync().expect("sync");
    }
    st
}

fn proj_of(checkpoint: &Option<HashMap<String, redis_sim::replication::state::ReplicatedValue>>, deltas: &[ReplicationDelta]) -> (BTreeMap<String, String>, Fold) {
    let mut f: Fold = checkpoint.clone().map(|m| m.into_iter().collect()).unwrap_or_default();
    for d in deltas {
        fold_into(&mut f, d);
    }
    (projection(&f), f)
}

thread_local! {
    static RT: tokio::runtime::Runtime = tokio::runtime::Builder::new_current_thread().enable_time().build().unwrap();
}

/// Apply the recovered state to a fresh real node (twice) and read it back.
fn apply_to_node(replica_id: u64, checkpoint: Option<HashMap<String, redis_sim::replication::state::ReplicatedValue>>, deltas: Vec<ReplicationDelta>, keys: &BTreeSet<String>) -> (BTreeMap<String, String>, BTreeMap<String, String>, BTreeMap<String, String>) {
    RT.with(|rt| {
        rt.block_on(async {
            let cfg = ReplicationConfig { enabled: false, replica_id, ..Default::default() };
            let node = ReplicatedShardedState::with_time_source(cfg, VerifTime::new(1_000));
            node.apply_recovered_state(checkpoint.clone(), deltas.clone());
            let snap1: Fold = node.snapshot_state().await.into_iter().collect();
            let mut reads = BTreeMap::new();
            for k in keys {
                let ty = node.execute(resp::parse(&resp::argv(&["TYPE", k])).unwrap()).await;
                let v = match resp::show(&ty).as_str() {
                    "+string" => format!("string:{}", match node.execute(resp::parse(&resp::argv(&["GET", k])).unwrap()).await {
                        redis_sim::redis::RespValue::BulkString(Some(b)) => String::from_utf8_lossy(&b).to_string(),
                        other => resp::show(&other),
                    }),
                    "+hash" => {
                        let r = node.execute(resp::parse(&resp::argv(&["HGETALL", k])).unwrap()).await;
                        let flat = vh::dump::bulk_items(&r).unwrap_or_default();
                        let mut p: Vec<String> = flat.chunks(2).map(|c| format!("{}={}", String::from_utf8_lossy(&c[0]), String::from_utf8_lossy(&c[1]))).collect();
                        p.sort();
                        format!("hash:{{{}}}", p.join(","))
                    }
                    "+none" => continue,
                    other => other.to_string(),
                };
                reads.insert(k.clone(), v);
            }
            // idempotence: applying the same recovered state again changes nothing
            node.apply_recovered_state(checkpoint, deltas);
            let snap2: Fold = node.snapshot_state().await.into_iter().collect();
            (projection(&snap1), projection(&snap2), reads)
        })
    })
}

fn check(case: &Case, with_node: bool) -> Vec<(String, String)> {
    let mut v = Vec::new();
    let cont = case.containers();
    let layout = Layout { checkpoint: if cont[0].is_empty() { None } else { Some(cont[0].clone()) }, segments: cont[1..4].iter().filter(|s| !s.is_empty()).cloned().collect() };
    let store = build_store(&layout);
    let wal = wal_store(&cont[4..6]);
    let in_store: Vec<Upd> = layout.all_updates();
    let all: Vec<Upd> = cont.iter().flatten().copied().collect();
    // the sub-collection that lives in the object store is ground truth only if ITS merge is order-independent too
    let mut in_store_set = in_store.clone();
    in_store_set.sort();
    in_store_set.dedup();
    let store_truth = order_independent_fold(&in_store_set).map(|f| projection(&f));
    let expect_store = store_truth.clone().unwrap_or_default();
    // ground truth must not depend on order (checked by the caller for the set; duplicates are idempotent)
    let expect_all_fold = fold(&all.iter().map(|u| u.delta()).collect::<Vec<_>>());
    let expect_all = projection(&expect_all_fold);
    let has = |pred: &dyn Fn(&Upd) -> bool| all.iter().any(pred);
    let shape = format!(
        "cp={} segs={} wal={} dup={}{}",
        !cont[0].is_empty(),
        layout.segments.len(),
        cont[4..6].iter().filter(|f| !f.is_empty()).count(),
        case.dup.is_some(),
        if has(&|u| u.time >= 1_000_000) { " far-ahead-stamp" } else { "" }
    );
    let rm = RecoveryManager::new(VObjStore::from_image(&store.image_now()), PREFIX, 1);
    // recover()
    match std::panic::catch_unwind(std::panic::AssertUnwindSafe(|| block_on(rm.recover()))) {
        Err(p) => v.push((format!("recover panic {shape}"), format!("{}: {}", case.show(), vh::panic_text(&p)))),
        Ok(Err(e)) => v.push((format!("recover error {shape}"), format!("{}: {e}", case.show()))),
        Ok(Ok(r1)) => {
            let (p1, _) = proj_of(&r1.checkpoint_state, &r1.deltas);
            if store_truth.is_some() && p1 != expect_store {
                let k = expect_store.keys().chain(p1.keys()).find(|k| expect_store.get(*k) != p1.get(*k)).unwrap();
                v.push((format!("recover!=merge {shape}"), format!("{}: key {k}: recover() folds to {:?}, merge of the persisted updates is {:?}", case.show(), p1.get(k), expect_store.get(k))));
            }
            // repeat: recovering again yields the same
            if let Ok(r2) = block_on(rm.recover()) {
                if proj_of(&r2.checkpoint_state, &r2.deltas).0 != p1 {
                    v.push((format!("recover-not-repeatable {shape}"), case.show()));
                }
            }
        }
    }
    // recover_with_wal() over the same WAL files in the previous on-disk format (version 1), which the reader keeps accepting
    {
        let old: std::collections::BTreeMap<String, Vec<u8>> = wal.files_now().into_iter().map(|(k, b)| (k, vh::persist_kit::wal_file_to_version_1(&b))).collect();
        if !old.is_empty() {
            let rot1 = WalRotator::new(VWalStore::from_image(&old), 1 << 30).expect("rotator over image");
            match std::panic::catch_unwind(std::panic::AssertUnwindSafe(|| block_on(rm.recover_with_wal(&rot1)))) {
                Err(p) => v.push(("recover_with_wal panic wal-files-in-format-version-1".to_string(), format!("{}: {}", case.show(), vh::panic_text(&p)))),
                Ok(Err(e)) => v.push(("recover_with_wal error wal-files-in-format-version-1".to_string(), format!("{}: {e}", case.show()))),
                Ok(Ok(r)) => {
                    let (p, _) = proj_of(&r.checkpoint_state, &r.deltas);
                    if p != expect_all {
                        let k = expect_all.keys().chain(p.keys()).find(|k| expect_all.get(*k) != p.get(*k)).unwrap();
                        v.push((
                            "recover_with_wal!=merge wal-files-in-format-version-1".to_string(),
                            format!("{}: with the WAL files in on-disk format version 1: key {k}: recover_with_wal() folds to {:?}, merge of everything persisted is {:?}", case.show(), p.get(k), expect_all.get(k)),
                        ));
                    }
                }
            }
        }
    }
    // recover_with_wal()
    let rot = WalRotator::new(VWalStore::from_image(&wal.files_now()), 1 << 30).expect("rotator over image");
    match std::panic::catch_unwind(std::panic::AssertUnwindSafe(|| block_on(rm.recover_with_wal(&rot)))) {
        Err(p) => v.push((format!("recover_with_wal panic {shape}"), format!("{}: {}", case.show(), vh::panic_text(&p)))),
        Ok(Err(e)) => v.push((format!("recover_with_wal error {shape}"), format!("{}: {e}", case.show()))),
        Ok(Ok(r)) => {
            let (p, _) = proj_of(&r.checkpoint_state, &r.deltas);
            if p != expect_all {
                let k = expect_all.keys().chain(p.keys()).find(|k| expect_all.get(*k) != p.get(*k)).unwrap();
                // classify: is the missing update one that lives only in the WAL with a stamp below the segments' maximum?
                let max_seg = layout.segments.iter().flatten().map(|u| u.time).max().unwrap_or(0);
                let wal_low = cont[4..6].iter().flatten().any(|u| &u.key_name() == k && u.time < max_seg);
                v.push((
                    if wal_low { "recover_with_wal!=merge wal-entry-below-segment-high-water".to_string() } else { format!("recover_with_wal!=merge {shape}") },
                    format!("{}: key {k}: recover_with_wal() folds to {:?}, merge of everything persisted is {:?}", case.show(), p.get(k), expect_all.get(k)),
                ));
            } else if with_node {
                let keys: BTreeSet<String> = all.iter().map(|u| u.key_name()).collect();
                // the recovering node is replica 1 (it wrote part of what it recovers: updates stamped r1 are its own,
                // r2's are a peer's) and, second, a replica that wrote none of it
                for node_replica in [1u64, 9] {
                let who = if node_replica == 1 { " own-writes" } else { "" };
                let (s1, s2, reads) = apply_to_node(node_replica, r.checkpoint_state.clone(), r.deltas.clone(), &keys);
                if s1 != expect_all {
                    let k = expect_all.keys().chain(s1.keys()).find(|k| expect_all.get(*k) != s1.get(*k)).unwrap();
                    v.push((format!("node-state!=merge {shape}{who}"), format!("{}: key {k}: node holds {:?} after apply_recovered_state, merge is {:?}", case.show(), s1.get(k), expect_all.get(k))));
                }
                if s2 != s1 {
                    v.push((format!("apply-twice-differs {shape}{who}"), format!("{}: first {:?} second {:?}", case.show(), s1, s2)));
                }
                let want_reads = views(&expect_all_fold);
                if reads != want_reads {
                    let k = want_reads.keys().chain(reads.keys()).find(|k| want_reads.get(*k) != reads.get(*k)).unwrap();
                    let class = |o: Option<&String>| o.map(|s| s.split(':').next().unwrap_or("?").to_string()).unwrap_or_else(|| "nothing".into());
                    v.push((
                        format!("node-reads!=merge merged={} read={}", class(want_reads.get(k)), class(reads.get(k))),
                        format!("{}: key {k}: a client reads {:?} after recovery, the merged state says {:?}", case.show(), reads.get(k), want_reads.get(k)),
                    ));
                }
                }
            }
        }
    }
    v
}

fn universe(thorough: bool) -> Vec<Upd> {
    let mut u = Vec::new();
    let times: &[u64] = if thorough { &[1, 2, 3, 1_000_000] } else { &[1, 2, 1_000_000] };
    for kind in Kind::ALL {
        for &time in times {
            for replica in [1u64, 2] {
                u.push(Upd { key: 1, kind, time, replica });
            }
        }
    }
    u.push(Upd { key: 2, kind: Kind::SetA, time: 1, replica: 1 });
    u.push(Upd { key: 2, kind: Kind::Tomb, time: 2, replica: 2 });
    u
}

fn subsets(u: &[Upd], k: usize) -> Vec<Vec<Upd>> {
    fn rec(u: &[Upd], k: usize, start: usize, cur: &mut Vec<Upd>, out: &mut Vec<Vec<Upd>>) {
        if cur.len() == k {
            out.push(cur.clone());
            return;
        }
        for i in start..u.len() {
            cur.push(u[i]);
            rec(u, k, i + 1, cur, out);
            cur.pop();
        }
    }
    let mut out = Vec::new();
    rec(u, k, 0, &mut Vec::new(), &mut out);
    out
}

/// All placements of n updates into the 6 containers, normalised so that used segments/WAL files
/// are a prefix (seg1 before seg2 ...), which keeps every distinct order of contents.
fn placements(n: usize) -> Vec<Vec<usize>> {
    let mut out = Vec::new();
    let mut p = vec![0usize; n];
    loop {
        let used: BTreeSet<usize> = p.iter().copied().collect();
        let segs: Vec<usize> = (1..4).filter(|i| used.contains(i)).collect();
        let wals: Vec<usize> = (4..6).filter(|i| used.contains(i)).collect();
        let seg_prefix = segs.iter().enumerate().all(|(i, s)| *s == i + 1);
        let wal_prefix = wals.iter().enumerate().all(|(i, s)| *s == i + 4);
        // a checkpoint alone with no segment is fine; but a checkpoint needs nothing else
        if seg_prefix && wal_prefix {
            out.push(p.clone());
        }
        let mut i = 0;
        loop {
            if i == n {
                return out;
            }
            p[i] += 1;
            if p[i] < N_CONT {
                break;
            }
            p[i] = 0;
            i += 1;
        }
    }
}

/// `n` segments (optionally behind a checkpoint), segment i holding key i (a key of its own) and a new value of the
/// shared key 0 stamped i+1: recovery must return every key and the shared key's newest value, for every n.
fn many_segments_case(n: usize, with_checkpoint: bool) -> Option<(String, String)> {
    let layout = Layout {
        checkpoint: if with_checkpoint { Some(vec![Upd { key: 250, kind: Kind::SetA, time: 1, replica: 1 }]) } else { None },
        segments: (0..n)
            .map(|i| vec![Upd { key: (i % 200) as u8 + 1, kind: Kind::SetA, time: i as u64 + 2, replica: 1 }, Upd { key: 0, kind: if i % 2 == 0 { Kind::SetA } else { Kind::SetB }, time: i as u64 + 2, replica: 2 }])
            .collect(),
    };
    let mut want = Fold::new();
    for u in layout.all_updates() {
        fold_into(&mut want, &u.delta());
    }
    let store = build_store(&layout);
    let rm = RecoveryManager::new(VObjStore::from_image(&store.image_now()), PREFIX, 1);
    let empty_wal = WalRotator::new(VWalStore::new(), 1 << 30).expect("rotator");
    for (entry, res) in [("recover", block_on(rm.recover())), ("recover_with_wal", block_on(rm.recover_with_wal(&empty_wal)))] {
        let got = match res {
            Ok(r) => {
                let mut f: Fold = r.checkpoint_state.map(|m| m.into_iter().collect()).unwrap_or_default();
                for d in &r.deltas {
                    fold_into(&mut f, d);
                }
                f
            }
            Err(e) => return Some((format!("{entry} error many-segments"), format!("{n} segments{}: {e}", if with_checkpoint { " behind a checkpoint" } else { "" }))),
        };
        if projection(&got) != projection(&want) {
            let (pg, pw) = (projection(&got), projection(&want));
            let k = pw.keys().chain(pg.keys()).find(|k| pg.get(*k) != pw.get(*k)).unwrap();
            return Some((
                format!("{entry}!=merge many-segments"),
                format!("{n} segments{} (segment i holds its own key and a new value of the shared key k0): key {k}: {entry}() folds to {:?}, the merge of everything persisted is {:?}; {} of {} keys recovered", if with_checkpoint { " behind a checkpoint" } else { "" }, pg.get(k), pw.get(k), pg.len(), pw.len()),
            ));
        }
    }
    None
}

/// Recovery of a store with (or without) a checkpoint and `n` segments while ONE store call of the recovery fails
/// (every call index; for reads of the checkpoint and the segments also: succeeds with one flipped byte). Recovery may
/// report the failure; if it reports success it must return the merge of everything persisted - never a part of it.
fn faulted_recovery_case(n: usize, with_checkpoint: bool) -> Option<(String, String)> {
    use vh::stores::ObjFault;
    let layout = Layout {
        checkpoint: if with_checkpoint { Some(vec![Upd { key: 250, kind: Kind::SetA, time: 1, replica: 1 }, Upd { key: 251, kind: Kind::SetB, time: 1, replica: 1 }]) } else { None },
        segments: (0..n).map(|i| vec![Upd { key: i as u8 + 1, kind: Kind::SetA, time: i as u64 + 2, replica: 1 }]).collect(),
    };
    let mut want = Fold::new();
    for u in layout.all_updates() {
        fold_into(&mut want, &u.delta());
    }
    let image = build_store(&layout).image_now();
    let probe = VObjStore::from_image(&image);
    probe.reset_call_counter();
    block_on(RecoveryManager::new(probe.clone(), PREFIX, 1).recover()).ok()?;
    let calls = probe.calls();
    let ops = probe.log();
    for i in 0..calls {
        for fault in [ObjFault::Fail, ObjFault::CorruptRead] {
            let target = ops.get(i).map(|o| (o.kind, o.key.clone())).unwrap_or(("?", String::new()));
            if matches!(fault, ObjFault::CorruptRead) && (target.0 != "get" || target.1.contains("manifest")) {
                continue; // a flipped byte in the manifest's JSON is C14's subject
            }
            for entry in ["recover", "recover_with_wal"] {
                let store = VObjStore::from_image(&image);
                store.reset_call_counter();
                store.set_plan(&[(i, fault)]);
                let rm = RecoveryManager::new(store.clone(), PREFIX, 1);
                let empty_wal = WalRotator::new(VWalStore::new(), 1 << 30).expect("rotator");
                let res = if entry == "recover" { block_on(rm.recover()) } else { block_on(rm.recover_with_wal(&empty_wal)) };
                if let Ok(r) = res {
                    let mut f: Fold = r.checkpoint_state.map(|m| m.into_iter().collect()).unwrap_or_default();
                    for d in &r.deltas {
                        fold_into(&mut f, d);
                    }
                    if projection(&f) != projection(&want) {
                        let what = if target.1.contains("checkpoint") || target.1.contains(".chk") { "checkpoint" } else if target.1.contains("manifest") { "manifest" } else { "segment" };
                        return Some((
                            format!("{entry} under-one-fault returns-part-of-the-state fault={}@{}:{what}", if matches!(fault, ObjFault::Fail) { "fail" } else { "corrupt-read" }, target.0),
                            format!("{n} segments{}: store call #{i} of the recovery ({} {}) {}; {entry}() returned Ok with {:?}, everything persisted merges to {:?}", if with_checkpoint { " behind a checkpoint of 2 keys" } else { "" }, target.0, target.1, if matches!(fault, ObjFault::Fail) { "fails once" } else { "returns the object with one flipped byte" }, projection(&f).keys().collect::<Vec<_>>(), projection(&want).keys().collect::<Vec<_>>()),
                        ));
                    }
                }
            }
        }
    }
    None
}

/// Recovery as the server does it (StreamingIntegration::recover into a real node) of a store holding a checkpoint and
/// `n_deltas` updates behind it: the checkpoint's key `acct` is overwritten by the FIRST delta, deleted key `gone` is
/// deleted by the second; the rest are fresh keys. The node must end up holding the merge, however many deltas there are.
fn integration_recover_case(n_deltas: usize, segments: usize) -> Option<(String, String)> {
    use redis_sim::redis::SDS;
    use redis_sim::replication::lattice::{LamportClock, ReplicaId};
    use redis_sim::replication::state::ReplicatedValue;
    use redis_sim::streaming::{CheckpointInfo, CheckpointWriter, Compression, Manifest, ManifestManager, SegmentInfo, StreamingConfig, StreamingIntegration};
    let r1 = ReplicaId::new(1);
    let val = |s: &str, t: u64| ReplicatedValue::with_value(SDS::from_str(s), LamportClock { time: t, replica_id: r1 });
    let tomb = |t: u64| {
        let mut v = ReplicatedValue::new(r1);
        let mut c = LamportClock { time: t - 1, replica_id: r1 };
        v.delete(&mut c);
        v
    };
    let store = VObjStore::new();
    let mut manifest = Manifest::new(1);
    let cp_state: HashMap<String, ReplicatedValue> = [("acct".to_string(), val("balance=100", 1)), ("gone".to_string(), val("x", 1)), ("kept".to_string(), val("k", 1))].into_iter().collect();
    let bytes = CheckpointWriter::new(Compression::None).write(cp_state.clone(), 1_000, 0).expect("checkpoint");
    let cp_key = format!("{PREFIX}/checkpoints/chk-0.chk");
    block_on(redis_sim::streaming::ObjectStore::put(&store, &cp_key, &bytes)).unwrap();
    manifest.checkpoint = Some(CheckpointInfo { key: cp_key, timestamp_ms: 1_000, key_count: 3, last_segment_id: 0 });
    manifest.next_segment_id = 1;
    let mut deltas: Vec<ReplicationDelta> = vec![ReplicationDelta::new("acct".into(), val("balance=250", 2), r1), ReplicationDelta::new("gone".into(), tomb(3), r1)];
    for i in deltas.len()..n_deltas {
        deltas.push(ReplicationDelta::new(format!("f{i:05}"), val("v", 10 + i as u64), r1));
    }
    let per = deltas.len().div_ceil(segments.max(1));
    for (si, chunk) in deltas.chunks(per.max(1)).enumerate() {
        let id = si as u64 + 1;
        let b = segment_bytes(chunk);
        let key = format!("{PREFIX}/segments/segment-{:08}.seg", id);
        block_on(redis_sim::streaming::ObjectStore::put(&store, &key, &b)).unwrap();
        manifest.add_segment(SegmentInfo { id, key, record_count: chunk.len() as u32, size_bytes: b.len() as u64, min_timestamp: chunk.iter().map(|d| d.value.timestamp.time).min().unwrap_or(0), max_timestamp: chunk.iter().map(|d| d.value.timestamp.time).max().unwrap_or(0) });
        manifest.next_segment_id = id + 1;
    }
    block_on(ManifestManager::new(store.clone(), PREFIX).save(&manifest)).expect("manifest");
    let mut want: Fold = cp_state.into_iter().collect();
    for d in &deltas {
        fold_into(&mut want, d);
    }
    let desc = format!("checkpoint {{acct=balance=100@1, gone=x@1, kept=k@1}} + {n_deltas} updates in {segments} segment(s) behind it (the first overwrites acct, the second deletes gone), recovered through StreamingIntegration::recover into a fresh node");
    let rt = tokio::runtime::Builder::new_current_thread().enable_time().start_paused(true).build().unwrap();
    rt.block_on(async {
        let mut cfg = StreamingConfig::test();
        cfg.prefix = PREFIX.to_string();
        let integ = StreamingIntegration::with_store(std::sync::Arc::new(store.clone()), cfg, 1);
        let node = ReplicatedShardedState::new(ReplicationConfig { enabled: true, replica_id: 9, ..Default::default() });
        if let Err(e) = integ.recover(&node).await {
            return Some(("integration-recover error".to_string(), format!("{desc}: {e}")));
        }
        // the shard actors apply what they were sent in the background: wait until nothing changes any more
        let mut got = projection(&node.snapshot_state().await.into_iter().collect());
        for _ in 0..50 {
            tokio::time::sleep(std::time::Duration::from_millis(10)).await;
            let again = projection(&node.snapshot_state().await.into_iter().collect());
            if again == got {
                break;
            }
            got = again;
        }
        let pw = projection(&want);
        if got != pw {
            let k = pw.keys().chain(got.keys()).find(|k| got.get(*k) != pw.get(*k)).unwrap();
            return Some((
                format!("integration-recover node-state!=merge {}", if pw.get(k).map(|v| v.contains("DEL")).unwrap_or(false) { "deleted-key" } else if k == "acct" { "checkpoint-key-overwritten-by-a-delta" } else { "other-key" }),
                format!("{desc}: key {k}: the node holds {:?}, the merge of everything persisted is {:?}", got.get(k), pw.get(k)),
            ));
        }
        None
    })
}

fn main() {
    let args = cli::parse_args();
    vh::quiet_panics();
    if let Some(path) = &args.replay {
        let r = vh::report::load_replay(path);
        if r["integration_recover"] == json!(true) {
            match integration_recover_case(r["n"].as_u64().unwrap() as usize, r["segments"].as_u64().unwrap() as usize) {
                Some((sig, detail)) => {
                    println!("{sig}: {detail}");
                    println!("VIOLATION property=C11 replay={}", path.display());
                    std::process::exit(1);
                }
                None => {
                    println!("replay: no violation");
                    std::process::exit(0);
                }
            }
        }
        if r["faulted_recovery"] == json!(true) {
            match faulted_recovery_case(r["n"].as_u64().unwrap() as usize, r["checkpoint"].as_bool().unwrap_or(false)) {
                Some((sig, detail)) => {
                    println!("{sig}: {detail}");
                    println!("VIOLATION property=C11 replay={}", path.display());
                    std::process::exit(1);
                }
                None => {
                    println!("replay: no violation");
                    std::process::exit(0);
                }
            }
        }
        if r["many_segments"] == json!(true) {
            match many_segments_case(r["n"].as_u64().unwrap() as usize, r["checkpoint"].as_bool().unwrap_or(false)) {
                Some((sig, detail)) => {
                    println!("{sig}: {detail}");
                    println!("VIOLATION property=C11 replay={}", path.display());
                    std::process::exit(1);
                }
                None => {
                    println!("replay: no violation");
                    std::process::exit(0);
                }
            }
        }
        let case = Case {
            updates: r["updates"].as_array().unwrap().iter().map(|x| Upd { key: x[0].as_u64().unwrap() as u8, kind: Kind::ALL[x[1].as_u64().unwrap() as usize], time: x[2].as_u64().unwrap(), replica: x[3].as_u64().unwrap() }).collect(),
            place: r["place"].as_array().unwrap().iter().map(|x| x.as_u64().unwrap() as usize).collect(),
            dup: if r["dup"].is_null() { None } else { Some((r["dup"][0].as_u64().unwrap() as usize, r["dup"][1].as_u64().unwrap() as usize)) },
        };
        let v = check(&case, true);
        println!("case: {}", case.show());
        if v.is_empty() {
            println!("replay: no violation");
            std::process::exit(0);
        }
        for (s, d) in &v {
            println!("{s}: {d}");
        }
        println!("VIOLATION property=C11 replay={}", path.display());
        std::process::exit(1);
    }
    let rep = Reporter::new("C11", "exploration", &args);
    let thorough = args.tier == Tier::Thorough;
    let uni = universe(thorough);
    let mut sets: Vec<Vec<Upd>> = Vec::new();
    for k in 1..=if thorough { 3 } else { 2 } {
        sets.extend(subsets(&uni, k));
    }
    // size 3 (quick) / 4 (thorough) over a reduced universe
    let red: Vec<Upd> = uni.iter().copied().filter(|u| u.key == 2 || (matches!(u.kind, Kind::SetA | Kind::Tomb | Kind::HashF | Kind::HashG) && u.time != 2)).collect();
    sets.extend(subsets(&red, if thorough { 4 } else { 3 }));
    sets.sort();
    sets.dedup();
    sets.retain(|s| jointly_producible(s));
    let usable: Vec<Vec<Upd>> = par::par_map(&sets, |_, s| order_independent_fold(s).map(|_| s.clone())).into_iter().flatten().collect();
    let excluded = sets.len() - usable.len();
    let cases_n = AtomicU64::new(0);
    let node_n = AtomicU64::new(0);
    let place_cache: Vec<Vec<Vec<usize>>> = (0..=4).map(placements).collect();
    par::par_map(&usable, |_, set| {
        for place in &place_cache[set.len()] {
            let mut variants: Vec<Option<(usize, usize)>> = vec![None];
            // duplicate the first update into the next container kind (segment 1 and WAL 1)
            variants.push(Some((0, 1)));
            variants.push(Some((0, 4)));
            for dup in variants {
                let case = Case { updates: set.clone(), place: place.clone(), dup };
                cases_n.fetch_add(1, Ordering::Relaxed);
                let with_node = thorough || set.len() <= 2 || dup.is_none();
                if with_node {
                    node_n.fetch_add(1, Ordering::Relaxed);
                }
                for (sig, detail) in check(&case, with_node) {
                    rep.violation(sig, detail, case.json());
                }
            }
        }
    });
    // many segments: every count 1..=40 and the neighbours of 64, 128 and 256 (a window, batch or chunk size lives there)
    let mut counts: Vec<usize> = (1..=40).collect();
    counts.extend([63, 64, 65, 127, 128, 129, 255, 256, 257]);
    let many: Vec<(usize, bool)> = counts.iter().flat_map(|n| [(*n, false), (*n, true)]).collect();
    let many_res = par::par_map(&many, |_, (n, cp)| many_segments_case(*n, *cp));
    {
        let mut seen = BTreeSet::new();
        for ((n, cp), r) in many.iter().zip(many_res) {
            if let Some((sig, detail)) = r {
                if seen.insert(sig.clone()) {
                    rep.violation(sig, detail, json!({"many_segments": true, "n": n, "checkpoint": cp}));
                }
            }
        }
    }
    // recovery while one store call fails or returns damaged bytes
    let faulted: Vec<(usize, bool)> = [1usize, 2, 3, 9].iter().flat_map(|n| [(*n, false), (*n, true)]).collect();
    for ((n, cp), r) in faulted.iter().zip(par::par_map(&faulted, |_, (n, cp)| faulted_recovery_case(*n, *cp))) {
        if let Some((sig, detail)) = r {
            rep.violation(sig, detail, json!({"faulted_recovery": true, "n": n, "checkpoint": cp}));
        }
    }
    // recovery as the server does it, with a checkpoint and up to thousands of updates behind it
    let integ_items: Vec<(usize, usize)> = [2usize, 3, 100, 255, 256, 257, 1023, 1024, 1025, 4095, 4096, 4097, 6001, 8193].iter().flat_map(|n| [(*n, 1usize), (*n, 3)]).collect();
    let integ_res = par::par_map(&integ_items, |_, (n, segs)| std::panic::catch_unwind(|| integration_recover_case(*n, *segs)).unwrap_or_else(|p| Some(("integration-recover panic".to_string(), vh::panic_text(&p)))));
    {
        let mut seen = BTreeSet::new();
        for ((n, segs), r) in integ_items.iter().zip(integ_res) {
            if let Some((sig, detail)) = r {
                if seen.insert(sig.clone()) {
                    rep.violation(sig, detail, json!({"integration_recover": true, "n": n, "segments": segs}));
                }
            }
        }
    }
    let sample = Case { updates: usable[usable.len() / 2].clone(), place: place_cache[usable[usable.len() / 2].len()].last().unwrap().clone(), dup: None };
    let coverage = json!({
        "evaluations": cases_n.load(Ordering::Relaxed),
        "distinct_nontrivial": cases_n.load(Ordering::Relaxed),
        "rule": "update sets of size 1-2 (thorough 3) over a universe of 32 (thorough 42) updates ({SET a, SET b, DEL, HSET f, HSET g} x logical times {1,2,(3),10^6} x replicas {1,2} on k1; two updates on k2) plus size 3 (thorough 4) over a reduced universe, restricted to sets whose merge is order-independent; every placement of the updates into {checkpoint, segment 1-3, WAL file 1-2} (all distinct orders), without and with one duplicated update (into a segment / into the WAL); each case is built with the real CheckpointWriter/SegmentWriter/ManifestManager/WalRotator and recovered with recover(), recover() again, recover_with_wal(), then applied (twice) to a real ReplicatedShardedState and read back through snapshot_state and TYPE/GET/HGETALL; all cases are distinct by construction",
        "update_sets": sets.len(),
        "update_sets_excluded_order_dependent_merge": excluded,
        "cases": cases_n.load(Ordering::Relaxed),
        "integration_recover_cases": integ_items.len(),
        "integration_recover_rule": "a checkpoint of three keys plus n updates behind it (n around every power of two up to 8193, in 1 or 3 segments; the first update overwrites a checkpoint key, the second deletes one) recovered through StreamingIntegration::recover into a real node: the node's replication state must be the merge of everything persisted",
        "faulted_recovery_cases": faulted.len(),
        "faulted_recovery_rule": "1, 2, 3, 9 segments without and behind a checkpoint; every store call of recover() / recover_with_wal() fails once, and every read of the checkpoint or a segment also returns the object with one flipped byte: recovery reports an error or returns the merge of everything persisted",
        "many_segment_cases": many.len(),
        "many_segment_rule": "n segments for every n in 1..=40 and the neighbours of 64, 128, 256, without and behind a checkpoint; segment i holds a key of its own and a new value of a shared key: recover() and recover_with_wal() must return every key and the shared key's newest value",
        "cases_applied_to_a_real_node": node_n.load(Ordering::Relaxed),
        "samples": [sample.json()],
        "exhaustive": true,
    });
    rep.finish(
        coverage,
        vec![
            "ground truth = fold of the update set with the real ReplicatedValue::merge, used only when independent of merge order".into(),
            "a checkpoint covers an id-prefix of the segments (last_segment_id = 0, live segments have ids >= 1): the format cannot express 'covers nothing'".into(),
            "projection compared: value/liveness, hash fields with stamps, expiry, outer logical time".into(),
        ],
    );
}
