//! C07 — CRDT merge is commutative, associative and idempotent in all it exposes (LAWX).
//!
//! 1. Reachable set. A *world* is a cluster of three real `ShardReplicaState`s (replica ids 1..3)
//!    that all start empty. Events: a local operation of replica r on key `k` (the real
//!    `record_write` / `record_delete` / `record_hash_write` / `record_hash_delete`; for the CRDT
//!    kinds the command glue never produces — G/PN counter, G/OR set — the kind's own operation
//!    followed by the stamp update every real operation performs), optionally preceded by writes to
//!    another key that advance the replica's Lamport clock; and the delivery of any value of `k`
//!    that has existed anywhere in this world's history to any replica (real `apply_remote_delta`,
//!    i.e. values that are themselves merges). Worlds are explored breadth-first up to a depth
//!    bound, deduplicated by a canonical serialization; every value of `k` ever held is collected
//!    with the first (shortest) history that produces it. Every member of R is therefore reachable
//!    in one real execution without any restart.
//! 2. Laws. On ALL unordered pairs of R2 (values of depth <= d2): merge(a,b) ~ merge(b,a); on all
//!    of R2: merge(a,a) ~ a; on ALL ordered triples of R3 (depth <= d3, R3 subset of R2):
//!    merge(a,merge(b,c)) ~ merge(merge(a,b),c). `~` compares exactly the observables the
//!    property names (see `diff`).
//! 3. Inner lattices on the projections of R2 (registers, counters, sets, vector clocks, stamps).
use redis_sim::redis::SDS;
use redis_sim::replication::{
    ConsistencyLevel, CrdtValue, GCounter, GSet, LamportClock, LwwRegister, ORSet, PNCounter, ReplicaId,
    ReplicatedValue, ReplicationDelta, ShardReplicaState, VectorClock,
};
use serde::Serialize;
use serde_json::{json, Value};
use std::collections::{BTreeMap, HashMap, HashSet};
use std::panic::{catch_unwind, AssertUnwindSafe};
use std::sync::Arc;
use vh::{cli, par, Reporter, Tier};

type RV = ReplicatedValue;

// ------------------------------------------------------------------------------------------
// canonical serialization
// ------------------------------------------------------------------------------------------

/// Objects come out of serde_json sorted (BTreeMap); arrays that stem from hash sets (strings,
/// tag objects) are sorted by their text; arrays of numbers are byte strings and keep their order.
fn canon_value(v: Value) -> Value {
    match v {
        Value::Array(items) => {
            let mut items: Vec<Value> = items.into_iter().map(canon_value).collect();
            if !items.iter().all(|x| x.is_number()) {
                items.sort_by_key(|x| x.to_string());
            }
            Value::Array(items)
        }
        Value::Object(m) => {
            let sorted: BTreeMap<String, Value> = m.into_iter().map(|(k, v)| (k, canon_value(v))).collect();
            Value::Object(sorted.into_iter().collect())
        }
        other => other,
    }
}

fn canon<T: Serialize>(t: &T) -> String {
    canon_value(serde_json::to_value(t).expect("serialize")).to_string()
}

#[derive(Clone)]
struct Val {
    rv: Arc<RV>,
    key: Arc<str>,
}

impl Val {
    fn new(rv: RV) -> Val {
        let key: Arc<str> = canon(&rv).into();
        Val { rv: Arc::new(rv), key }
    }
}

// ------------------------------------------------------------------------------------------
// human readable form
// ------------------------------------------------------------------------------------------

fn st(c: &LamportClock) -> String {
    format!("({},r{})", c.time, c.replica_id.0)
}

fn sds(s: &SDS) -> String {
    String::from_utf8_lossy(s.as_bytes()).into_owned()
}

fn show_reg(r: &LwwRegister<SDS>) -> String {
    if r.tombstone {
        format!("tomb@{}", st(&r.timestamp))
    } else {
        match &r.value {
            Some(v) => format!("{}@{}", sds(v), st(&r.timestamp)),
            None => format!("unset@{}", st(&r.timestamp)),
        }
    }
}

fn show_vc(vc: &VectorClock) -> String {
    format!("[{},{},{}]", vc.get(&ReplicaId(1)), vc.get(&ReplicaId(2)), vc.get(&ReplicaId(3)))
}

fn show_crdt(c: &CrdtValue) -> String {
    match c {
        CrdtValue::Lww(r) => format!("Lww{{{}}}", show_reg(r)),
        CrdtValue::Hash(h) => {
            let mut f: Vec<String> = h.iter().map(|(k, r)| format!("{k}={}", show_reg(r))).collect();
            f.sort();
            format!("Hash{{{}}}", f.join(","))
        }
        CrdtValue::GCounter(g) => format!("GCounter{}=total {}", counts_of(g), g.value()),
        CrdtValue::PNCounter(p) => format!("PNCounter{}=total {}", canon(p), p.value()),
        CrdtValue::GSet(s) => {
            let mut e: Vec<String> = s.elements().cloned().collect();
            e.sort();
            format!("GSet{{{}}}", e.join(","))
        }
        CrdtValue::ORSet(s) => {
            let mut e: Vec<String> = s
                .elements()
                .map(|x| {
                    let mut tags: Vec<String> = s
                        .get_tags(x)
                        .map(|t| t.iter().map(|t| format!("r{}#{}", t.replica_id.0, t.sequence)).collect())
                        .unwrap_or_default();
                    tags.sort();
                    format!("{x}:{}", tags.join("+"))
                })
                .collect();
            e.sort();
            format!("ORSet{{{}}}", e.join(","))
        }
    }
}

fn counts_of(g: &GCounter) -> String {
    format!(
        "[{},{},{}]",
        g.get_replica_count(&ReplicaId(1)),
        g.get_replica_count(&ReplicaId(2)),
        g.get_replica_count(&ReplicaId(3))
    )
}

fn show(v: &RV) -> String {
    format!(
        "{} outer={} exp={} vc={}",
        show_crdt(&v.crdt),
        st(&v.timestamp),
        v.expiry_ms.map(|e| e.to_string()).unwrap_or_else(|| "-".into()),
        v.vector_clock.as_ref().map(show_vc).unwrap_or_else(|| "-".into())
    )
}

// ------------------------------------------------------------------------------------------
// observables
// ------------------------------------------------------------------------------------------

const KINDS: [&str; 6] = ["Lww", "Hash", "GCounter", "PNCounter", "GSet", "ORSet"];

fn kind(v: &RV) -> u8 {
    match v.crdt {
        CrdtValue::Lww(_) => 0,
        CrdtValue::Hash(_) => 1,
        CrdtValue::GCounter(_) => 2,
        CrdtValue::PNCounter(_) => 3,
        CrdtValue::GSet(_) => 4,
        CrdtValue::ORSet(_) => 5,
    }
}

const O_KIND: u16 = 1 << 0;
const O_VALUE: u16 = 1 << 1;
const O_LWWSTAMP: u16 = 1 << 2;
const O_HFIELDS: u16 = 1 << 3;
const O_HSTAMPS: u16 = 1 << 4;
const O_TOTAL: u16 = 1 << 5;
const O_MEMBERS: u16 = 1 << 6;
const O_EXPIRY: u16 = 1 << 7;
const O_VC: u16 = 1 << 8;
const O_OTIME: u16 = 1 << 9;
const O_OREPL: u16 = 1 << 10;
/// Pseudo observable used in signatures of mixed-kind cases: any of kind / value / register-stamp /
/// hash-fields / hash-field-stamps / counter-total / set-membership differs (which of them does is
/// incidental when operands of different kinds meet: the results are clones of different operands).
const O_CONTENT: u16 = 1 << 11;
const CONTENT_BITS: u16 = O_KIND | O_VALUE | O_LWWSTAMP | O_HFIELDS | O_HSTAMPS | O_TOTAL | O_MEMBERS;
const OBS: [(u16, &str); 12] = [
    (O_CONTENT, "content"),
    (O_KIND, "kind"),
    (O_VALUE, "value"),
    (O_LWWSTAMP, "register-stamp"),
    (O_HFIELDS, "hash-fields"),
    (O_HSTAMPS, "hash-field-stamps"),
    (O_TOTAL, "counter-total"),
    (O_MEMBERS, "set-membership"),
    (O_EXPIRY, "expiry"),
    (O_VC, "vector-clock"),
    (O_OTIME, "outer-stamp-time"),
    (O_OREPL, "outer-stamp-replica"),
];

fn fold_content(d: u16) -> u16 {
    if d & CONTENT_BITS != 0 {
        (d & !CONTENT_BITS) | O_CONTENT
    } else {
        d
    }
}

fn obs_names(d: u16) -> Vec<&'static str> {
    OBS.iter().filter(|(b, _)| d & b != 0).map(|(_, n)| *n).collect()
}

fn reg_same_state(a: &LwwRegister<SDS>, b: &LwwRegister<SDS>) -> bool {
    a.timestamp == b.timestamp && a.tombstone == b.tombstone
}

/// The observables the property names, compared between two replicated values. 0 = equal.
/// CRDT kind; for an LWW register what `get`/`is_tombstone` answer and the register's stamp; for
/// a hash the live fields with their values and the per-field stamps (incl. deleted fields, whose
/// stamps decide later merges); counter totals; set membership; `expiry_ms`; the vector clock;
/// the outer stamp's time and replica id. When the kinds differ the content is not compared
/// further (it is a different kind of value), the metadata still is.
fn diff(x: &RV, y: &RV) -> u16 {
    let mut d = 0u16;
    match (&x.crdt, &y.crdt) {
        (CrdtValue::Lww(a), CrdtValue::Lww(b)) => {
            if x.get().map(|s| s.as_bytes()) != y.get().map(|s| s.as_bytes()) || x.is_tombstone() != y.is_tombstone()
            {
                d |= O_VALUE;
            }
            if a.timestamp != b.timestamp {
                d |= O_LWWSTAMP;
            }
        }
        (CrdtValue::Hash(a), CrdtValue::Hash(b)) => {
            let live_ok = |p: &HashMap<String, LwwRegister<SDS>>, q: &RV| {
                p.iter().all(|(f, r)| match r.get() {
                    Some(v) => q.hash_get(f).map(|w| w.as_bytes()) == Some(v.as_bytes()),
                    None => q.hash_get(f).is_none(),
                })
            };
            if !live_ok(a, y) || !live_ok(b, x) {
                d |= O_HFIELDS;
            }
            let stamps_ok = a.len() == b.len()
                && a.iter().all(|(f, r)| b.get(f).map(|s| reg_same_state(r, s)).unwrap_or(false));
            if !stamps_ok {
                d |= O_HSTAMPS;
            }
        }
        (CrdtValue::GCounter(a), CrdtValue::GCounter(b)) => {
            if a.value() != b.value() {
                d |= O_TOTAL;
            }
        }
        (CrdtValue::PNCounter(a), CrdtValue::PNCounter(b)) => {
            if a.value() != b.value() {
                d |= O_TOTAL;
            }
        }
        (CrdtValue::GSet(a), CrdtValue::GSet(b)) => {
            if a.len() != b.len() || !a.elements().all(|e| b.contains(e)) {
                d |= O_MEMBERS;
            }
        }
        (CrdtValue::ORSet(a), CrdtValue::ORSet(b)) => {
            if a.len() != b.len() || !a.elements().all(|e| b.contains(e)) {
                d |= O_MEMBERS;
            }
        }
        _ => d |= O_KIND,
    }
    if x.expiry_ms != y.expiry_ms {
        d |= O_EXPIRY;
    }
    if x.vector_clock != y.vector_clock {
        d |= O_VC;
    }
    if x.timestamp.time != y.timestamp.time {
        d |= O_OTIME;
    }
    if x.timestamp.replica_id != y.timestamp.replica_id {
        d |= O_OREPL;
    }
    d
}

fn fnv(bytes: &[u8], mut h: u64) -> u64 {
    for b in bytes {
        h ^= *b as u64;
        h = h.wrapping_mul(0x100000001b3);
    }
    h
}

/// Stamps of a value — used only to label a violating case whose operands carry one and the same
/// stamp on different payloads (a stamp issued twice).
struct Stamps {
    outer: (u64, u64),
    kind: u8,
    /// digest of the canonical serialization of the CRDT content
    content: u64,
    /// (issued stamp, digest of the field name and payload it was issued for)
    inner: Vec<((u64, u64), u64)>,
}

fn reg_digest(field: &str, r: &LwwRegister<SDS>) -> u64 {
    let mut h = fnv(field.as_bytes(), 0xcbf29ce484222325);
    h = fnv(&[0xff, r.tombstone as u8], h);
    if let Some(v) = &r.value {
        h = fnv(v.as_bytes(), h);
    }
    h
}

fn stamps_of(v: &RV) -> Stamps {
    let key = |c: &LamportClock| (c.time, c.replica_id.0);
    let mut inner = Vec::new();
    match &v.crdt {
        CrdtValue::Lww(r) => inner.push((key(&r.timestamp), reg_digest("", r))),
        CrdtValue::Hash(h) => {
            for (f, r) in h {
                inner.push((key(&r.timestamp), reg_digest(f, r)));
            }
        }
        _ => {}
    }
    inner.sort();
    Stamps {
        outer: key(&v.timestamp),
        kind: kind(v),
        content: fnv(canon(&v.crdt).as_bytes(), 0xcbf29ce484222325),
        inner,
    }
}

/// Two values carry one stamp on different payloads: a register / field stamp that both contain
/// with different contents, or equal outer stamps on values of different kinds. (Equal outer
/// stamps on two values of the same kind are ordinary: a value and its merge with older values
/// share the outer stamp.)
fn equal_stamps(a: &Stamps, b: &Stamps) -> bool {
    if a.outer == b.outer && a.kind != b.kind {
        return true;
    }
    a.inner.iter().any(|(s, d)| b.inner.iter().any(|(t, e)| s == t && d != e))
}

// ------------------------------------------------------------------------------------------
// worlds
// ------------------------------------------------------------------------------------------

#[derive(Clone, Copy, PartialEq, Eq, Debug, PartialOrd, Ord, Hash)]
enum Fam {
    LwwHash,
    Causal,
    GCounter,
    PNCounter,
    GSet,
    ORSet,
}

const FAMS: [Fam; 6] = [Fam::LwwHash, Fam::Causal, Fam::GCounter, Fam::PNCounter, Fam::GSet, Fam::ORSet];

impl Fam {
    fn name(&self) -> &'static str {
        match self {
            Fam::LwwHash => "lww+hash/eventual",
            Fam::Causal => "lww+hash/causal",
            Fam::GCounter => "gcounter",
            Fam::PNCounter => "pncounter",
            Fam::GSet => "gset",
            Fam::ORSet => "orset",
        }
    }
    fn from_name(s: &str) -> Option<Fam> {
        FAMS.iter().copied().find(|f| f.name() == s)
    }
    fn level(&self) -> ConsistencyLevel {
        if *self == Fam::Causal {
            ConsistencyLevel::Causal
        } else {
            ConsistencyLevel::Eventual
        }
    }
}

#[derive(Clone, Copy, PartialEq, Eq, Debug)]
enum Op {
    Set(&'static str, Option<u64>),
    Del,
    HSet(&'static str, &'static str),
    HSet2, // HSET k f a g b
    HDel(&'static str),
    GInc(u64),
    PInc,
    PDec,
    SAdd(&'static str),
    OAdd(&'static str),
    ORem(&'static str),
}

impl Op {
    fn name(&self) -> String {
        match self {
            Op::Set(v, None) => format!("SET {v}"),
            Op::Set(v, Some(e)) => format!("SET {v} expiry={e}"),
            Op::Del => "DEL".into(),
            Op::HSet(f, v) => format!("HSET {f} {v}"),
            Op::HSet2 => "HSET f a g b".into(),
            Op::HDel(f) => format!("HDEL {f}"),
            Op::GInc(n) => format!("GINCR {n}"),
            Op::PInc => "PNINCR".into(),
            Op::PDec => "PNDECR".into(),
            Op::SAdd(x) => format!("GSADD {x}"),
            Op::OAdd(x) => format!("ORADD {x}"),
            Op::ORem(x) => format!("ORREM {x}"),
        }
    }
    fn ticks(&self) -> u64 {
        if *self == Op::HSet2 {
            2
        } else {
            1
        }
    }
}

/// Operations per family. Payloads a,b; expiry none/1000/2000; hash fields f,g.
fn alphabet(f: Fam) -> Vec<Op> {
    match f {
        Fam::LwwHash => vec![
            Op::Set("a", None),
            Op::Set("b", None),
            Op::Set("a", Some(1000)),
            Op::Set("b", Some(1000)),
            Op::Set("a", Some(2000)),
            Op::Set("b", Some(2000)),
            Op::Del,
            Op::HSet("f", "a"),
            Op::HSet("f", "b"),
            Op::HSet("g", "a"),
            Op::HSet("g", "b"),
            Op::HSet2,
            Op::HDel("f"),
            Op::HDel("g"),
        ],
        Fam::Causal => vec![
            Op::Set("a", None),
            Op::Set("b", Some(1000)),
            Op::Del,
            Op::HSet("f", "a"),
            Op::HDel("f"),
        ],
        Fam::GCounter => vec![Op::GInc(1), Op::GInc(2)],
        Fam::PNCounter => vec![Op::PInc, Op::PDec],
        Fam::GSet => vec![Op::SAdd("x"), Op::SAdd("y")],
        Fam::ORSet => vec![Op::OAdd("x"), Op::OAdd("y"), Op::ORem("x"), Op::ORem("y")],
    }
}

#[derive(Clone, Copy, PartialEq, Eq, Debug)]
enum Ev {
    /// replica index 0..3, clock advanced to t-1 by writes to another key, then the operation
    Local { r: usize, t: u64, op: Op },
    /// pool entry p (p-th distinct value of k that came into existence in this history) is applied
    /// at replica dst as a remote delta
    Deliver { p: usize, dst: usize },
}

impl Ev {
    fn text(&self) -> String {
        match self {
            Ev::Local { r, t, op } => format!("r{} clock->{} {}", r + 1, t - 1, op.name()),
            Ev::Deliver { p, dst } => format!("deliver value#{} to r{}", p, dst + 1),
        }
    }
    fn parse(s: &str, fam: Fam) -> Option<Ev> {
        let w: Vec<&str> = s.split(' ').collect();
        if w.first() == Some(&"deliver") && w.len() == 4 {
            let p = w[1].strip_prefix("value#")?.parse().ok()?;
            let dst = w[3].strip_prefix('r')?.parse::<usize>().ok()?.checked_sub(1)?;
            return Some(Ev::Deliver { p, dst });
        }
        if w.len() < 3 {
            return None;
        }
        let r = w[0].strip_prefix('r')?.parse::<usize>().ok()?.checked_sub(1)?;
        let t = w[1].strip_prefix("clock->")?.parse::<u64>().ok()? + 1;
        let name = w[2..].join(" ");
        let op = alphabet(fam).into_iter().find(|o| o.name() == name)?;
        Some(Ev::Local { r, t, op })
    }
}

#[derive(Clone)]
struct RepSnap {
    time: u64,
    vc: VectorClock,
    val: Option<Val>,
}

#[derive(Clone)]
struct World {
    fam: Fam,
    reps: [RepSnap; 3],
    pool: Vec<Val>,
    hist: Vec<Ev>,
}

const KEY: &str = "k";

impl World {
    fn new(fam: Fam) -> World {
        let r = || RepSnap { time: 0, vc: VectorClock::new(), val: None };
        World { fam, reps: [r(), r(), r()], pool: Vec::new(), hist: Vec::new() }
    }

    fn key(&self) -> String {
        let mut s = String::new();
        for r in &self.reps {
            s.push_str(&format!("{}{}", r.time, show_vc(&r.vc)));
            s.push_str(r.val.as_ref().map(|v| &*v.key).unwrap_or("-"));
            s.push('|');
        }
        let mut p: Vec<&str> = self.pool.iter().map(|v| &*v.key).collect();
        p.sort();
        for k in p {
            s.push_str(k);
            s.push(';');
        }
        s
    }

    fn state_of(&self, r: usize) -> ShardReplicaState {
        let mut stt = ShardReplicaState::new(ReplicaId(r as u64 + 1), self.fam.level());
        stt.lamport_clock.time = self.reps[r].time;
        stt.vector_clock = self.reps[r].vc.clone();
        if let Some(v) = &self.reps[r].val {
            stt.replicated_keys.insert(KEY.to_string(), (*v.rv).clone());
        }
        stt
    }

    fn store(&self, r: usize, mut stt: ShardReplicaState, ev: Ev) -> World {
        let mut w = self.clone();
        stt.pending_deltas.clear();
        let val = stt.replicated_keys.remove(KEY).map(Val::new);
        if let Some(v) = &val {
            if !w.pool.iter().any(|p| p.key == v.key) {
                w.pool.push(v.clone());
            }
        }
        w.reps[r] = RepSnap { time: stt.lamport_clock.time, vc: stt.vector_clock.clone(), val };
        w.hist.push(ev);
        w
    }

    /// Some(world') if the event is enabled and changes the value of k at r.
    fn local(&self, r: usize, t: u64, op: Op, t_max: u64) -> Option<World> {
        if t <= self.reps[r].time || t + op.ticks() - 1 > t_max {
            return None;
        }
        let rid = ReplicaId(r as u64 + 1);
        let mut stt = self.state_of(r);
        while stt.lamport_clock.time + 1 < t {
            // a write to another key: the only effect on k is the replica's clock (and, in causal
            // mode, its vector clock)
            stt.record_write("j".to_string(), SDS::from_str("x"), None);
        }
        stt.replicated_keys.remove("j");
        let before = self.reps[r].val.as_ref().map(|v| v.key.clone());
        match op {
            Op::Set(v, exp) => {
                stt.record_write(KEY.to_string(), SDS::from_str(v), exp);
            }
            Op::Del => {
                stt.record_delete(KEY.to_string())?;
            }
            Op::HSet(f, v) => {
                stt.record_hash_write(KEY.to_string(), vec![(f.to_string(), SDS::from_str(v))]);
            }
            Op::HSet2 => {
                stt.record_hash_write(
                    KEY.to_string(),
                    vec![("f".to_string(), SDS::from_str("a")), ("g".to_string(), SDS::from_str("b"))],
                );
            }
            Op::HDel(f) => {
                stt.record_hash_delete(KEY.to_string(), vec![f.to_string()])?;
            }
            Op::GInc(_) | Op::PInc | Op::PDec | Op::SAdd(_) | Op::OAdd(_) | Op::ORem(_) => {
                // No command produces these kinds in the tree; the operation is the kind's own,
                // the stamp update is the one every real operation performs (`hash_set`).
                let mut rv = stt.replicated_keys.remove(KEY).unwrap_or_else(|| {
                    let c = match self.fam {
                        Fam::GCounter => CrdtValue::new_gcounter(),
                        Fam::PNCounter => CrdtValue::new_pncounter(),
                        Fam::GSet => CrdtValue::new_gset(),
                        _ => CrdtValue::new_orset(),
                    };
                    RV::with_crdt(c, rid)
                });
                match op {
                    Op::GInc(n) => rv.crdt_mut().as_gcounter_mut()?.increment_by(rid, n),
                    Op::PInc => rv.crdt_mut().as_pncounter_mut()?.increment(rid),
                    Op::PDec => rv.crdt_mut().as_pncounter_mut()?.decrement(rid),
                    Op::SAdd(x) => {
                        rv.crdt_mut().as_gset_mut()?.add(x.to_string());
                    }
                    Op::OAdd(x) => {
                        rv.crdt_mut().as_orset_mut()?.add(x.to_string(), rid);
                    }
                    Op::ORem(x) => {
                        let s = rv.crdt_mut().as_orset_mut()?;
                        if !s.contains(&x.to_string()) {
                            return None;
                        }
                        s.remove(&x.to_string());
                    }
                    _ => unreachable!(),
                }
                rv.timestamp = stt.lamport_clock.tick();
                stt.replicated_keys.insert(KEY.to_string(), rv);
            }
        }
        if stt.lamport_clock.time > t_max {
            return None;
        }
        let w = self.store(r, stt, Ev::Local { r, t, op });
        if w.reps[r].val.as_ref().map(|v| v.key.clone()) == before {
            return None;
        }
        Some(w)
    }

    fn deliver(&self, p: usize, dst: usize) -> World {
        let mut stt = self.state_of(dst);
        let v = (*self.pool[p].rv).clone();
        let src = v.timestamp.replica_id;
        stt.apply_remote_delta(ReplicationDelta::new(KEY.to_string(), v, src));
        self.store(dst, stt, Ev::Deliver { p, dst })
    }

    fn successors(&self, alpha: &[Op], t_max: u64) -> Vec<(World, usize)> {
        let mut out = Vec::new();
        for r in 0..3 {
            for t in (self.reps[r].time + 1)..=t_max {
                for op in alpha {
                    if let Some(w) = self.local(r, t, *op, t_max) {
                        out.push((w, r));
                    }
                }
            }
        }
        for p in 0..self.pool.len() {
            for dst in 0..3 {
                out.push((self.deliver(p, dst), dst));
            }
        }
        out
    }
}

#[derive(Clone)]
struct Found {
    val: Val,
    fam: Fam,
    depth: usize,
    hist: Vec<Ev>,
    rep: usize,
}

struct GenStats {
    worlds: u64,
    transitions: u64,
}

/// Breadth-first exploration of the worlds of one family up to `depth` events.
fn explore(fam: Fam, alpha: &[Op], t_max: u64, depth: usize, found: &mut BTreeMap<Arc<str>, Found>) -> GenStats {
    let mut stats = GenStats { worlds: 1, transitions: 0 };
    let mut frontier = vec![World::new(fam)];
    let mut seen: HashSet<String> = HashSet::new();
    seen.insert(frontier[0].key());
    struct Succ {
        /// the successor world with its canonical key, unless already seen / last level
        world: Option<(World, String)>,
        /// the changed replica's value, if not collected before
        value: Option<Found>,
    }
    for d in 1..=depth {
        let last = d == depth;
        let mut next = Vec::new();
        for chunk in frontier.chunks(2048) {
            let results: Vec<Vec<Succ>> = {
                let found_ro = &*found;
                let seen_ro = &seen;
                par::par_map(chunk, |_, w| {
                    w.successors(alpha, t_max)
                        .into_iter()
                        .map(|(w2, r)| {
                            let value = match &w2.reps[r].val {
                                Some(v) if !found_ro.contains_key(&v.key) => {
                                    Some(Found { val: v.clone(), fam, depth: d, hist: w2.hist.clone(), rep: r })
                                }
                                _ => None,
                            };
                            let world = if last {
                                None
                            } else {
                                let k = w2.key();
                                if seen_ro.contains(&k) {
                                    None
                                } else {
                                    Some((w2, k))
                                }
                            };
                            Succ { world, value }
                        })
                        .collect()
                })
            };
            for succ in results {
                for s in succ {
                    stats.transitions += 1;
                    if let Some(f) = s.value {
                        found.entry(f.val.key.clone()).or_insert(f);
                    }
                    if let Some((w, k)) = s.world {
                        if seen.insert(k) {
                            stats.worlds += 1;
                            next.push(w);
                        }
                    }
                }
            }
        }
        frontier = next;
    }
    stats
}

/// Re-execute a history on fresh real replicas; value of k at `rep` afterwards.
fn rebuild(fam: Fam, hist: &[Ev], rep: usize) -> Option<Val> {
    let mut w = World::new(fam);
    for ev in hist {
        w = match *ev {
            Ev::Local { r, t, op } => w.local(r, t, op, u64::MAX / 2)?,
            Ev::Deliver { p, dst } => {
                if p >= w.pool.len() {
                    return None;
                }
                w.deliver(p, dst)
            }
        };
    }
    w.reps[rep].val.clone()
}

// ------------------------------------------------------------------------------------------
// signatures
// ------------------------------------------------------------------------------------------

/// Same kind everywhere: the kind, repeated ("Lww×Lww"). Mixed kinds: "mixed(<classes>)" where
/// the two kinds the command glue produces are named and the four others are folded into "Other"
/// (the type-mismatch path of `merge_with_timestamps` does not look at which kinds meet); the
/// exact kinds are in the detail and in the per-kind breakdown of the evidence.
fn is_mixed(ks: &[u8]) -> bool {
    !ks.iter().all(|k| *k == ks[0])
}

/// compact code of the label: kind index for same-kind cases, 8 + set of classes for mixed ones
fn label_code(ks: &[u8]) -> u8 {
    if !is_mixed(ks) {
        return ks[0];
    }
    8 + ks.iter().fold(0u8, |acc, k| acc | (1 << (*k).min(2)))
}

fn label_text(code: u8, arity: usize) -> String {
    if code < 8 {
        return vec![KINDS[code as usize]; arity].join("×");
    }
    let c: Vec<&str> = ["Lww", "Hash", "Other"].iter().enumerate().filter(|(i, _)| (code - 8) & (1 << i) != 0).map(|(_, n)| *n).collect();
    let mut c = c;
    c.sort();
    format!("mixed({})", c.join(","))
}

fn exact_kinds(ks: &[u8]) -> String {
    ks.iter().map(|k| KINDS[*k as usize]).collect::<Vec<_>>().join("×")
}

/// Class of a violating case, by what its operands' stamps have in common:
/// 0 = the operands' outer stamp times are pairwise different (no comparison between stamps ever
///     meets equal times, so replica ids play no role);
/// 1 = two different operands have the same outer stamp *time* (replica ids break the tie);
/// 2 = two different operands carry an equal stamp (time and replica) on different payloads.
/// Class 2 is NOT JUDGED: stamps never repeat in a system history (a replica's clock only moves
/// forward, also across restarts), so two such operands cannot both be produced by replicas of one
/// system; the property speaks of "all values replicas can produce". Those cases are counted in the
/// evidence (`not_judged_repeated_stamp_pairs`) and never reported. A signature is suffixed with
/// the lowest judged class among its cases: "" or " +equal-times".
const CLASS_SUFFIX: [&str; 3] = ["", " +equal-times", " +equal-stamps"];

#[derive(Default, Clone)]
struct Hit {
    count: u64,
    by_class: [u64; 3],
    /// first case (enumeration order) per rank = class*2 + (1 if an operand is repeated)
    first: [Option<Vec<usize>>; 6],
}

impl Hit {
    fn judged(&self) -> u64 {
        self.by_class[0] + self.by_class[1]
    }
    fn class(&self) -> usize {
        (0..3).find(|c| self.by_class[*c] > 0).unwrap_or(0)
    }
    /// first case of the lowest class (ranks are ordered by class)
    fn witness(&self) -> Vec<usize> {
        self.first.iter().flatten().next().cloned().unwrap_or_default()
    }
}

/// key: (law, kinds label code, observable bit)
type Tally = BTreeMap<(&'static str, u8, u16), Hit>;

fn tally_add(t: &mut Tally, law: &'static str, ks: &[u8], d: u16, class: usize, ops: &[usize]) {
    let label = label_code(ks);
    let d = if is_mixed(ks) { fold_content(d) } else { d };
    let repeated = (0..ops.len()).any(|i| (0..i).any(|j| ops[i] == ops[j]));
    let rank = class * 2 + repeated as usize;
    for (bit, _) in OBS.iter() {
        if d & bit != 0 {
            let e = t.entry((law, label, *bit)).or_default();
            e.count += 1;
            e.by_class[class] += 1;
            if e.first[rank].is_none() {
                e.first[rank] = Some(ops.to_vec());
            }
        }
    }
}

fn tally_merge(into: &mut Tally, from: Tally) {
    for (k, h) in from {
        let e = into.entry(k).or_default();
        e.count += h.count;
        for c in 0..3 {
            e.by_class[c] += h.by_class[c];
        }
        for r in 0..6 {
            if e.first[r].is_none() {
                e.first[r] = h.first[r].clone();
            }
        }
    }
}

fn class_of(st: &[&Stamps]) -> usize {
    let mut class = 0;
    for i in 0..st.len() {
        for j in 0..i {
            if st[i].outer == st[j].outer && st[i].content == st[j].content {
                // the same operand twice, or values that differ in expiry / vector clock only
                continue;
            }
            if equal_stamps(st[i], st[j]) {
                class = 2;
            } else if st[i].outer.0 == st[j].outer.0 && class < 1 {
                class = 1;
            }
        }
    }
    class
}

fn merge_guard(a: &RV, b: &RV) -> Result<RV, String> {
    catch_unwind(AssertUnwindSafe(|| a.merge(b))).map_err(|p| vh::panic_text(&p))
}

// ------------------------------------------------------------------------------------------
// outer law evaluation (shared by the sweep and by --replay)
// ------------------------------------------------------------------------------------------

fn eval_law(law: &str, ops: &[&RV]) -> Result<(RV, RV, u16), String> {
    match law {
        "commutativity" => {
            let l = merge_guard(ops[0], ops[1])?;
            let r = merge_guard(ops[1], ops[0])?;
            let d = diff(&l, &r);
            Ok((l, r, d))
        }
        "associativity" => {
            let bc = merge_guard(ops[1], ops[2])?;
            let l = merge_guard(ops[0], &bc)?;
            let ab = merge_guard(ops[0], ops[1])?;
            let r = merge_guard(&ab, ops[2])?;
            let d = diff(&l, &r);
            Ok((l, r, d))
        }
        "idempotence" => {
            let l = merge_guard(ops[0], ops[0])?;
            let d = diff(&l, ops[0]);
            Ok((l, ops[0].clone(), d))
        }
        _ => Err(format!("unknown law {law}")),
    }
}

fn law_sides(law: &str) -> (&'static str, &'static str) {
    match law {
        "commutativity" => ("merge(a,b)", "merge(b,a)"),
        "associativity" => ("merge(a,merge(b,c))", "merge(merge(a,b),c)"),
        _ => ("merge(a,a)", "a"),
    }
}

// ------------------------------------------------------------------------------------------
// inner lattices
// ------------------------------------------------------------------------------------------

struct Inner<T> {
    name: &'static str,
    items: Vec<T>,
    merge: fn(&T, &T) -> T,
    /// names of the observables that differ
    diff: fn(&T, &T) -> Vec<&'static str>,
    show: fn(&T) -> String,
    /// two different items carry an equal stamp (only registers have stamps)
    tie: fn(&T, &T) -> bool,
}

struct InnerResult {
    name: &'static str,
    items: usize,
    pairs: u64,
    triples: u64,
    /// (signature, count, detail, replay)
    hits: Vec<(String, u64, String, Value)>,
    /// law failures whose operands carry one stamp on two payloads: (signature, count, first case)
    not_judged: Vec<(String, u64, String)>,
}

fn check_inner<T: Serialize + Sync>(l: &Inner<T>) -> InnerResult {
    let n = l.items.len();
    type Row = (BTreeMap<(String, bool), (u64, String, Value)>, u64, u64);
    let idx: Vec<usize> = (0..n).collect();
    let rows: Vec<Row> = par::par_map(&idx, |_, &a| {
        let mut tally: BTreeMap<(String, bool), (u64, String, Value)> = BTreeMap::new();
        let mut pairs = 0u64;
        let mut triples = 0u64;
        let mut record = |law: &str, obs: Vec<&'static str>, tie: bool, idx: &[usize], lhs: &T, rhs: &T| {
            for o in obs {
                let sig = format!("inner {} {} {}", l.name, law, o);
                let e = tally.entry((sig, tie)).or_insert_with(|| {
                    let names = ["a", "b", "c"];
                    let opers: Vec<String> = idx
                        .iter()
                        .enumerate()
                        .map(|(i, x)| format!("{}={}", names[i], (l.show)(&l.items[*x])))
                        .collect();
                    let (ls, rs) = law_sides(law);
                    (
                        0,
                        format!("{}: {ls}={} but {rs}={}", opers.join(", "), (l.show)(lhs), (l.show)(rhs)),
                        json!({"inner": l.name, "law": law,
                               "operands": idx.iter().map(|x| serde_json::to_value(&l.items[*x]).unwrap()).collect::<Vec<_>>()}),
                    )
                });
                e.0 += 1;
            }
        };
        let aa = (l.merge)(&l.items[a], &l.items[a]);
        let d = (l.diff)(&aa, &l.items[a]);
        if !d.is_empty() {
            record("idempotence", d, false, &[a], &aa, &l.items[a]);
        }
        for b in 0..n {
            let ab = (l.merge)(&l.items[a], &l.items[b]);
            if a < b {
                pairs += 1;
                let ba = (l.merge)(&l.items[b], &l.items[a]);
                let d = (l.diff)(&ab, &ba);
                if !d.is_empty() {
                    record("commutativity", d, (l.tie)(&l.items[a], &l.items[b]), &[a, b], &ab, &ba);
                }
            }
            for c in 0..n {
                triples += 1;
                let bc = (l.merge)(&l.items[b], &l.items[c]);
                let lhs = (l.merge)(&l.items[a], &bc);
                let rhs = (l.merge)(&ab, &l.items[c]);
                let d = (l.diff)(&lhs, &rhs);
                if !d.is_empty() {
                    let tie = (l.tie)(&l.items[a], &l.items[b])
                        || (l.tie)(&l.items[a], &l.items[c])
                        || (l.tie)(&l.items[b], &l.items[c]);
                    record("associativity", d, tie, &[a, b, c], &lhs, &rhs);
                }
            }
        }
        (tally, pairs, triples)
    });
    let mut tally: BTreeMap<(String, bool), (u64, String, Value)> = BTreeMap::new();
    let mut pairs = 0u64;
    let mut triples = 0u64;
    for (t, p, tr) in rows {
        pairs += p;
        triples += tr;
        for (k, (n, d, r)) in t {
            match tally.get_mut(&k) {
                Some(e) => e.0 += n,
                None => {
                    tally.insert(k, (n, d, r));
                }
            }
        }
    }
    let (hits, not_judged) = fold_ties(tally);
    InnerResult { name: l.name, items: n, pairs, triples, hits, not_judged }
}

/// Cases whose operands carry an equal stamp on different payloads (tie = true) are not judged
/// (see CLASS_SUFFIX); they are returned separately for the evidence.
#[allow(clippy::type_complexity)]
fn fold_ties(
    tally: BTreeMap<(String, bool), (u64, String, Value)>,
) -> (Vec<(String, u64, String, Value)>, Vec<(String, u64, String)>) {
    let mut hits = Vec::new();
    let mut not_judged = Vec::new();
    for ((sig, tie), (n, detail, replay)) in tally {
        if tie {
            not_judged.push((sig, n, detail));
        } else {
            hits.push((sig, n, detail, replay));
        }
    }
    (hits, not_judged)
}

fn no_tie<T>(_: &T, _: &T) -> bool {
    false
}

fn dedup_by_canon<T: Serialize>(items: Vec<T>) -> Vec<T> {
    let mut seen = BTreeMap::new();
    for it in items {
        seen.entry(canon(&it)).or_insert(it);
    }
    seen.into_values().collect()
}

fn inner_checks(r2: &[&Found], cap: usize) -> Vec<InnerResult> {
    let mut clocks = Vec::new();
    let mut regs = Vec::new();
    let mut gcs = Vec::new();
    let mut pns = Vec::new();
    let mut gss = Vec::new();
    let mut ors = Vec::new();
    let mut vcs = Vec::new();
    for f in r2 {
        let v = &*f.val.rv;
        clocks.push(v.timestamp);
        if let Some(vc) = &v.vector_clock {
            vcs.push(vc.clone());
        }
        match &v.crdt {
            CrdtValue::Lww(r) => {
                clocks.push(r.timestamp);
                regs.push(r.clone());
            }
            CrdtValue::Hash(h) => {
                for r in h.values() {
                    clocks.push(r.timestamp);
                    regs.push(r.clone());
                }
            }
            CrdtValue::GCounter(g) => gcs.push(g.clone()),
            CrdtValue::PNCounter(p) => pns.push(p.clone()),
            CrdtValue::GSet(s) => gss.push(s.clone()),
            CrdtValue::ORSet(s) => ors.push(s.clone()),
        }
    }
    // the projection in canonical order; `cap` only guards against a blow-up and is reported
    fn capped<T: Serialize>(v: Vec<T>, cap: usize) -> Vec<T> {
        let mut v = dedup_by_canon(v);
        if v.len() > cap {
            eprintln!("[inner] projection of {} values cut to {}", v.len(), cap);
            v.truncate(cap);
        }
        v
    }
    let mut out = Vec::new();
    out.push(check_inner(&Inner::<LamportClock> {
        name: "LamportClock",
        items: capped(clocks, cap),
        merge: |a, b| a.merge(b),
        diff: |a, b| {
            let mut d = Vec::new();
            if a.time != b.time {
                d.push("time");
            }
            if a.replica_id != b.replica_id {
                d.push("replica");
            }
            d
        },
        show: |a| st(a),
        tie: no_tie,
    }));
    out.push(check_inner(&Inner::<LwwRegister<SDS>> {
        name: "LwwRegister",
        items: capped(regs, cap),
        merge: |a, b| a.merge(b),
        diff: |a, b| {
            let mut d = Vec::new();
            if a.get().map(|s| s.as_bytes()) != b.get().map(|s| s.as_bytes()) || a.tombstone != b.tombstone {
                d.push("value");
            }
            if a.timestamp != b.timestamp {
                d.push("stamp");
            }
            d
        },
        show: show_reg,
        tie: |a, b| a.timestamp == b.timestamp,
    }));
    out.push(check_inner(&Inner::<GCounter> {
        name: "GCounter",
        items: capped(gcs, cap),
        merge: |a, b| a.merge(b),
        diff: |a, b| {
            let mut d = Vec::new();
            if a.value() != b.value() {
                d.push("total");
            }
            if a != b {
                d.push("per-replica-counts");
            }
            d
        },
        show: |a| format!("{}", counts_of(a)),
        tie: no_tie,
    }));
    out.push(check_inner(&Inner::<PNCounter> {
        name: "PNCounter",
        items: capped(pns, cap),
        merge: |a, b| a.merge(b),
        diff: |a, b| {
            let mut d = Vec::new();
            if a.value() != b.value() {
                d.push("total");
            }
            if a != b {
                d.push("per-replica-counts");
            }
            d
        },
        show: |a| canon(a),
        tie: no_tie,
    }));
    out.push(check_inner(&Inner::<GSet<String>> {
        name: "GSet",
        items: capped(gss, cap),
        merge: |a, b| a.merge(b),
        diff: |a, b| if a != b { vec!["membership"] } else { vec![] },
        show: |a| canon(a),
        tie: no_tie,
    }));
    out.push(check_inner(&Inner::<ORSet<String>> {
        name: "ORSet",
        items: capped(ors, cap),
        merge: |a, b| a.merge(b),
        diff: |a, b| {
            let mut d = Vec::new();
            if a.len() != b.len() || !a.elements().all(|e| b.contains(e)) {
                d.push("membership");
            }
            if a != b {
                d.push("tags");
            }
            d
        },
        show: |a| canon(a),
        tie: no_tie,
    }));
    out.push(check_inner(&Inner::<VectorClock> {
        name: "VectorClock",
        items: capped(vcs, cap),
        merge: |a, b| a.merge(b),
        diff: |a, b| if a != b { vec!["entries"] } else { vec![] },
        show: show_vc,
        tie: no_tie,
    }));
    out
}

fn replay_inner(r: &Value) -> bool {
    fn run<T: serde::de::DeserializeOwned>(
        r: &Value,
        merge: fn(&T, &T) -> T,
        differs: fn(&T, &T) -> bool,
        show: fn(&T) -> String,
    ) -> bool {
        let ops: Vec<T> = r["operands"]
            .as_array()
            .expect("operands")
            .iter()
            .map(|v| serde_json::from_value(v.clone()).expect("operand"))
            .collect();
        let (l, rr) = match r["law"].as_str().unwrap_or("") {
            "commutativity" => (merge(&ops[0], &ops[1]), merge(&ops[1], &ops[0])),
            "associativity" => (merge(&ops[0], &merge(&ops[1], &ops[2])), merge(&merge(&ops[0], &ops[1]), &ops[2])),
            _ => (merge(&ops[0], &ops[0]), merge(&ops[0], &ops[0])),
        };
        let idem_rhs = if r["law"] == "idempotence" { &ops[0] } else { &rr };
        for (i, o) in ops.iter().enumerate() {
            println!("  operand {}: {}", ["a", "b", "c"][i], show(o));
        }
        let (ls, rs) = law_sides(r["law"].as_str().unwrap_or(""));
        println!("  {ls} = {}", show(&l));
        println!("  {rs} = {}", show(idem_rhs));
        differs(&l, idem_rhs)
    }
    match r["inner"].as_str().unwrap_or("") {
        "LamportClock" => run::<LamportClock>(r, |a, b| a.merge(b), |a, b| a != b, |a| st(a)),
        "LwwRegister" => run::<LwwRegister<SDS>>(
            r,
            |a, b| a.merge(b),
            |a, b| a.get().map(|s| s.as_bytes()) != b.get().map(|s| s.as_bytes()) || !reg_same_state(a, b),
            show_reg,
        ),
        "GCounter" => run::<GCounter>(r, |a, b| a.merge(b), |a, b| a != b, |a| counts_of(a)),
        "PNCounter" => run::<PNCounter>(r, |a, b| a.merge(b), |a, b| a != b, |a| canon(a)),
        "GSet" => run::<GSet<String>>(r, |a, b| a.merge(b), |a, b| a != b, |a| canon(a)),
        "ORSet" => run::<ORSet<String>>(r, |a, b| a.merge(b), |a, b| a != b, |a| canon(a)),
        "VectorClock" => run::<VectorClock>(r, |a, b| a.merge(b), |a, b| a != b, show_vc),
        other => {
            eprintln!("unknown inner lattice {other}");
            std::process::exit(2);
        }
    }
}

// ------------------------------------------------------------------------------------------
// main
// ------------------------------------------------------------------------------------------

struct Bounds {
    fam: Fam,
    /// local operations are stamped with Lamport times <= t_max (deliveries may push a clock beyond)
    t_max: u64,
    /// R2 = values reachable by <= depth_pairs events
    depth_pairs: usize,
    /// R3 = values reachable by <= depth_triples events ...
    depth_triples: usize,
    /// ... plus those reachable by <= depth_triples_ext events all of whose stamps have time <= t_ext
    depth_triples_ext: usize,
    t_ext: u64,
}

fn bounds(tier: Tier) -> Vec<Bounds> {
    // quick:    local stamps <= 3; R2 = depth <= 3; R3 = depth <= 2.
    // thorough: local stamps <= 4 for the family the command glue produces (<= 3 elsewhere);
    //           R2 = depth <= 4; R3 = depth <= 2, plus depth 3 with all stamp times <= 3.
    FAMS.iter()
        .map(|f| Bounds {
            fam: *f,
            t_max: if *f == Fam::LwwHash { tier.pick(3, 4) } else { 3 },
            depth_pairs: tier.pick(3, 4),
            depth_triples: 2,
            depth_triples_ext: tier.pick(2, 3),
            t_ext: 3,
        })
        .collect()
}

fn operand_json(f: &Found) -> Value {
    json!({
        "family": f.fam.name(),
        "history": f.hist.iter().map(|e| e.text()).collect::<Vec<_>>(),
        "replica": f.rep + 1,
        "shows": show(&f.val.rv),
        "value": serde_json::to_value(&*f.val.rv).unwrap(),
    })
}

fn replay_outer(r: &Value) -> bool {
    let law = r["law"].as_str().unwrap_or("").to_string();
    let mut ops: Vec<RV> = Vec::new();
    for (i, o) in r["operands"].as_array().expect("operands").iter().enumerate() {
        let stored: RV = serde_json::from_value(o["value"].clone()).expect("operand value");
        let fam = Fam::from_name(o["family"].as_str().unwrap_or("")).expect("family");
        let hist: Vec<Ev> = o["history"]
            .as_array()
            .expect("history")
            .iter()
            .map(|s| Ev::parse(s.as_str().unwrap_or(""), fam).unwrap_or_else(|| {
                eprintln!("cannot parse event {s}");
                std::process::exit(2)
            }))
            .collect();
        let rep = o["replica"].as_u64().unwrap_or(1) as usize - 1;
        let rebuilt = rebuild(fam, &hist, rep);
        let name = ["a", "b", "c"][i];
        println!("  operand {name}: history {:?} at r{}", hist.iter().map(|e| e.text()).collect::<Vec<_>>(), rep + 1);
        match rebuilt {
            Some(v) if *v.key == *canon(&stored) => {
                println!("    rebuilt on real replicas = {}", show(&v.rv));
                ops.push((*v.rv).clone());
            }
            Some(v) => {
                println!("    history now yields {} (stored: {}); using what the history yields", show(&v.rv), show(&stored));
                ops.push((*v.rv).clone());
            }
            None => {
                println!("    history is no longer executable; using the stored value {}", show(&stored));
                ops.push(stored);
            }
        }
    }
    let refs: Vec<&RV> = ops.iter().collect();
    match eval_law(&law, &refs) {
        Ok((l, rr, d)) => {
            let (ls, rs) = law_sides(&law);
            println!("  {ls} = {}", show(&l));
            println!("  {rs} = {}", show(&rr));
            println!("  differing observables: {:?}", obs_names(d));
            d != 0
        }
        Err(p) => {
            println!("  merge panicked: {p}");
            true
        }
    }
}

fn main() {
    let args = cli::parse_args();
    vh::quiet_panics();
    if let Some(path) = &args.replay {
        let r = vh::report::load_replay(path);
        let bad = if r.get("inner").is_some() { replay_inner(&r) } else { replay_outer(&r) };
        if bad {
            println!("VIOLATION property=C07 replay={}", path.display());
            std::process::exit(1);
        }
        println!("replay: the law holds on this case");
        std::process::exit(0);
    }
    let rep = Reporter::new("C07", "exploration", &args);

    // ---- 1. reachable set ----
    let mut found: BTreeMap<Arc<str>, Found> = BTreeMap::new();
    let mut gen_info = Vec::new();
    let mut worlds = 0u64;
    let mut transitions = 0u64;
    let bnds = bounds(args.tier);
    for b in &bnds {
        let alpha = alphabet(b.fam);
        let before = found.len();
        let s = explore(b.fam, &alpha, b.t_max, b.depth_pairs, &mut found);
        worlds += s.worlds;
        transitions += s.transitions;
        gen_info.push(json!({
            "family": b.fam.name(),
            "operations": alpha.iter().map(|o| o.name()).collect::<Vec<_>>(),
            "max_lamport_time_of_local_ops": b.t_max,
            "depth_pairs": b.depth_pairs, "depth_triples": b.depth_triples,
            "depth_triples_for_values_with_stamp_times_up_to": {"depth": b.depth_triples_ext, "time": b.t_ext},
            "worlds": s.worlds, "transitions": s.transitions,
            "new_values": found.len() - before,
        }));
        eprintln!(
            "[gen] {} worlds={} transitions={} values+={} ({:.1}s)",
            b.fam.name(),
            s.worlds,
            s.transitions,
            found.len() - before,
            rep.elapsed_s()
        );
    }
    // deterministic order: family, depth, canonical key
    let mut all: Vec<&Found> = found.values().collect();
    all.sort_by(|x, y| (x.fam, x.depth, &x.val.key).cmp(&(y.fam, y.depth, &y.val.key)));
    let bound_of: HashMap<Fam, &Bounds> = bnds.iter().map(|b| (b.fam, b)).collect();
    let max_time = |v: &RV| {
        let s = stamps_of(v);
        s.inner.iter().map(|(t, _)| t.0).chain([s.outer.0]).max().unwrap_or(0)
    };
    let r2: Vec<&Found> = all.clone();
    let r3: Vec<&Found> = all
        .iter()
        .copied()
        .filter(|f| {
            let b = bound_of[&f.fam];
            f.depth <= b.depth_triples || (f.depth <= b.depth_triples_ext && max_time(&f.val.rv) <= b.t_ext)
        })
        .collect();
    let n2 = r2.len();
    let n3 = r3.len();
    let by_kind = |set: &[&Found]| {
        let mut m: BTreeMap<&str, u64> = BTreeMap::new();
        for f in set {
            *m.entry(KINDS[kind(&f.val.rv) as usize]).or_default() += 1;
        }
        m
    };
    eprintln!("[gen] |R2|={} {:?}  |R3|={} {:?}", n2, by_kind(&r2), n3, by_kind(&r3));

    // every collected value must be reproduced by its recorded history (machinery self-check)
    let bad_hist = par::par_map(&r2, |_, f| {
        // the textual form stored in replay files must parse back to the same events
        let parsed: Option<Vec<Ev>> = f.hist.iter().map(|e| Ev::parse(&e.text(), f.fam)).collect();
        if parsed.as_deref() != Some(&f.hist[..]) {
            return true;
        }
        match rebuild(f.fam, &f.hist, f.rep) {
            Some(v) => v.key != f.val.key,
            None => true,
        }
    })
    .into_iter()
    .filter(|b| *b)
    .count();
    if bad_hist > 0 {
        rep.machinery_failure(&format!("{bad_hist} collected values are not reproduced by their recorded history"));
    }

    let vals2: Vec<&RV> = r2.iter().map(|f| &*f.val.rv).collect();
    let stamps2: Vec<Stamps> = vals2.iter().map(|v| stamps_of(v)).collect();
    let kinds2: Vec<u8> = vals2.iter().map(|v| kind(v)).collect();

    // ---- 2a. idempotence + commutativity on R2 ----
    struct RowOut {
        tally: Tally,
        exact: BTreeMap<(&'static str, [u8; 3]), u64>,
        panics: Vec<(Vec<usize>, String)>,
        evals: u64,
        nontrivial: u64,
    }
    let idx2: Vec<usize> = (0..n2).collect();
    let rows: Vec<RowOut> = par::par_map(&idx2, |_, &a| {
        let mut o = RowOut { tally: Tally::new(), exact: BTreeMap::new(), panics: vec![], evals: 0, nontrivial: 0 };
        match eval_law("idempotence", &[vals2[a]]) {
            Ok((_, _, d)) => {
                o.evals += 1;
                if d != 0 {
                    let ks = [kinds2[a]];
                    tally_add(&mut o.tally, "idempotence", &ks, d, 0, &[a]);
                    *o.exact.entry(("idempotence", [ks[0], 255, 255])).or_default() += 1;
                }
            }
            Err(p) => o.panics.push((vec![a], p)),
        }
        for b in (a + 1)..n2 {
            o.evals += 1;
            match eval_law("commutativity", &[vals2[a], vals2[b]]) {
                Ok((l, _, d)) => {
                    // non-trivial: the merge is neither of its arguments in some observable
                    if diff(&l, vals2[a]) != 0 && diff(&l, vals2[b]) != 0 {
                        o.nontrivial += 1;
                    }
                    if d != 0 {
                        let mut ks = [kinds2[a], kinds2[b]];
                        ks.sort();
                        let class = class_of(&[&stamps2[a], &stamps2[b]]);
                        tally_add(&mut o.tally, "commutativity", &ks, d, class, &[a, b]);
                        *o.exact.entry(("commutativity", [ks[0], ks[1], 255])).or_default() += 1;
                    }
                }
                Err(p) => o.panics.push((vec![a, b], p)),
            }
        }
        o
    });
    let mut tally = Tally::new();
    let mut exact: BTreeMap<(&'static str, [u8; 3]), u64> = BTreeMap::new();
    let mut panics: Vec<(&'static str, Vec<usize>, String)> = Vec::new();
    let mut pair_evals = 0u64;
    let mut pair_nontrivial = 0u64;
    for r in rows {
        tally_merge(&mut tally, r.tally);
        for (k, v) in r.exact {
            *exact.entry(k).or_default() += v;
        }
        for (ops, p) in r.panics {
            panics.push((if ops.len() == 1 { "idempotence" } else { "commutativity" }, ops, p));
        }
        pair_evals += r.evals;
        pair_nontrivial += r.nontrivial;
    }
    eprintln!("[laws] pairs done: {} evaluations ({:.1}s)", pair_evals, rep.elapsed_s());

    // ---- 2b. associativity on R3 (indices into R2) ----
    let pos3: Vec<usize> = {
        let index: HashMap<&str, usize> = r2.iter().enumerate().map(|(i, f)| (&*f.val.key, i)).collect();
        r3.iter().map(|f| index[&*f.val.key]).collect()
    };
    // pair merges of R3, interned by canonical serialization
    let idx3: Vec<usize> = (0..n3).collect();
    let mut table: Vec<RV> = Vec::new();
    let mut intern: HashMap<String, u32> = HashMap::new();
    for &p in &pos3 {
        intern.insert(r2[p].val.key.to_string(), table.len() as u32);
        table.push(vals2[p].clone());
    }
    let mut pm: Vec<Vec<u32>> = Vec::with_capacity(n3);
    for chunk in idx3.chunks(64) {
        let pair_rows: Vec<Vec<(String, RV)>> = par::par_map(chunk, |_, &b| {
            (0..n3)
                .map(|c| {
                    // a panic here is reported by the pair sweep above (R3 is a subset of R2)
                    let m = merge_guard(vals2[pos3[b]], vals2[pos3[c]]).unwrap_or_else(|_| vals2[pos3[b]].clone());
                    (canon(&m), m)
                })
                .collect()
        });
        for row in pair_rows {
            let mut out = Vec::with_capacity(n3);
            for (k, m) in row {
                let id = *intern.entry(k).or_insert_with(|| {
                    table.push(m);
                    (table.len() - 1) as u32
                });
                out.push(id);
            }
            pm.push(out);
        }
    }
    drop(intern);
    let distinct_pair_merges = table.len();
    eprintln!("[laws] R3 pair merges interned: {} distinct values ({:.1}s)", distinct_pair_merges, rep.elapsed_s());
    let rows3: Vec<RowOut> = par::par_map(&idx3, |_, &a| {
        let mut o = RowOut { tally: Tally::new(), exact: BTreeMap::new(), panics: vec![], evals: 0, nontrivial: 0 };
        let va = vals2[pos3[a]];
        let mut cache: Vec<Option<RV>> = vec![None; table.len()];
        for b in 0..n3 {
            let ab = &table[pm[a][b] as usize];
            for c in 0..n3 {
                o.evals += 1;
                let bc = pm[b][c] as usize;
                if cache[bc].is_none() {
                    match merge_guard(va, &table[bc]) {
                        Ok(m) => cache[bc] = Some(m),
                        Err(p) => {
                            o.panics.push((vec![pos3[a], pos3[b], pos3[c]], p));
                            continue;
                        }
                    }
                }
                let lhs = cache[bc].as_ref().unwrap();
                let rhs = match merge_guard(ab, vals2[pos3[c]]) {
                    Ok(m) => m,
                    Err(p) => {
                        o.panics.push((vec![pos3[a], pos3[b], pos3[c]], p));
                        continue;
                    }
                };
                // non-trivial: three different values and an intermediate merge that is a value
                // different from both of its arguments
                if a != b && b != c && a != c && (pm[a][b] as usize >= n3 || bc >= n3) {
                    o.nontrivial += 1;
                }
                let d = diff(lhs, &rhs);
                if d != 0 {
                    let mut ks = [kinds2[pos3[a]], kinds2[pos3[b]], kinds2[pos3[c]]];
                    ks.sort();
                    let class = class_of(&[&stamps2[pos3[a]], &stamps2[pos3[b]], &stamps2[pos3[c]]]);
                    tally_add(&mut o.tally, "associativity", &ks, d, class, &[pos3[a], pos3[b], pos3[c]]);
                    *o.exact.entry(("associativity", ks)).or_default() += 1;
                }
            }
        }
        o
    });
    let mut triple_evals = 0u64;
    let mut triple_nontrivial = 0u64;
    for r in rows3 {
        tally_merge(&mut tally, r.tally);
        for (k, v) in r.exact {
            *exact.entry(k).or_default() += v;
        }
        for (ops, p) in r.panics {
            panics.push(("associativity", ops, p));
        }
        triple_evals += r.evals;
        triple_nontrivial += r.nontrivial;
    }
    eprintln!("[laws] triples done: {} evaluations ({:.1}s)", triple_evals, rep.elapsed_s());

    // ---- report outer violations ----
    let mut sig_counts: BTreeMap<String, u64> = BTreeMap::new();
    let mut not_judged_total = 0u64;
    let mut not_judged_by_sig: BTreeMap<String, u64> = BTreeMap::new();
    let mut not_judged_sample: Option<Value> = None;
    let case_json = |law: &str, ops: &[usize]| {
        json!({"law": law, "operands": ops.iter().map(|i| operand_json(r2[*i])).collect::<Vec<_>>()})
    };
    let case_detail = |law: &str, ops: &[usize]| -> String {
        let refs: Vec<&RV> = ops.iter().map(|i| vals2[*i]).collect();
        let names = ["a", "b", "c"];
        let mut s: Vec<String> = ops
            .iter()
            .enumerate()
            .map(|(i, x)| {
                format!(
                    "{}={} [{}: {}]",
                    names[i],
                    show(vals2[*x]),
                    r2[*x].fam.name(),
                    r2[*x].hist.iter().map(|e| e.text()).collect::<Vec<_>>().join("; ")
                )
            })
            .collect();
        match eval_law(law, &refs) {
            Ok((l, r, d)) => {
                let (ls, rs) = law_sides(law);
                s.push(format!("{ls}={}", show(&l)));
                s.push(format!("{rs}={}", show(&r)));
                s.push(format!("differ in {:?}", obs_names(d)));
            }
            Err(p) => s.push(format!("panic: {p}")),
        }
        s.join(" ;; ")
    };
    {
        for ((law, label, bit), hit) in &tally {
            let obs = OBS.iter().find(|(b, _)| b == bit).unwrap().1;
            let ops = hit.witness();
            let label = label_text(*label, ops.len());
            if hit.by_class[2] > 0 {
                // operands that carry one stamp on two payloads: not judged
                not_judged_total += hit.by_class[2];
                *not_judged_by_sig.entry(format!("{law} {label} {obs}")).or_default() += hit.by_class[2];
                if not_judged_sample.is_none() {
                    if let Some(w) = hit.first[4].as_ref().or(hit.first[5].as_ref()) {
                        not_judged_sample = Some(json!({"law": law, "case": case_detail(law, w)}));
                    }
                }
            }
            if hit.judged() == 0 {
                continue;
            }
            let sig = format!("{law} {label} {obs}{}", CLASS_SUFFIX[hit.class()]);
            let detail = format!(
                "{} cases ({} with no outer stamp time shared by operands of different content, {} with such a shared time; {} more with one stamp on different payloads are not judged); first of the lowest class: {}",
                hit.judged(), hit.by_class[0], hit.by_class[1], hit.by_class[2], case_detail(law, &ops)
            );
            sig_counts.insert(sig.clone(), hit.judged());
            rep.violation(sig, detail, case_json(law, &ops));
        }
    }
    for (law, ops, p) in panics.iter().take(50) {
        let ks: Vec<u8> = ops.iter().map(|i| kinds2[*i]).collect();
        rep.violation(
            format!("{law} {} panic", label_text(label_code(&ks), ks.len())),
            format!("{} ;; panic text: {p}", case_detail(law, ops)),
            case_json(law, ops),
        );
    }

    // ---- 3. inner lattices ----
    let inner_cap = args.tier.pick(250, 600);
    let inner = inner_checks(&r2, inner_cap);
    let mut inner_evals = 0u64;
    let mut inner_info = Vec::new();
    let mut inner_capped = false;
    for res in &inner {
        inner_evals += res.pairs + res.triples + res.items as u64;
        if res.items >= inner_cap {
            inner_capped = true;
        }
        inner_info.push(json!({"lattice": res.name, "values": res.items, "pairs": res.pairs, "triples": res.triples,
                               "violating_signatures": res.hits.len()}));
        for (sig, n, detail) in &res.not_judged {
            not_judged_total += n;
            *not_judged_by_sig.entry(sig.clone()).or_default() += n;
            if not_judged_sample.is_none() {
                not_judged_sample = Some(json!({"case": detail}));
            }
        }
        for (sig, n, detail, replay) in &res.hits {
            sig_counts.insert(sig.clone(), *n);
            rep.violation(sig.clone(), format!("{n} cases; first: {detail}"), replay.clone());
        }
    }
    eprintln!("[laws] inner lattices done ({:.1}s)", rep.elapsed_s());

    // ---- evidence ----
    let sample = |i: usize| {
        let f = r2[i];
        json!({"value": show(&f.val.rv), "family": f.fam.name(), "depth": f.depth,
               "history": f.hist.iter().map(|e| e.text()).collect::<Vec<_>>(), "held_by": format!("r{}", f.rep + 1)})
    };
    let mut samples = Vec::new();
    if n3 >= 3 {
        for (x, y, z) in [(0, n3 / 2, n3 - 1), (n3 / 3, 2 * n3 / 3, n3 / 5), (n3 - 1, n3 / 4, n3 / 2)] {
            let ops = [pos3[x], pos3[y], pos3[z]];
            samples.push(json!({"triple": [sample(ops[0]), sample(ops[1]), sample(ops[2])],
                                "outcome": case_detail("associativity", &ops)}));
        }
    }
    for i in [n2 / 7, n2 / 2, n2 - 1] {
        samples.push(json!({"pair": [sample(i), sample(n2 - 1 - i)], "outcome": case_detail("commutativity", &[i, n2 - 1 - i])}));
    }
    let evaluations = pair_evals + triple_evals + inner_evals;
    let coverage = json!({
        "evaluations": evaluations,
        "distinct_nontrivial": pair_nontrivial + triple_nontrivial,
        "rule": "R = all values of one key ever held by a replica in any 3-replica world reachable by <= depth events (local real operations with the replica's Lamport clock first advanced to any time below the bound; delivery of any value that existed in that world to any replica via apply_remote_delta), worlds deduplicated by canonical serialization of (clocks, values, pool); values deduplicated by canonical serialization. Enumerated: every unordered pair of R2 (commutativity), every member of R2 (idempotence), every ordered triple of R3 (associativity), plus all pairs/triples of each inner lattice's projection of R2. Non-trivial pair: merge(a,b) differs from a and from b in some compared observable. Non-trivial triple: a,b,c pairwise different and merge(a,b) or merge(b,c) is a value different from both of its arguments.",
        "exhaustive": !inner_capped,
        "inner_projection_cut_by_cap": inner_capped,
        "samples": samples,
        "generation": gen_info,
        "worlds": worlds,
        "world_transitions": transitions,
        "R2_values": n2, "R2_by_kind": by_kind(&r2),
        "R3_values": n3, "R3_by_kind": by_kind(&r3),
        "pairs_and_singles_evaluated": pair_evals,
        "pairs_nontrivial": pair_nontrivial,
        "triples_evaluated": triple_evals,
        "triples_nontrivial": triple_nontrivial,
        "distinct_values_among_R3_pair_merges": distinct_pair_merges,
        "inner_lattices": inner_info,
        "violating_cases_by_exact_kinds": exact.iter().map(|((law, ks), n)| {
            let ks: Vec<u8> = ks.iter().copied().filter(|k| *k != 255).collect();
            (format!("{law} {}", exact_kinds(&ks)), *n)
        }).collect::<BTreeMap<String, u64>>(),
        "merge_panics": panics.len(),
        "violating_cases_by_signature": sig_counts,
        "not_judged_repeated_stamp_pairs": not_judged_total,
        "not_judged_repeated_stamp_pairs_by_law_kinds_observable": not_judged_by_sig,
        "not_judged_repeated_stamp_sample": not_judged_sample,
        "observables_compared": OBS.iter().filter(|(b, _)| *b != O_CONTENT).map(|(_, n)| *n).collect::<Vec<_>>(),
    });
    let assumptions = vec![
        "Values of G/PN counters and G/OR sets are produced by a modelled glue (no command of the tree produces them): ReplicatedValue::with_crdt + the kind's own operation with the replica's id + `timestamp = clock.tick()`, the stamp update every real operation performs; replicas exchange them through the real apply_remote_delta.".to_string(),
        "The laws are demanded for every pair/triple of individually reachable values (the property's quantifier), not only for values that coexist in one execution; EXCEPT cases in which two different operands carry one and the same (time, replica) stamp on two different payloads (a register/field stamp both contain with different contents, or equal outer stamps on values of different kinds): a replica's clock only moves forward, also across restarts, so stamps never repeat in a system history and such operands cannot both be produced by the replicas of one system. A law failure on such operands is not judged and never reported; the cases are counted in not_judged_repeated_stamp_pairs (with one sample).".to_string(),
        "replication_factor is never set by the operations explored and is not compared.".to_string(),
        "Canonical serialization = serde_json of the value with maps sorted and set-derived arrays sorted; two values with equal serialization are the same value.".to_string(),
    ];
    rep.finish(coverage, assumptions);
}
