//! C08 — newest write wins: a node's stamps only grow, also across restart.
//! Explicit enumeration on a real ReplicatedShardedState: all interleavings (<=3 events) of local
//! writes and remote deltas (stamps small / equal / far ahead), crash after every event, recovery
//! from every combination of checkpoint / segments / WAL through the real persistence and
//! recovery code, then further writes, a peer merge and a second recovery.
use redis_sim::production::ReplicatedShardedState;
use redis_sim::redis::SDS;
use redis_sim::replication::lattice::{LamportClock, ReplicaId};
use redis_sim::replication::state::{ReplicatedValue, ReplicationDelta};
use redis_sim::replication::ReplicationConfig;
use redis_sim::streaming::{
    CheckpointInfo, CheckpointWriter, Compression, ManifestManager, ObjectStore, RecoveryManager, SimulatedClock, StreamingPersistence, WalEntry, WalRotator, WriteBufferConfig,
};
use serde_json::json;
use std::collections::{BTreeMap, HashMap};
use std::sync::atomic::{AtomicU64, Ordering};
use std::sync::Arc;
use std::time::Duration;
use vh::persist_kit::{client_view, fold_into, Fold, PREFIX};
use vh::resp;
use vh::shardsys::VerifTime;
use vh::stores::{VObjStore, VWalStore};
use vh::{cli, par, Reporter, Tier};

vh::use_jemalloc!();

const EVENTS: &[&str] = &[
    "L SET k a", "L SET k b", "L APPEND k x", "L DEL k", "L HSET h f v", "L INCR n",
    "R 2 small", "R 2 equal", "R 2 far", "R 3 equal", "R 3 far", "R 2 far-del", "R 2 far-hash",
    "L HSET h f v g w i x", "L HDEL h g",
    // a local command that empties the keyspace: what the node has observed stays observed
    "L FLUSHALL",
    // a stamp far beyond anything a plausibility bound would accept (2^40): clocks of long-lived clusters get there
    "R 2 huge",
    // 300 writes of 300 other keys: what is recovered afterwards is far more than any batching or chunking constant
    "L BULK 300",
];
const POST: &[&str] = &["SET k new", "APPEND k z", "HSET h f new", "INCR n", "DEL k", "HSET h i new", "DEL h",
    // every other command of the replicated set
    "GETSET k g", "DECR n", "INCRBY n 2", "DECRBY n 2", "HDEL h f", "HINCRBY h c 1", "SET k e EX 100", "SET k m KEEPTTL"];

#[derive(Clone, Copy, Debug, PartialEq, Eq)]
struct Sources {
    segments: bool,
    checkpoint: bool,
    wal: bool,
}

thread_local! {
    static RT: tokio::runtime::Runtime = tokio::runtime::Builder::new_current_thread().enable_time().build().unwrap();
}

fn stamp_of(v: &ReplicatedValue) -> (u64, u64) {
    (v.timestamp.time, v.timestamp.replica_id.0)
}

/// every (time, replica) stamp carried by a value: outer stamp and the inner register stamps
fn all_stamps(v: &ReplicatedValue) -> Vec<(u64, u64)> {
    let mut s = vec![stamp_of(v)];
    if let Some(l) = v.lww() {
        s.push((l.timestamp.time, l.timestamp.replica_id.0));
    }
    if let Some(h) = v.get_hash() {
        for l in h.values() {
            s.push((l.timestamp.time, l.timestamp.replica_id.0));
        }
    }
    s
}

fn new_node(causal: bool) -> ReplicatedShardedState<VerifTime> {
    let mut cfg = ReplicationConfig { enabled: true, replica_id: 1, ..Default::default() };
    if causal {
        // values then carry vector clocks next to their Lamport stamps; a restart loses the shard's vector clock
        cfg.consistency_level = redis_sim::replication::ConsistencyLevel::Causal;
    }
    ReplicatedShardedState::with_time_source(cfg, VerifTime::new(1_000))
}

fn key_of(cmd: &str) -> String {
    cmd.split(' ').nth(1).unwrap().to_string()
}

fn remote_delta(replica: u64, kind: &str, local_time_of_k: u64) -> ReplicationDelta {
    let r = ReplicaId::new(replica);
    let time = match kind {
        "small" => 1,
        "equal" => local_time_of_k.max(1),
        "huge" => 1 << 40,
        _ => 1_000_000,
    };
    let stamp = LamportClock { time, replica_id: r };
    let v = match kind {
        "far-del" => {
            let mut v = ReplicatedValue::new(r);
            let mut c = LamportClock { time: time - 1, replica_id: r };
            v.delete(&mut c);
            v
        }
        "far-hash" => {
            let mut v = ReplicatedValue::new(r);
            let mut c = LamportClock { time: time - 1, replica_id: r };
            v.hash_set("f".into(), SDS::from_str("remote"), &mut c);
            return ReplicationDelta::new("h".into(), v, r);
        }
        _ => ReplicatedValue::with_value(SDS::from_str(&format!("r{replica}")), stamp),
    };
    ReplicationDelta::new("k".into(), v, r)
}

struct Phase1 {
    /// deltas emitted by the node, per event
    emitted: Vec<Vec<ReplicationDelta>>,
    /// everything the node observed per key (emitted + received), in order
    observed: Vec<ReplicationDelta>,
    snapshot: HashMap<String, ReplicatedValue>,
    monotonic_violation: Option<String>,
}

async fn run_phase1(node: &ReplicatedShardedState<VerifTime>, events: &[usize]) -> Phase1 {
    let mut emitted = Vec::new();
    let mut observed: Vec<ReplicationDelta> = Vec::new();
    let mut last_stamp: BTreeMap<String, (u64, u64)> = BTreeMap::new();
    let mut monotonic_violation = None;
    for e in events {
        let ev = EVENTS[*e];
        let parts: Vec<&str> = ev.split(' ').collect();
        if parts[0] == "L" {
            if parts[1] == "BULK" {
                let n: usize = parts[2].parse().unwrap();
                for i in 0..n {
                    node.execute(resp::parse(&resp::line(&format!("SET filler{i:04} x"))).unwrap()).await;
                }
            } else {
                let cmd = resp::parse(&resp::line(&ev[2..])).expect("event parses");
                node.execute(cmd).await;
            }
            let ds = node.collect_pending_deltas().await;
            for d in &ds {
                // a command that changed nothing (e.g. HDEL of a field that does not exist) may re-send the
                // key's current replicated value unchanged: that is not a new write and carries no new stamp
                if observed.iter().any(|o| o.key == d.key && vh::persist_kit::project(&o.value) == vh::persist_kit::project(&d.value)) {
                    continue;
                }
                // issued stamps must exceed every stamp of that key the node has seen so far
                let seen_max = observed.iter().filter(|o| o.key == d.key).flat_map(|o| all_stamps(&o.value)).max();
                if let Some(m) = seen_max {
                    if stamp_of(&d.value) <= m && monotonic_violation.is_none() {
                        monotonic_violation = Some(format!("event `{ev}` issued stamp {:?} for key {} although the node had already seen stamp {:?} for it", stamp_of(&d.value), d.key, m));
                    }
                }
                if let Some(prev) = last_stamp.get(&d.key) {
                    if stamp_of(&d.value) <= *prev && monotonic_violation.is_none() {
                        monotonic_violation = Some(format!("event `{ev}` issued stamp {:?} for key {} after having issued {:?}", stamp_of(&d.value), d.key, prev));
                    }
                }
                last_stamp.insert(d.key.clone(), stamp_of(&d.value));
                observed.push(d.clone());
            }
            emitted.push(ds);
        } else {
            let replica: u64 = parts[1].parse().unwrap();
            let local_time = observed.iter().filter(|o| o.key == "k").map(|o| o.value.timestamp.time).max().unwrap_or(0);
            let d = remote_delta(replica, parts[2], local_time);
            node.apply_remote_deltas(vec![d.clone()]);
            // make sure the actor has processed it before the next event
            let _ = node.snapshot_state().await;
            observed.push(d);
            emitted.push(vec![]);
        }
    }
    let snapshot = node.snapshot_state().await;
    Phase1 { emitted, observed, snapshot, monotonic_violation }
}

fn block_on<F: std::future::Future>(f: F) -> F::Output {
    futures::executor::block_on(f)
}

/// Persist what the node emitted the way the server does (segments via StreamingPersistence,
/// WAL via WalRotator with a sync per entry, checkpoint of the snapshot at crash time).
fn persist(p1: &Phase1, src: Sources, group: usize) -> (VObjStore, VWalStore) {
    let store = VObjStore::new();
    let wal = VWalStore::new();
    let cfgw = WriteBufferConfig { flush_interval: Duration::from_secs(3600), max_size_bytes: 1 << 20, max_deltas: 1000, backpressure_threshold_bytes: 1 << 24, compression_enabled: false };
    if src.segments || src.checkpoint {
        let mut p = block_on(StreamingPersistence::with_clock(Arc::new(store.clone()), PREFIX.to_string(), 1, cfgw, SimulatedClock::new(1_000))).expect("persistence");
        let n = p1.emitted.len();
        for (i, ds) in p1.emitted.iter().enumerate() {
            for d in ds {
                p.push(d.clone()).unwrap();
            }
            let flush_now = match group {
                0 => true,
                1 => i + 2 != n,
                _ => i + 1 == n,
            };
            if flush_now {
                block_on(p.flush()).expect("flush");
            }
        }
    }
    if src.checkpoint {
        let mm = ManifestManager::new(store.clone(), PREFIX);
        let mut manifest = block_on(mm.load_or_create(1)).expect("manifest");
        let last = manifest.segments.last().map(|s| s.id).unwrap_or(0);
        let bytes = CheckpointWriter::new(Compression::None).write(p1.snapshot.clone(), 2_000, last).expect("checkpoint");
        let key = format!("{PREFIX}/checkpoints/chk-0000000000002000.chk");
        block_on(store.put(&key, &bytes)).unwrap();
        manifest.compact_segments(CheckpointInfo { key, timestamp_ms: 2_000, key_count: p1.snapshot.len() as u64, last_segment_id: last });
        block_on(mm.save(&manifest)).unwrap();
        if !src.segments {
            // segments were all covered by the checkpoint and removed from the manifest anyway
        }
    }
    if src.wal {
        let mut rot = WalRotator::new(wal.clone(), 1 << 30).expect("rotator");
        for ds in &p1.emitted {
            for d in ds {
                rot.append(&WalEntry::from_delta(d, d.value.timestamp.time).expect("entry")).expect("append");
                rot.sync().expect("sync");
            }
        }
    }
    (store, wal)
}

struct Recovered {
    checkpoint: Option<HashMap<String, ReplicatedValue>>,
    deltas: Vec<ReplicationDelta>,
    wal_deltas: Vec<ReplicationDelta>,
}

fn recover(store: &VObjStore, wal: &VWalStore) -> Result<Recovered, String> {
    let rm = RecoveryManager::new(VObjStore::from_image(&store.image_now()), PREFIX, 1);
    let r = block_on(rm.recover()).map_err(|e| format!("recover failed: {e}"))?;
    let rot = WalRotator::new(VWalStore::from_image(&wal.files_now()), 1 << 30).map_err(|e| e.to_string())?;
    let mut wal_deltas = Vec::new();
    for e in rot.recover_all_entries().map_err(|e| e.to_string())? {
        wal_deltas.push(e.to_delta().map_err(|e| e.to_string())?);
    }
    Ok(Recovered { checkpoint: r.checkpoint_state, deltas: r.deltas, wal_deltas })
}

fn recovered_fold(r: &Recovered) -> Fold {
    let mut f: Fold = r.checkpoint.clone().map(|m| m.into_iter().collect()).unwrap_or_default();
    for d in r.deltas.iter().chain(r.wal_deltas.iter()) {
        fold_into(&mut f, d);
    }
    f
}

#[derive(Clone, Debug)]
struct Case {
    events: Vec<usize>,
    src: Option<Sources>, // None = no crash
    post: usize,
    /// how the emitted deltas are grouped into segments: 0 = one flush per event, 1 = the last two
    /// events share a segment, 2 = a single flush at the end
    group: usize,
    /// the node runs with ConsistencyLevel::Causal
    causal: bool,
}

impl Case {
    fn json(&self) -> serde_json::Value {
        json!({"events": self.events.iter().map(|e| EVENTS[*e]).collect::<Vec<_>>(),
               "recover_from": self.src.map(|s| json!({"segments": s.segments, "checkpoint": s.checkpoint, "wal": s.wal})),
               "post_restart_write": POST[self.post], "segment_grouping": self.group, "causal": self.causal})
    }
    fn src_label(&self) -> String {
        let base = self.src_label_base();
        if self.causal { format!("{base} causal") } else { base }
    }
    fn src_label_base(&self) -> String {
        match self.src {
            None => "no-crash".into(),
            Some(s) => {
                let mut v = Vec::new();
                if s.checkpoint {
                    v.push("checkpoint");
                }
                if s.segments {
                    v.push("segments");
                }
                if s.wal {
                    v.push("wal");
                }
                v.join("+")
            }
        }
    }
}

fn run_case(case: &Case) -> Result<String, (String, String)> {
    RT.with(|rt| {
        rt.block_on(async {
            let node = new_node(case.causal);
            let p1 = run_phase1(&node, &case.events).await;
            if let Some(m) = &p1.monotonic_violation {
                return Err((format!("stamp-not-increasing phase1 last-event={}", EVENTS[*case.events.last().unwrap()].split(' ').take(2).collect::<Vec<_>>().join(" ")), format!("{}: {m}", case.json())));
            }
            let post_cmd = POST[case.post];
            let key = key_of(post_cmd);
            // the node that takes the post-crash write, and what it has observed of the key
            let (node2, seen, stores): (ReplicatedShardedState<VerifTime>, Fold, Option<(VObjStore, VWalStore)>) = match case.src {
                None => {
                    let mut f = Fold::new();
                    for d in &p1.observed {
                        fold_into(&mut f, d);
                    }
                    (node, f, None)
                }
                Some(src) => {
                    drop(node);
                    let (store, wal) = persist(&p1, src, case.group);
                    let rec = recover(&store, &wal).map_err(|e| ("harness: recovery failed".to_string(), e))?;
                    let n2 = new_node(case.causal);
                    // server start-up order: object store first, then WAL replay
                    n2.apply_recovered_state(rec.checkpoint.clone(), rec.deltas.clone());
                    n2.apply_recovered_state(None, rec.wal_deltas.clone());
                    let _ = n2.snapshot_state().await;
                    (n2, recovered_fold(&rec), Some((store, wal)))
                }
            };
            let seen_stamps: Vec<(u64, u64)> = seen.get(&key).map(all_stamps).unwrap_or_default();
            if seen_stamps.is_empty() {
                return Ok("key-not-observed".into());
            }
            let cmd = resp::parse(&resp::line(post_cmd)).unwrap();
            let reply = node2.execute(cmd).await;
            let ds = node2.collect_pending_deltas().await;
            let Some(d_new) = ds.iter().find(|d| d.key == key) else {
                // the command produced no delta (e.g. an error reply): nothing was acknowledged as a write
                return Ok(format!("no-delta reply={}", resp::kind(&reply)));
            };
            let new_stamp = stamp_of(&d_new.value);
            let max_seen = *seen_stamps.iter().max().unwrap();
            let cmdname = post_cmd.split(' ').next().unwrap();
            if new_stamp <= max_seen {
                return Err((
                    format!("stamp-not-greater after={} write={}", case.src_label(), cmdname),
                    format!("{}: the write `{post_cmd}` got stamp {:?}, but the node had already observed stamp {:?} for key {key} (observed value {})", case.json(), new_stamp, max_seen, vh::persist_kit::project(&seen[&key])),
                ));
            }
            // a peer that holds the value the node had observed merges the new delta: the new write must win
            let peer = seen[&key].merge(&d_new.value);
            if client_view(&peer) != client_view(&d_new.value) {
                return Err((
                    format!("peer-keeps-old-value after={} write={}", case.src_label(), cmdname),
                    format!("{}: a peer holding {} merges the new delta {} and serves {} instead of {}", case.json(), vh::persist_kit::project(&seen[&key]), vh::persist_kit::project(&d_new.value), client_view(&peer), client_view(&d_new.value)),
                ));
            }
            // second crash: persist the new delta next to everything persisted so far, recover all
            if let Some((store, wal)) = stores {
                let cfgw = WriteBufferConfig { flush_interval: Duration::from_secs(3600), max_size_bytes: 1 << 20, max_deltas: 1000, backpressure_threshold_bytes: 1 << 24, compression_enabled: false };
                let mut p = block_on(StreamingPersistence::with_clock(Arc::new(store.clone()), PREFIX.to_string(), 1, cfgw, SimulatedClock::new(3_000))).expect("persistence");
                p.push(d_new.clone()).unwrap();
                block_on(p.flush()).expect("flush");
                let mut rot = WalRotator::new(wal.clone(), 1 << 30).expect("rotator");
                rot.append(&WalEntry::from_delta(d_new, d_new.value.timestamp.time).unwrap()).unwrap();
                rot.sync().unwrap();
                let rec2 = recover(&store, &wal).map_err(|e| ("harness: second recovery failed".to_string(), e))?;
                let f2 = recovered_fold(&rec2);
                let v2 = f2.get(&key).map(client_view).unwrap_or_else(|| "absent".into());
                if v2 != client_view(&d_new.value) {
                    return Err((
                        format!("second-recovery-serves-old-value after={} write={}", case.src_label(), cmdname),
                        format!("{}: after persisting the new delta {} a second recovery serves {v2}", case.json(), vh::persist_kit::project(&d_new.value)),
                    ));
                }
            }
            Ok("checked".into())
        })
    })
}

/// Live WAL: a node wired like `server_persistent` with FsyncPolicy::Always (real WalActor over the logging store) and
/// gossip enabled runs `cmds` one after another. Right before every WAL I/O call takes effect - and after every reply -
/// the gossip loop is assumed to fire: whatever is in the outbox is sent to a peer. Then, for EVERY prefix of the I/O log:
/// crash (unsynced bytes lost), recover a new node from the WAL as the server does, run `post`: the new write's stamp
/// must be greater than every stamp a peer had been sent for that key, and the peer must serve the new value.
fn live_wal_case(gce: usize, cmds: &[&str], post: &str) -> Result<u64, (String, String)> {
    use redis_sim::streaming::{spawn_wal_actor, FsyncPolicy, WalConfig};
    let rt = tokio::runtime::Builder::new_current_thread().enable_time().start_paused(true).build().unwrap();
    let replay = json!({"live_wal": true, "gce": gce, "cmds": cmds, "post": post});
    let desc = format!("node with an always-fsync WAL (group commit {gce}) and gossip: [{}], crash, WAL recovery, then `{post}`", cmds.join("; "));
    rt.block_on(async {
        let store = VWalStore::new();
        let cfg = WalConfig {
            enabled: true,
            wal_dir: "/nonexistent".into(),
            fsync_policy: FsyncPolicy::Always,
            max_file_size: 1 << 30,
            group_commit_max_entries: gce,
            group_commit_max_wait: Duration::from_millis(5),
            truncation_check_interval: Duration::from_secs(3600),
        };
        let (handle, _join) = spawn_wal_actor(store.clone(), cfg).map_err(|e| ("live-wal: spawn failed".to_string(), format!("{desc}: {e}")))?;
        let mut node = new_node(false);
        node.set_wal_handle(handle);
        let gs = node.get_gossip_state().expect("locked gossip outbox");
        // (I/O calls logged when it was sent, delta)
        let sent: Arc<std::sync::Mutex<Vec<(usize, ReplicationDelta)>>> = Default::default();
        {
            let (gs, sent) = (gs.clone(), sent.clone());
            store.set_observer(Arc::new(move |logged| {
                for m in gs.write().drain_outbound() {
                    if let Some(ds) = m.message.into_deltas() {
                        sent.lock().unwrap().extend(ds.into_iter().map(|d| (logged, d)));
                    }
                }
            }));
        }
        for c in cmds {
            let reply = node.execute(resp::parse(&resp::line(c)).unwrap()).await;
            if resp::is_err(&reply) {
                return Err(("live-wal: command failed".to_string(), format!("{desc}: `{c}` replied {}", resp::show(&reply))));
            }
            let logged = store.log().len();
            for m in gs.write().drain_outbound() {
                if let Some(ds) = m.message.into_deltas() {
                    sent.lock().unwrap().extend(ds.into_iter().map(|d| (logged, d)));
                }
            }
        }
        let log = store.log();
        let sent = sent.lock().unwrap().clone();
        let key = key_of(post);
        let mut images = 0u64;
        for p in 0..=log.len() {
            let seen: Vec<&ReplicationDelta> = sent.iter().filter(|(at, d)| *at <= p && d.key == key).map(|(_, d)| d).collect();
            if seen.is_empty() {
                continue;
            }
            images += 1;
            let img = VWalStore::crash_image(&log, p);
            let rot = WalRotator::new(VWalStore::from_image(&img), 1 << 30).map_err(|e| ("live-wal: recovery failed".to_string(), format!("{desc}: {e}")))?;
            let mut wal_deltas = Vec::new();
            for e in rot.recover_all_entries().map_err(|e| ("live-wal: recovery failed".to_string(), format!("{desc}: {e}")))? {
                wal_deltas.push(e.to_delta().map_err(|e| ("live-wal: recovery failed".to_string(), format!("{desc}: {e}")))?);
            }
            let n2 = new_node(false);
            n2.apply_recovered_state(None, wal_deltas.clone());
            let _ = n2.snapshot_state().await;
            let _ = n2.execute(resp::parse(&resp::line(post)).unwrap()).await;
            let ds = n2.collect_pending_deltas().await;
            let Some(d_new) = ds.iter().find(|d| d.key == key) else { continue };
            let new_stamp = stamp_of(&d_new.value);
            let mut peer: Option<ReplicatedValue> = None;
            for d in &seen {
                peer = Some(match peer { None => d.value.clone(), Some(v) => v.merge(&d.value) });
            }
            let peer = peer.unwrap();
            let max_seen = seen.iter().flat_map(|d| all_stamps(&d.value)).max().unwrap();
            let cmdname = post.split(' ').next().unwrap();
            if new_stamp <= max_seen {
                return Err((
                    format!("live-wal: stamp-reissued-after-crash write={cmdname}"),
                    format!("{desc}: crash after {p} of {} WAL I/O calls ({} updates recovered); a peer had been sent stamp {:?} for key {key} (value {}), the restarted node stamps `{post}` with {:?}", log.len(), wal_deltas.len(), max_seen, vh::persist_kit::project(&peer), new_stamp),
                ));
            }
            let merged = peer.merge(&d_new.value);
            if client_view(&merged) != client_view(&d_new.value) {
                return Err((
                    format!("live-wal: peer-keeps-old-value write={cmdname}"),
                    format!("{desc}: crash after {p} of {} WAL I/O calls; the peer holds {} and, after merging the new delta {}, serves {}", log.len(), vh::persist_kit::project(&peer), vh::persist_kit::project(&d_new.value), client_view(&merged)),
                ));
            }
        }
        let _ = &replay;
        Ok(images)
    })
}

const LIVE_CMDS: &[&[&str]] = &[&["SET k a"], &["SET k a", "SET k b"], &["SET j x", "SET k a", "APPEND k y"], &["HSET h f v"], &["HSET h f v", "HSET h g w"], &["INCR n", "INCR n"], &["SET k a", "DEL k"]];

fn main() {
    let args = cli::parse_args();
    vh::quiet_panics();
    if let Some(path) = &args.replay {
        let r = vh::report::load_replay(path);
        if r["live_wal"] == json!(true) {
            let cmds: Vec<String> = r["cmds"].as_array().unwrap().iter().map(|c| c.as_str().unwrap().to_string()).collect();
            let cref: Vec<&str> = cmds.iter().map(|c| c.as_str()).collect();
            match live_wal_case(r["gce"].as_u64().unwrap() as usize, &cref, r["post"].as_str().unwrap()) {
                Ok(n) => {
                    println!("replay: no violation ({n} crash points with something sent)");
                    std::process::exit(0);
                }
                Err((sig, detail)) => {
                    println!("{detail}");
                    println!("VIOLATION property=C08 replay={} ({sig})", path.display());
                    std::process::exit(1);
                }
            }
        }
        let case = Case {
            events: r["events"].as_array().unwrap().iter().map(|e| EVENTS.iter().position(|x| *x == e.as_str().unwrap()).unwrap()).collect(),
            src: if r["recover_from"].is_null() { None } else { Some(Sources { segments: r["recover_from"]["segments"].as_bool().unwrap(), checkpoint: r["recover_from"]["checkpoint"].as_bool().unwrap(), wal: r["recover_from"]["wal"].as_bool().unwrap() }) },
            post: POST.iter().position(|x| *x == r["post_restart_write"].as_str().unwrap()).unwrap(),
            group: r["segment_grouping"].as_u64().unwrap_or(0) as usize,
            causal: r["causal"].as_bool().unwrap_or(false),
        };
        match run_case(&case) {
            Ok(o) => {
                println!("replay: no violation ({o})");
                std::process::exit(0);
            }
            Err((sig, detail)) => {
                println!("{detail}");
                println!("VIOLATION property=C08 replay={} ({sig})", path.display());
                std::process::exit(1);
            }
        }
    }
    let rep = Reporter::new("C08", "fault_enumeration", &args);
    let thorough = args.tier == Tier::Thorough;
    let max_events = 3;
    let mut seqs: Vec<Vec<usize>> = Vec::new();
    let mut cur: Vec<Vec<usize>> = vec![vec![]];
    for _ in 0..max_events {
        // (the bulk event, last in EVENTS, has its own cases below)
        cur = cur.iter().flat_map(|s| (0..EVENTS.len() - 1).map(move |e| { let mut x = s.clone(); x.push(e); x })).collect();
        seqs.extend(cur.iter().cloned());
    }
    if thorough {
        // thorough: length 4 over the events that matter most (local string writes + far-ahead/equal remote deltas)
        let core = [0usize, 2, 3, 7, 8, 10];
        let mut c3: Vec<Vec<usize>> = vec![vec![]];
        for _ in 0..4 {
            c3 = c3.iter().flat_map(|s| core.iter().map(move |e| { let mut x = s.clone(); x.push(*e); x })).collect();
        }
        seqs.extend(c3);
        seqs.sort();
        seqs.dedup();
    }
    let mut sources: Vec<Option<Sources>> = vec![None];
    for bits in 1..8u8 {
        sources.push(Some(Sources { segments: bits & 1 != 0, checkpoint: bits & 2 != 0, wal: bits & 4 != 0 }));
    }
    let mut cases = Vec::new();
    for s in &seqs {
        for src in &sources {
            for post in 0..POST.len() {
                cases.push(Case { events: s.clone(), src: *src, post, group: 0, causal: false });
            }
        }
    }
    // segment grouping: several events' deltas in one segment (keys of different shards, i.e. of independent
    // clocks, then share a segment, and recovery's segment order need not be the order of any one key's writes).
    // Sequences of exactly 4 local events over {SET k a, SET k b, APPEND k x, INCR n, HSET h f v, HSET h f v g w i x}, recovered from
    // sources that include segments, with the last two events in one segment or everything in one segment.
    let local_core = [0usize, 1, 2, 5, 4, 13];
    let mut l4: Vec<Vec<usize>> = vec![vec![]];
    for _ in 0..4 {
        l4 = l4.iter().flat_map(|s| local_core.iter().map(move |e| { let mut x = s.clone(); x.push(*e); x })).collect();
    }
    for s in &l4 {
        for src in sources.iter().flatten().filter(|s| s.segments) {
            for post in 0..POST.len() {
                for group in [1usize, 2] {
                    cases.push(Case { events: s.clone(), src: Some(*src), post, group, causal: false });
                }
            }
        }
    }
    // bulk: a recovery that has to replay hundreds of updates (of other keys) around the key's own two writes
    let bulk = EVENTS.iter().position(|e| *e == "L BULK 300").unwrap();
    let mut bulk_cases = 0u64;
    for evs in [vec![0usize, bulk, 1], vec![bulk, 0, 1], vec![0, 1, bulk]] {
        for src in sources.iter().flatten() {
            for post in [0usize, 1, 4] {
                for group in [0usize, 2] {
                    if group == 2 && !src.segments {
                        continue;
                    }
                    cases.push(Case { events: evs.clone(), src: Some(*src), post, group, causal: false });
                    bulk_cases += 1;
                }
            }
        }
    }
    // causal consistency level: every sequence of <= 2 (thorough 3) events, every source set, every post-restart write
    let causal_len = if thorough { 3 } else { 2 };
    let mut causal_cases = 0u64;
    for s in seqs.iter().filter(|s| s.len() <= causal_len) {
        for src in &sources {
            for post in 0..POST.len() {
                cases.push(Case { events: s.clone(), src: *src, post, group: 0, causal: true });
                causal_cases += 1;
            }
        }
    }
    let outcomes: std::sync::Mutex<BTreeMap<String, u64>> = Default::default();
    let n = AtomicU64::new(0);
    par::par_map(&cases, |_, case| {
        n.fetch_add(1, Ordering::Relaxed);
        match run_case(case) {
            Ok(o) => {
                *outcomes.lock().unwrap().entry(o).or_insert(0) += 1;
            }
            Err((sig, detail)) => rep.violation(sig, detail, case.json()),
        }
    });
    // ---- live WAL: every crash point of a running node with an always-fsync WAL and gossip
    let live_items: Vec<(usize, usize, usize)> = [1usize, 8].iter().flat_map(|g| (0..LIVE_CMDS.len()).flat_map(move |c| (0..POST.len()).map(move |p| (*g, c, p)))).filter(|(_, c, p)| LIVE_CMDS[*c].iter().any(|x| key_of(x) == key_of(POST[*p]))).collect();
    let live_images: u64 = par::par_map(&live_items, |_, (g, c, p)| match live_wal_case(*g, LIVE_CMDS[*c], POST[*p]) {
        Ok(n) => n,
        Err((sig, detail)) => {
            rep.violation(sig, detail, json!({"live_wal": true, "gce": g, "cmds": LIVE_CMDS[*c], "post": POST[*p]}));
            0
        }
    })
    .into_iter()
    .sum();
    let outcomes = outcomes.into_inner().unwrap();
    let checked = outcomes.get("checked").copied().unwrap_or(0);
    let coverage = json!({
        "evaluations": n.load(Ordering::Relaxed),
        "distinct_nontrivial": checked,
        "rule": "every sequence of <=3 events (thorough adds length 4 over 6 core events) over {8 local writes on a string key, a hash key (single- and three-field HSET, HDEL) and a counter; 7 remote deltas from replicas 2/3 with stamps small / equal to the local one / far ahead, incl. a remote delete and a remote hash} on a real ReplicatedShardedState, with a crash after the last event and recovery from each of the 7 non-empty subsets of {segments, checkpoint, WAL} (plus the no-crash variant), followed by each of 15 further writes (one per command of the replicated set: SET plain / EX / KEEPTTL, GETSET, APPEND, INCR, DECR, INCRBY, DECRBY, DEL, HSET, HDEL, HINCRBY); plus every sequence of exactly 4 local events over 6 core events (incl. a three-field HSET, which advances the stamp by 3) with the emitted deltas grouped into segments so that the last two events (or all events) share a segment; plus, on a node running with ConsistencyLevel::Causal (values carry vector clocks, which a restart does not restore), every sequence of <= 2 (thorough 3) events x every source set x every further write; plus bulk cases: the key's two writes with 300 writes of other keys before, between or after them, every source set, three further writes, one segment per event or a single segment; a case is non-trivial when the post-restart write produced a delta for a key the node had observed, so that all three oracles (stamp strictly greater; a peer holding the observed value serves the new one after merging; a second recovery serves the new one) were evaluated",
        "live_wal": {"cases": live_items.len(), "crash_points_with_something_sent": live_images,
            "rule": "a node wired with an always-fsync WalActor (group commit 1 / 8) and the gossip outbox runs 1-3 commands; the outbox is emptied towards a peer right before every WAL I/O call takes effect and after every reply; for every prefix of the I/O log: crash image, WAL recovery into a new node, one further write of the key: its stamp exceeds every stamp the peer was sent, and the peer serves it after merging"},
        "causal_consistency_cases": causal_cases,
        "bulk_recovery_cases": bulk_cases,
        "event_sequences": seqs.len(),
        "recovery_source_sets": sources.len(),
        "cases": cases.len(),
        "outcome_histogram": outcomes,
        "samples": [cases[cases.len() / 3].json(), cases[cases.len() - 1].json()],
        "exhaustive": true,
    });
    rep.finish(
        coverage,
        vec![
            "emitted deltas are persisted the way the server does it: one segment per event through StreamingPersistence, one fsynced WAL entry per delta, checkpoint = snapshot_state() at crash time installed with Manifest::compact_segments".into(),
            "recovery follows the server's start-up order: object store (checkpoint, segments) then WAL replay, both through apply_recovered_state".into(),
            "'observed' after a restart = what the recovery sources contain for the key (lost unsynced data is C09/C12's business)".into(),
        ],
    );
}
