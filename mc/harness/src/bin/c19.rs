//! C19 — key placement is a function of membership; selective gossip reaches every owner.
//!
//! Exhaustive enumeration on the real `HashRing`, `GossipRouter` and `GossipState::queue_deltas`:
//!   A. canonical placement table (members joined in ascending order) for every membership set
//!      (incl. the empty one) x (rf, vnodes) x key;
//!   B. every join order of every non-empty set through `HashRing::new(order, ..)`: identical ordered
//!      replica list for every key; length = min(rf, n), distinct members of the set;
//!   C. closure of ALL add_node/remove_node histories from the empty ring (BFS over the ring's complete
//!      private state as printed by its derived `Debug`, minus the write-only `version`): on every
//!      transition the placement equals the canonical one of the resulting set, the list shape holds and an
//!      effective add/remove of x leaves every key whose list does not contain x (after / before) unchanged;
//!   D. `get_replicas_with_rf(key, r)` on a ring with another default rf agrees with a ring configured rf=r;
//!   E. for every set x config x sender x batch: `route_deltas` (routers from `new` for every sender, from
//!      `from_config` for every replica id of the clusters {1..n}) and the messages queued by `queue_deltas`
//!      hand every delta to exactly get_replicas(key) \ {sender}; also after add_node/remove_node on the
//!      shared ring plus update_peer/remove_peer.
use redis_sim::redis::SDS;
use redis_sim::replication::{
    GossipRouter, GossipState, HashRing, LamportClock, ReplicaId, ReplicatedValue, ReplicationConfig, ReplicationDelta,
};
use serde_json::{json, Value};
use std::collections::{BTreeMap, BTreeSet, HashMap, HashSet};
use std::panic::{catch_unwind, AssertUnwindSafe};
use std::sync::{Arc, RwLock};
use vh::{cli, par, Reporter, Tier};

type Op = (bool, u64); // (true = add_node, false = remove_node), node id

// ---------------------------------------------------------------------------------------------
// small helpers
// ---------------------------------------------------------------------------------------------

/// Replica list packed: [0] = length (saturated), [1..8] = the first seven ids (saturated to 255).
#[derive(Clone, Copy, PartialEq, Eq, Hash, PartialOrd, Ord, Debug)]
struct PList([u8; 8]);

fn pack(v: &[ReplicaId]) -> PList {
    let mut a = [0u8; 8];
    a[0] = v.len().min(255) as u8;
    for (i, r) in v.iter().take(7).enumerate() {
        a[i + 1] = r.0.min(255) as u8;
    }
    PList(a)
}

impl PList {
    fn len(&self) -> usize {
        self.0[0] as usize
    }
    fn ids(&self) -> Vec<u64> {
        (0..self.len().min(7)).map(|i| self.0[i + 1] as u64).collect()
    }
    fn contains(&self, x: u64) -> bool {
        self.ids().contains(&x)
    }
}

fn members(mask: u32) -> Vec<u64> {
    (0..32).filter(|i| mask & (1 << i) != 0).map(|i| i as u64 + 1).collect()
}

fn mask_of(ids: &[u64]) -> u32 {
    ids.iter().fold(0, |m, x| m | (1 << (x - 1)))
}

fn rids(ids: &[u64]) -> Vec<ReplicaId> {
    ids.iter().map(|x| ReplicaId::new(*x)).collect()
}

fn table(ring: &HashRing, keys: &[String]) -> Vec<PList> {
    keys.iter().map(|k| pack(&ring.get_replicas(k))).collect()
}

fn apply(ring: &mut HashRing, op: Op) {
    if op.0 {
        ring.add_node(ReplicaId::new(op.1))
    } else {
        ring.remove_node(ReplicaId::new(op.1))
    }
}

fn apply_mask(mask: u32, op: Op) -> u32 {
    if op.0 {
        mask | (1 << (op.1 - 1))
    } else {
        mask & !(1 << (op.1 - 1))
    }
}

fn ops_json(ops: &[Op]) -> Value {
    Value::Array(ops.iter().map(|o| json!([if o.0 { "add" } else { "remove" }, o.1])).collect())
}

fn ops_from_json(v: &Value) -> Vec<Op> {
    v.as_array()
        .map(|a| a.iter().map(|o| (o[0].as_str() == Some("add"), o[1].as_u64().unwrap_or(0))).collect())
        .unwrap_or_default()
}

/// A remove op with id >= FORGET stands for "the router forgets the address of node id-FORGET while the ring
/// still lists it" (an address book lagging behind the ring).
const FORGET: u64 = 1000;
/// An add op with id >= KNOWN stands for "the routers were constructed with the address of node id-KNOWN while the ring
/// did not list it yet (the address book of the planned cluster); then the node joins the shared ring and nobody calls
/// update_peer" (an address book ahead of the ring).
const KNOWN: u64 = 2000;

fn show_ops(ops: &[Op]) -> String {
    ops.iter()
        .map(|o| if o.1 >= KNOWN { format!("address-known-at-construction-then-join({})", o.1 - KNOWN) } else if o.1 >= FORGET { format!("forget-address({})", o.1 - FORGET) } else { format!("{}({})", if o.0 { "add" } else { "remove" }, o.1) })
        .collect::<Vec<_>>()
        .join(",")
}

fn permutations(items: &[u64]) -> Vec<Vec<u64>> {
    if items.len() <= 1 {
        return vec![items.to_vec()];
    }
    let mut out = Vec::new();
    for i in 0..items.len() {
        let mut rest = items.to_vec();
        let x = rest.remove(i);
        for mut p in permutations(&rest) {
            p.insert(0, x);
            out.push(p);
        }
    }
    out
}

/// Fixed key set: several naming shapes, degenerate and long keys; first `n` of a deterministic stream.
fn key_set(n: usize) -> Vec<String> {
    let mut v: Vec<String> = vec![
        "".into(),
        "a".into(),
        "b".into(),
        "key".into(),
        "test_key".into(),
        "my_key".into(),
        " ".into(),
        "\u{0}".into(),
        "k\u{0}1".into(),
        "ключ".into(),
        "鍵".into(),
        "x".repeat(1000),
        "y".repeat(4096),
        "{tag}".into(),
    ];
    let mut i = 0usize;
    while v.len() < n {
        v.push(format!("key_{i}"));
        v.push(format!("key{i}"));
        v.push(format!("user:{i}:profile"));
        v.push(format!("{{tag{}}}:item:{i}", i % 7));
        v.push(format!("{i}"));
        i += 1;
    }
    v.truncate(n);
    let set: BTreeSet<&String> = v.iter().collect();
    assert_eq!(set.len(), v.len(), "key set must be duplicate free");
    v
}

#[derive(Clone, Copy, Debug, PartialEq, Eq)]
struct Cfg {
    rf: usize,
    v: u32,
}

#[derive(Default)]
struct Acc {
    evals: u64,
    nontrivial: u64,
    find: BTreeMap<String, (u64, String, Value)>,
    lists: BTreeSet<PList>,
    extra: BTreeMap<&'static str, u64>,
}

impl Acc {
    fn hit(&mut self, sig: String, mk: impl FnOnce() -> (String, Value)) {
        match self.find.get_mut(&sig) {
            Some(e) => e.0 += 1,
            None => {
                let (d, r) = mk();
                self.find.insert(sig, (1, d, r));
            }
        }
    }
    fn count(&mut self, k: &'static str, n: u64) {
        *self.extra.entry(k).or_insert(0) += n;
    }
    fn merge(&mut self, o: Acc) {
        self.evals += o.evals;
        self.nontrivial += o.nontrivial;
        for (s, (c, d, r)) in o.find {
            match self.find.get_mut(&s) {
                Some(e) => e.0 += c,
                None => {
                    self.find.insert(s, (c, d, r));
                }
            }
        }
        self.lists.extend(o.lists);
        for (k, n) in o.extra {
            *self.extra.entry(k).or_insert(0) += n;
        }
    }
}

// ---------------------------------------------------------------------------------------------
// list level oracles (shared by the sweep and the replay)
// ---------------------------------------------------------------------------------------------

/// Shape: exactly min(rf, n) distinct members of the membership set.
fn check_list(l: PList, mask: u32, rf: usize) -> Option<(String, String)> {
    let n = mask.count_ones() as usize;
    let exp = rf.min(n);
    let class = if rf < n {
        "rf<n"
    } else if rf == n {
        "rf=n"
    } else {
        "rf>n"
    };
    if l.len() != exp {
        let kind = if l.len() < exp { "short" } else { "long" };
        return Some((
            format!("ring replica-list length {kind} {class}"),
            format!("list {:?} has {} entries, expected min(rf={rf}, n={n}) = {exp}", l.ids(), l.len()),
        ));
    }
    let ids = l.ids();
    let set: BTreeSet<u64> = ids.iter().copied().collect();
    if set.len() != ids.len() {
        return Some((format!("ring replica-list duplicate member {class}"), format!("list {:?} repeats a node", ids)));
    }
    if ids.iter().any(|x| *x == 0 || *x > 32 || mask & (1 << (x - 1)) == 0) {
        return Some((
            format!("ring replica-list non-member {class}"),
            format!("list {:?} names a node outside the membership {:?}", ids, members(mask)),
        ));
    }
    None
}

/// Minimal disruption for one key across an effective membership change of node x.
fn check_disruption(before: PList, after: PList, op: Op) -> Option<(String, String)> {
    let x = op.1;
    if op.0 {
        if !after.contains(x) && after != before {
            return Some((
                "ring add_node moved a key that did not gain the node".into(),
                format!("add_node({x}): list {:?} -> {:?} although the new list does not contain {x}", before.ids(), after.ids()),
            ));
        }
    } else if !before.contains(x) && after != before {
        return Some((
            "ring remove_node moved a key that did not hold the node".into(),
            format!("remove_node({x}): list {:?} -> {:?} although the old list did not contain {x}", before.ids(), after.ids()),
        ));
    }
    None
}

fn history_class(ops: &[Op]) -> &'static str {
    if ops.iter().all(|o| o.0) {
        "add-only history"
    } else {
        "add/remove history"
    }
}

fn canonical_ring(mask: u32, c: Cfg) -> HashRing {
    HashRing::new(rids(&members(mask)), c.v, c.rf)
}

/// All ring-level findings of one concrete case (used by --replay; the sweep evaluates the same predicates
/// in bulk). `order`: members handed to `HashRing::new`; `ops`: history applied afterwards.
fn ring_case(order: &[u64], ops: &[Op], c: Cfg, key: &str, verbose: bool) -> Vec<(String, String)> {
    let mut out = Vec::new();
    let mut ring = HashRing::new(rids(order), c.v, c.rf);
    let mut mask = mask_of(order);
    let mut before = pack(&ring.get_replicas(key));
    let mut last: Option<(Op, u32)> = None;
    for (i, op) in ops.iter().enumerate() {
        if i + 1 == ops.len() {
            before = pack(&ring.get_replicas(key));
            last = Some((*op, mask));
        }
        apply(&mut ring, *op);
        mask = apply_mask(mask, *op);
    }
    let got = pack(&ring.get_replicas(key));
    let canon = pack(&canonical_ring(mask, c).get_replicas(key));
    if verbose {
        println!(
            "ring new({:?}, vnodes={}, rf={}) then [{}] -> membership {:?}",
            order,
            c.v,
            c.rf,
            show_ops(ops),
            members(mask)
        );
        println!("get_replicas({key:?}) = {:?}; ring joined in ascending order gives {:?}", got.ids(), canon.ids());
    }
    if got != canon {
        let via = if ops.is_empty() { "join order (HashRing::new)" } else { history_class(ops) };
        out.push((
            format!("ring placement depends on {via}"),
            format!("{:?} vs canonical {:?}", got.ids(), canon.ids()),
        ));
    }
    if let Some(f) = check_list(got, mask, c.rf) {
        out.push(f);
    }
    if let Some((op, m0)) = last {
        if apply_mask(m0, op) != m0 {
            if let Some(f) = check_disruption(before, got, op) {
                out.push(f);
            }
        }
    }
    out
}

// ---------------------------------------------------------------------------------------------
// stage B: join orders
// ---------------------------------------------------------------------------------------------

fn stage_orders(c: Cfg, order: &[u64], keys: &[String], canon: &[PList]) -> Acc {
    let mut acc = Acc::default();
    let mask = mask_of(order);
    let ring = HashRing::new(rids(order), c.v, c.rf);
    let n = order.len();
    for (ki, k) in keys.iter().enumerate() {
        let l = pack(&ring.get_replicas(k));
        acc.evals += 1;
        if n >= 2 && c.rf < n {
            acc.nontrivial += 1;
        }
        acc.lists.insert(l);
        if l != canon[ki] {
            acc.hit("ring placement depends on join order (HashRing::new)".into(), || {
                (
                    format!(
                        "members joined as {:?} (vnodes={}, rf={}): get_replicas({:?}) = {:?}, joined in ascending order: {:?}",
                        order,
                        c.v,
                        c.rf,
                        k,
                        l.ids(),
                        canon[ki].ids()
                    ),
                    json!({"check": "ring", "order": order, "ops": [], "rf": c.rf, "vnodes": c.v, "key": k}),
                )
            });
        }
        if let Some((sig, d)) = check_list(l, mask, c.rf) {
            acc.hit(sig, || {
                (
                    format!("members joined as {:?} (vnodes={}, rf={}), key {:?}: {}", order, c.v, c.rf, k, d),
                    json!({"check": "ring", "order": order, "ops": [], "rf": c.rf, "vnodes": c.v, "key": k}),
                )
            });
        }
    }
    acc
}

// ---------------------------------------------------------------------------------------------
// stage C: closure of add/remove histories
// ---------------------------------------------------------------------------------------------

fn fingerprint(ring: &HashRing) -> Result<(u64, u64), String> {
    let s = format!("{:?}", ring);
    let cut = s
        .rfind(", version: ")
        .ok_or_else(|| "HashRing Debug output has no trailing `version` field; fingerprint unusable".to_string())?;
    let mut h1: u64 = 0xcbf29ce484222325;
    let mut h2: u64 = 0x9E3779B97F4A7C15;
    for b in &s.as_bytes()[..cut] {
        h1 ^= *b as u64;
        h1 = h1.wrapping_mul(0x100000001b3);
        h2 = (h2.rotate_left(5) ^ *b as u64).wrapping_mul(0xff51afd7ed558ccd);
    }
    Ok((h1, h2))
}

struct Closure {
    acc: Acc,
    states: u64,
    transitions: u64,
    effective_transitions: u64,
    depth_completed: usize,
    converged: bool,
}

enum ClErr {
    Machinery(String),
    Panic(String, Vec<Op>),
}

type Succ = (HashRing, u32, Vec<Op>, (u64, u64));

/// Expand one state: every op, oracle on every transition; successors not yet in `seen` are returned.
fn expand_state(
    c: Cfg,
    ops: &[Op],
    keys: &[String],
    canon: &[Vec<PList>],
    seen: &HashSet<((u64, u64), u32)>,
    ring: &HashRing,
    mask: u32,
    hist: &[Op],
) -> Result<(Acc, Vec<Succ>, u64), String> {
    let mut acc = Acc::default();
    let mut succ: Vec<Succ> = Vec::new();
    let mut effective = 0u64;
    let before = table(ring, keys);
    for op in ops {
        let mut r2 = ring.clone();
        apply(&mut r2, *op);
        let mask2 = apply_mask(mask, *op);
        let eff = mask2 != mask;
        if eff {
            effective += 1;
        }
        let n2 = mask2.count_ones() as usize;
        let cn = &canon[mask2 as usize];
        let mk_hist = || {
            let mut h = hist.to_vec();
            h.push(*op);
            h
        };
        for (ki, k) in keys.iter().enumerate() {
            let l = pack(&r2.get_replicas(k));
            acc.evals += 1;
            if n2 >= 2 && c.rf < n2 {
                acc.nontrivial += 1;
            }
            if l != cn[ki] {
                let h = mk_hist();
                acc.hit(format!("ring placement depends on {}", history_class(&h)), || {
                    (
                        format!(
                            "empty ring (vnodes={}, rf={}) after [{}] (membership {:?}): get_replicas({:?}) = {:?}, ring joined in ascending order: {:?}",
                            c.v,
                            c.rf,
                            show_ops(&h),
                            members(mask2),
                            k,
                            l.ids(),
                            cn[ki].ids()
                        ),
                        json!({"check": "ring", "order": [], "ops": ops_json(&h), "rf": c.rf, "vnodes": c.v, "key": k}),
                    )
                });
            }
            if let Some((sig, d)) = check_list(l, mask2, c.rf) {
                let h = mk_hist();
                acc.hit(sig, || {
                    (
                        format!("empty ring (vnodes={}, rf={}) after [{}], key {:?}: {}", c.v, c.rf, show_ops(&h), k, d),
                        json!({"check": "ring", "order": [], "ops": ops_json(&h), "rf": c.rf, "vnodes": c.v, "key": k}),
                    )
                });
            }
            if eff {
                if let Some((sig, d)) = check_disruption(before[ki], l, *op) {
                    let h = mk_hist();
                    acc.hit(sig, || {
                        (
                            format!("empty ring (vnodes={}, rf={}) after [{}], key {:?}: {}", c.v, c.rf, show_ops(&h), k, d),
                            json!({"check": "ring", "order": [], "ops": ops_json(&h), "rf": c.rf, "vnodes": c.v, "key": k}),
                        )
                    });
                }
            }
        }
        let f = fingerprint(&r2)?;
        if !seen.contains(&(f, mask2)) {
            succ.push((r2, mask2, mk_hist(), f));
        }
    }
    Ok((acc, succ, effective))
}

/// Breadth-first closure; each level is expanded in parallel, successors are merged in frontier order.
fn stage_closure(c: Cfg, universe: u64, keys: &[String], canon: &[Vec<PList>], state_cap: u64) -> Result<Closure, ClErr> {
    let ops: Vec<Op> = (1..=universe).flat_map(|x| [(true, x), (false, x)]).collect();
    let mut acc = Acc::default();
    let start = catch_unwind(|| HashRing::new(vec![], c.v, c.rf)).map_err(|p| ClErr::Panic(vh::panic_text(&p), vec![]))?;
    let mut seen: HashSet<((u64, u64), u32)> = HashSet::new();
    seen.insert((fingerprint(&start).map_err(ClErr::Machinery)?, 0));
    let mut frontier: Vec<(HashRing, u32, Vec<Op>)> = vec![(start, 0, vec![])];
    let (mut states, mut transitions, mut effective) = (1u64, 0u64, 0u64);
    let mut depth = 0usize;
    let max_depth = 2 * universe as usize + 2;
    let mut capped = false;
    while !frontier.is_empty() && depth < max_depth && !capped {
        let seen_ref = &seen;
        let ops_ref = &ops;
        let results = par::par_map(&frontier, |_, (ring, mask, hist)| {
            match catch_unwind(AssertUnwindSafe(|| expand_state(c, ops_ref, keys, canon, seen_ref, ring, *mask, hist))) {
                Ok(Ok(r)) => Ok(r),
                Ok(Err(m)) => Err(ClErr::Machinery(m)),
                Err(p) => Err(ClErr::Panic(format!("expanding the state after [{}]: {}", show_ops(hist), vh::panic_text(&p)), hist.clone())),
            }
        });
        let mut next = Vec::new();
        for r in results {
            let (a, succ, eff) = r?;
            transitions += ops.len() as u64;
            effective += eff;
            acc.merge(a);
            for (r2, mask2, h, f) in succ {
                if seen.insert((f, mask2)) {
                    states += 1;
                    if states > state_cap {
                        capped = true;
                    } else {
                        next.push((r2, mask2, h));
                    }
                }
            }
        }
        if !capped {
            depth += 1;
        }
        frontier = next;
    }
    Ok(Closure {
        acc,
        states,
        transitions,
        effective_transitions: effective,
        depth_completed: depth,
        converged: frontier.is_empty() && !capped,
    })
}

// ---------------------------------------------------------------------------------------------
// stage E: routing
// ---------------------------------------------------------------------------------------------

fn addr(id: u64) -> String {
    format!("10.0.0.{id}:7000")
}

fn repl_config(sender: u64, peer_ids: &[u64], c: Cfg) -> ReplicationConfig {
    ReplicationConfig::new_partitioned_cluster(sender, peer_ids.iter().map(|p| addr(*p)).collect(), c.rf).with_virtual_nodes(c.v)
}

fn mk_router(ctor: &str, ring: &Arc<RwLock<HashRing>>, sender: u64, peer_ids: &[u64], c: Cfg) -> GossipRouter {
    if ctor == "from_config" {
        GossipRouter::from_config(&repl_config(sender, peer_ids, c), ring.clone())
    } else {
        let peers: HashMap<ReplicaId, String> = peer_ids.iter().map(|p| (ReplicaId::new(*p), addr(*p))).collect();
        GossipRouter::new(ring.clone(), ReplicaId::new(sender), peers, true)
    }
}

struct Env {
    ctor: String,
    cfg: Cfg,
    ring: Arc<RwLock<HashRing>>,
    router: GossipRouter,
    state: GossipState,
    sender: u64,
    peer_ids: Vec<u64>,
    changed: bool,
}

/// A sender with a router and a GossipState over a ring of `members` (joined in ascending order).
/// ctor "new": `GossipRouter::new` with the addresses of all other members, state by `with_router`;
/// ctor "from_config": `GossipRouter::from_config` with `ReplicationConfig::new_partitioned_cluster(sender,
/// addresses of the other members in id order, rf)`, state by `GossipState::new` + `set_router`.
fn build_env(ctor: &str, mem: &[u64], c: Cfg, sender: u64) -> Env {
    let ring = Arc::new(RwLock::new(HashRing::new(rids(mem), c.v, c.rf)));
    let peer_ids: Vec<u64> = mem.iter().copied().filter(|m| *m != sender).collect();
    let router = mk_router(ctor, &ring, sender, &peer_ids, c);
    let config = repl_config(sender, &peer_ids, c);
    let state = if ctor == "from_config" {
        let mut s = GossipState::new(config);
        s.set_router(mk_router(ctor, &ring, sender, &peer_ids, c));
        s
    } else {
        GossipState::with_router(config, mk_router(ctor, &ring, sender, &peer_ids, c))
    };
    Env {
        ctor: ctor.to_string(),
        cfg: c,
        ring,
        router,
        state,
        sender,
        peer_ids,
        changed: false,
    }
}

/// Membership change on the shared ring, followed by the router's dynamic-membership calls
/// (`update_peer` / `remove_peer`; the state's private router is replaced through `set_router`).
fn env_change(env: &mut Env, op: Op) {
    if op.1 >= KNOWN {
        let x = op.1 - KNOWN;
        let mut peers = env.peer_ids.clone();
        if !peers.contains(&x) {
            peers.push(x);
            peers.sort();
        }
        // both routers are constructed while the ring does not list x ...
        env.router = mk_router("new", &env.ring, env.sender, &peers, env.cfg);
        let r = mk_router("new", &env.ring, env.sender, &peers, env.cfg);
        env.state.set_router(r);
        env.peer_ids = peers;
        // ... then x joins the shared ring; no update_peer follows (the address is known already)
        let mut w = env.ring.write().expect("ring lock");
        apply(&mut w, (true, x));
        drop(w);
        env.changed = true;
        return;
    }
    if op.1 >= FORGET {
        let x = op.1 - FORGET;
        env.router.remove_peer(ReplicaId::new(x));
        env.peer_ids.retain(|p| *p != x);
        let r = mk_router("new", &env.ring, env.sender, &env.peer_ids, env.cfg);
        env.state.set_router(r);
        env.changed = true;
        return;
    }
    {
        let mut w = env.ring.write().expect("ring lock");
        apply(&mut w, op);
    }
    if op.1 != env.sender {
        if op.0 {
            env.router.update_peer(ReplicaId::new(op.1), addr(op.1));
            if !env.peer_ids.contains(&op.1) {
                env.peer_ids.push(op.1);
                env.peer_ids.sort();
            }
        } else {
            env.router.remove_peer(ReplicaId::new(op.1));
            env.peer_ids.retain(|p| *p != op.1);
        }
    }
    let r = mk_router("new", &env.ring, env.sender, &env.peer_ids, env.cfg);
    env.state.set_router(r);
    env.changed = true;
}

fn mk_deltas(batch: &[&str], sender: u64) -> Vec<ReplicationDelta> {
    batch
        .iter()
        .enumerate()
        .map(|(i, k)| {
            let ts = LamportClock {
                time: i as u64,
                replica_id: ReplicaId::new(sender),
            };
            ReplicationDelta::new(
                k.to_string(),
                ReplicatedValue::with_value(SDS::from_str(&i.to_string()), ts),
                ReplicaId::new(sender),
            )
        })
        .collect()
}

struct BatchResult {
    findings: Vec<(String, String)>, // (kind, detail)
    nontrivial: bool,
    duplicates: u64,
    target_sets: Vec<Vec<u64>>,
}

/// Hand one batch to `api` ("route_deltas" | "queue_deltas") and compare, delta by delta, the set of
/// recipients with get_replicas(key) of the router's own ring minus the sender.
fn eval_batch(env: &mut Env, api: &str, batch: &[&str]) -> BatchResult {
    let sender = env.sender;
    let expected: Vec<BTreeSet<u64>> = {
        let ring = env.ring.read().expect("ring lock");
        batch
            .iter()
            // an owner the router has no address for cannot be handed anything; every other owner must be
            .map(|k| ring.get_replicas(k).into_iter().map(|r| r.0).filter(|r| *r != sender && env.peer_ids.contains(r)).collect())
            .collect()
    };
    let all_peers: BTreeSet<u64> = {
        let ring = env.ring.read().expect("ring lock");
        ring.nodes().iter().map(|r| r.0).filter(|r| *r != sender).collect()
    };
    let nontrivial = expected.iter().any(|e| !e.is_empty() && *e != all_peers);
    let deltas = mk_deltas(batch, sender);
    let mut findings: Vec<(String, String)> = Vec::new();
    let mut delivered: BTreeMap<u64, Vec<(usize, String)>> = BTreeMap::new();
    let ident = |ds: Vec<ReplicationDelta>| -> Vec<(usize, String)> { ds.into_iter().map(|d| (d.value.timestamp.time as usize, d.key)).collect() };
    if api == "route_deltas" {
        match catch_unwind(AssertUnwindSafe(|| env.router.route_deltas(deltas))) {
            Ok(t) => {
                for (target, ds) in t {
                    if env.router.get_peer_address(target) != Some(&addr(target.0)) {
                        findings.push((
                            "wrong-address".into(),
                            format!(
                                "target {} resolves to address {:?}, the cluster's address of that replica is {}",
                                target.0,
                                env.router.get_peer_address(target),
                                addr(target.0)
                            ),
                        ));
                    }
                    delivered.entry(target.0).or_default().extend(ident(ds));
                }
            }
            Err(p) => findings.push(("panic".into(), format!("route_deltas panicked: {}", vh::panic_text(&p)))),
        }
    } else {
        let st = &mut env.state;
        match catch_unwind(AssertUnwindSafe(|| {
            st.queue_deltas(deltas);
            st.drain_outbound()
        })) {
            Ok(msgs) => {
                for m in msgs {
                    let is_delta = m.message.is_delta_message();
                    match m.target {
                        Some(t) => {
                            if let Some(ds) = m.message.into_deltas() {
                                delivered.entry(t.0).or_default().extend(ident(ds));
                            }
                        }
                        None => {
                            if is_delta {
                                let n = m.message.into_deltas().map(|d| d.len()).unwrap_or(0);
                                findings.push((
                                    "broadcast-in-selective-mode".into(),
                                    format!("queue_deltas queued an untargeted DeltaBatch with {n} deltas (goes to every configured peer)"),
                                ));
                            }
                        }
                    }
                }
            }
            Err(p) => findings.push(("panic".into(), format!("queue_deltas/drain_outbound panicked: {}", vh::panic_text(&p)))),
        }
    }
    let mut got: Vec<BTreeSet<u64>> = vec![BTreeSet::new(); batch.len()];
    let mut duplicates = 0u64;
    for (t, ds) in &delivered {
        for (id, key) in ds {
            if *id >= batch.len() || batch[*id] != key.as_str() {
                findings.push((
                    "unknown-delta".into(),
                    format!("replica {t} was handed a delta (#{id}, key {key:?}) that is not in the batch"),
                ));
                continue;
            }
            if !got[*id].insert(*t) {
                duplicates += 1;
            }
        }
    }
    for i in 0..batch.len() {
        if got[i].contains(&sender) {
            findings.push((
                "sent-to-sender".into(),
                format!("delta #{i} key {:?} was handed to the sender {sender} itself", batch[i]),
            ));
        }
        let extra: Vec<u64> = got[i].iter().copied().filter(|t| *t != sender && !expected[i].contains(t)).collect();
        if !extra.is_empty() {
            findings.push((
                "extra-recipient".into(),
                format!(
                    "delta #{i} key {:?}: handed to {:?} which are not in get_replicas minus sender = {:?}",
                    batch[i], extra, expected[i]
                ),
            ));
        }
        let missing: Vec<u64> = expected[i].iter().copied().filter(|t| !got[i].contains(t)).collect();
        if !missing.is_empty() {
            findings.push((
                "missing-owner".into(),
                format!(
                    "delta #{i} key {:?}: owners {:?} (get_replicas minus sender {sender}) but handed only to {:?}; {:?} never get it",
                    batch[i], expected[i], got[i], missing
                ),
            ));
        }
    }
    // one finding per kind (first delta showing it)
    let mut seen = BTreeSet::new();
    findings.retain(|(k, _)| seen.insert(k.clone()));
    let mut target_sets: Vec<Vec<u64>> = got.iter().map(|s| s.iter().copied().collect()).collect();
    target_sets.sort();
    target_sets.dedup();
    BatchResult {
        findings,
        nontrivial,
        duplicates,
        target_sets,
    }
}

fn route_sig(api: &str, ctor: &str, changed: bool, kind: &str) -> String {
    format!(
        "{api} router={ctor}{} {kind}",
        if changed { " after-ring-change" } else { "" }
    )
}

fn env_desc(env: &Env, mem0: &[u64], dyn_ops: &[Op]) -> String {
    let mut peer_ids: Vec<u64> = env.router.peer_ids().map(|r| r.0).collect();
    peer_ids.sort();
    format!(
        "ring of {:?} (vnodes={}, rf={}){}; sender {} with GossipRouter::{} (router's peer ids: {:?})",
        mem0,
        env.cfg.v,
        env.cfg.rf,
        if dyn_ops.is_empty() { String::new() } else { format!(" then [{}] + update_peer/remove_peer", show_ops(dyn_ops)) },
        env.sender,
        env.ctor,
        peer_ids
    )
}

fn route_replay(env: &Env, mem0: &[u64], dyn_ops: &[Op], api: &str, batch: &[&str]) -> Value {
    json!({"check": "route", "ctor": env.ctor, "api": api, "members": mem0, "rf": env.cfg.rf, "vnodes": env.cfg.v,
           "sender": env.sender, "dyn": ops_json(dyn_ops), "batch": batch})
}

/// Batches: empty, every single key, every sequence of length 2 and 3 over the first `small` keys
/// (repeats included), the whole key set at once.
fn batches<'a>(keys: &'a [String], small: usize) -> Vec<Vec<&'a str>> {
    let mut out: Vec<Vec<&str>> = vec![vec![]];
    for k in keys {
        out.push(vec![k.as_str()]);
    }
    let s: Vec<&str> = keys.iter().take(small).map(|k| k.as_str()).collect();
    for a in &s {
        for b in &s {
            out.push(vec![a, b]);
            for c in &s {
                out.push(vec![a, b, c]);
            }
        }
    }
    out.push(keys.iter().map(|k| k.as_str()).collect());
    out
}

fn run_batches(env: &mut Env, mem0: &[u64], dyn_ops: &[Op], bs: &[Vec<&str>], acc: &mut Acc, tsets: &mut BTreeSet<Vec<u64>>) {
    for api in ["route_deltas", "queue_deltas"] {
        for b in bs {
            let r = eval_batch(env, api, b);
            acc.evals += 1;
            acc.count("route_cases", 1);
            acc.count("deltas_routed", b.len() as u64);
            if r.nontrivial {
                acc.nontrivial += 1;
                acc.count("route_cases_nontrivial", 1);
            }
            acc.count("duplicate_deliveries", r.duplicates);
            tsets.extend(r.target_sets);
            for (kind, d) in r.findings {
                let sig = route_sig(api, &env.ctor, env.changed, &kind);
                acc.hit(sig, || {
                    (
                        format!("{}; {api}(batch of {} deltas): {}", env_desc(env, mem0, dyn_ops), b.len(), d),
                        route_replay(env, mem0, dyn_ops, api, b),
                    )
                });
            }
        }
    }
}

fn stage_route(c: Cfg, mask: u32, universe: u64, keys: &[String], small: usize, dyn_singles: usize) -> (Acc, BTreeSet<Vec<u64>>) {
    let mut acc = Acc::default();
    let mut tsets = BTreeSet::new();
    let mem = members(mask);
    let bs = batches(keys, small);
    // used after membership changes: empty, the first `dyn_singles` single-key batches, the whole key set
    let mut bs_dyn: Vec<Vec<&str>> = vec![vec![]];
    bs_dyn.extend(keys.iter().take(dyn_singles).map(|k| vec![k.as_str()]));
    bs_dyn.push(keys.iter().map(|k| k.as_str()).collect());
    for sender in 1..=universe {
        // router by `new`: every sender, member of the ring or not
        let mut env = build_env("new", &mem, c, sender);
        run_batches(&mut env, &mem, &[], &bs, &mut acc, &mut tsets);
        // dynamic membership: one node joins / leaves the shared ring, peers updated
        for x in 1..=universe {
            if x == sender {
                continue;
            }
            let op: Op = (mask & (1 << (x - 1)) == 0, x);
            if !op.0 && mem.len() == 1 {
                continue; // would leave an empty ring: nothing to route
            }
            let mut env = build_env("new", &mem, c, sender);
            env_change(&mut env, op);
            run_batches(&mut env, &mem, &[op], &bs_dyn, &mut acc, &mut tsets);
        }
        // address book ahead of the ring: the routers were built knowing the address of a node that joins the ring later
        for x in 1..=universe {
            if x == sender || mask & (1 << (x - 1)) != 0 {
                continue;
            }
            let op: Op = (true, KNOWN + x);
            let mut env = build_env("new", &mem, c, sender);
            env_change(&mut env, op);
            acc.count("address_known_before_join_routers", 1);
            run_batches(&mut env, &mem, &[op], &bs_dyn, &mut acc, &mut tsets);
        }
        // address book lagging behind the ring: the router no longer knows one member's address
        for &x in &mem {
            if x == sender || mem.len() < 3 {
                continue;
            }
            let op: Op = (false, FORGET + x);
            let mut env = build_env("new", &mem, c, sender);
            env_change(&mut env, op);
            acc.count("forgotten_address_routers", 1);
            run_batches(&mut env, &mem, &[op], &bs_dyn, &mut acc, &mut tsets);
        }
    }
    // router by `from_config`: its own stated convention is "peer ids sequential from 1, excluding self",
    // i.e. clusters {1..n}; every replica id of such a cluster
    let n = mem.len() as u64;
    if mask == (1u32 << n) - 1 {
        for sender in 1..=n {
            let mut env = build_env("from_config", &mem, c, sender);
            acc.count("from_config_routers", 1);
            run_batches(&mut env, &mem, &[], &bs, &mut acc, &mut tsets);
        }
    }
    (acc, tsets)
}

// ---------------------------------------------------------------------------------------------
// replay
// ---------------------------------------------------------------------------------------------

/// Ring cases over arbitrary node ids (the mask-based stages use ids 1..=7): the ring built by `HashRing::new(order)`
/// followed by `ops` must place `key` like the ring of the same members joined in ascending id order, with
/// min(rf, n) distinct members.
fn ring_case_ids(order: &[u64], ops: &[Op], c: Cfg, key: &str) -> Vec<(String, String)> {
    let mut out = Vec::new();
    let mut ring = HashRing::new(rids(order), c.v, c.rf);
    let mut members: BTreeSet<u64> = order.iter().copied().collect();
    for op in ops {
        apply(&mut ring, *op);
        if op.0 {
            members.insert(op.1);
        } else {
            members.remove(&op.1);
        }
    }
    let asc: Vec<u64> = members.iter().copied().collect();
    let got: Vec<u64> = ring.get_replicas(key).iter().map(|r| r.0).collect();
    let canon: Vec<u64> = HashRing::new(rids(&asc), c.v, c.rf).get_replicas(key).iter().map(|r| r.0).collect();
    if got != canon {
        let via = if ops.is_empty() { "join order (HashRing::new)" } else { history_class(ops) };
        out.push((format!("ring placement depends on {via}"), format!("members {:?} joined as {:?} then [{}]: get_replicas({key:?}) = {:?}, joined in ascending order: {:?}", asc, order, show_ops(ops), got, canon)));
    }
    let exp = c.rf.min(asc.len());
    let distinct: BTreeSet<u64> = got.iter().copied().collect();
    if got.len() != exp || distinct.len() != got.len() || got.iter().any(|x| !members.contains(x)) {
        out.push((format!("ring replica-list malformed (unusual ids)"), format!("members {:?} rf={}: get_replicas({key:?}) = {:?}", asc, c.rf, got)));
    }
    out
}

fn replay(r: &Value, path: &std::path::Path) -> ! {
    let c = Cfg {
        rf: r["rf"].as_u64().unwrap_or(3) as usize,
        v: r["vnodes"].as_u64().unwrap_or(150) as u32,
    };
    let ids = |v: &Value| -> Vec<u64> { v.as_array().map(|a| a.iter().filter_map(|x| x.as_u64()).collect()).unwrap_or_default() };
    let mut found: Vec<(String, String)> = Vec::new();
    match r["check"].as_str() {
        Some("ring") => {
            let order = ids(&r["order"]);
            let ops = ops_from_json(&r["ops"]);
            // a single key, or (cases recorded for a panic) the whole key set of that run
            let ks: Vec<String> = match r["nkeys"].as_u64() {
                Some(n) => key_set(n as usize),
                None => vec![r["key"].as_str().unwrap_or("").to_string()],
            };
            for (i, key) in ks.iter().enumerate() {
                match catch_unwind(|| ring_case(&order, &ops, c, key, i == 0)) {
                    Ok(f) => found.extend(f),
                    Err(p) => found.push(("ring panic while building/looking up a ring".into(), format!("key {key:?}: {}", vh::panic_text(&p)))),
                }
            }
            let mut seen = BTreeSet::new();
            found.retain(|(k, _)| seen.insert(k.clone()));
        }
        Some("ring-ids") => {
            let order = ids(&r["order"]);
            let ops = ops_from_json(&r["ops"]);
            let key = r["key"].as_str().unwrap_or("");
            println!("ring new({:?}, vnodes={}, rf={}) then [{}], key {key:?}", order, c.v, c.rf, show_ops(&ops));
            match catch_unwind(|| ring_case_ids(&order, &ops, c, key)) {
                Ok(f) => found.extend(f),
                Err(p) => found.push(("ring panic while building/looking up a ring".into(), vh::panic_text(&p))),
            }
            for (_, d) in &found {
                println!("{d}");
            }
        }
        Some("ring-successors") => {
            // the state reached by `ops` from the empty ring, expanded by every add/remove, all keys
            let ops = ops_from_json(&r["ops"]);
            let universe = r["universe"].as_u64().unwrap_or(5);
            let keys = key_set(r["nkeys"].as_u64().unwrap_or(500) as usize);
            let res = catch_unwind(|| {
                let canon: Vec<Vec<PList>> = (0..(1u32 << universe)).map(|m| table(&canonical_ring(m, c), &keys)).collect();
                let mut ring = HashRing::new(vec![], c.v, c.rf);
                let mut mask = 0;
                for op in &ops {
                    apply(&mut ring, *op);
                    mask = apply_mask(mask, *op);
                }
                let all: Vec<Op> = (1..=universe).flat_map(|x| [(true, x), (false, x)]).collect();
                expand_state(c, &all, &keys, &canon, &HashSet::new(), &ring, mask, &ops)
            });
            println!("empty ring (vnodes={}, rf={}) after [{}], then every add_node/remove_node over 1..{universe}, {} keys", c.v, c.rf, show_ops(&ops), keys.len());
            match res {
                Ok(Ok((acc, _, _))) => {
                    for (sig, (_, d, _)) in acc.find {
                        found.push((sig, d));
                    }
                }
                Ok(Err(m)) => {
                    eprintln!("MACHINERY-FAILURE property=C19 {m}");
                    std::process::exit(2);
                }
                Err(p) => found.push(("ring panic while building/looking up a ring".into(), vh::panic_text(&p))),
            }
        }
        Some("with_rf") => {
            let mem = ids(&r["members"]);
            let key = r["key"].as_str().unwrap_or("");
            let default_rf = r["default_rf"].as_u64().unwrap_or(3) as usize;
            let a = HashRing::new(rids(&mem), c.v, default_rf).get_replicas_with_rf(key, c.rf);
            let b = HashRing::new(rids(&mem), c.v, c.rf).get_replicas(key);
            println!("members {:?} vnodes={}: get_replicas_with_rf({key:?}, {}) on a ring with default rf {default_rf} = {:?}; get_replicas on a ring with rf {} = {:?}", mem, c.v, c.rf, a, c.rf, b);
            if a != b {
                found.push(("ring get_replicas_with_rf differs from ring configured with that rf".into(), format!("{a:?} vs {b:?}")));
            }
        }
        Some("route") => {
            let mem = ids(&r["members"]);
            let sender = r["sender"].as_u64().unwrap_or(1);
            let ctor = r["ctor"].as_str().unwrap_or("new").to_string();
            let api = r["api"].as_str().unwrap_or("route_deltas").to_string();
            let dyn_ops = ops_from_json(&r["dyn"]);
            let batch: Vec<String> = r["batch"].as_array().map(|a| a.iter().filter_map(|x| x.as_str().map(String::from)).collect()).unwrap_or_default();
            let bref: Vec<&str> = batch.iter().map(|s| s.as_str()).collect();
            let mut env = build_env(&ctor, &mem, c, sender);
            for op in &dyn_ops {
                env_change(&mut env, *op);
            }
            println!("{}", env_desc(&env, &mem, &dyn_ops));
            {
                let ring = env.ring.read().unwrap();
                for k in bref.iter().take(8) {
                    println!("  get_replicas({k:?}) = {:?}", ring.get_replicas(k).iter().map(|r| r.0).collect::<Vec<_>>());
                }
            }
            let res = eval_batch(&mut env, &api, &bref);
            println!("  {api}: distinct recipient sets over the batch: {:?}", res.target_sets);
            for (k, d) in res.findings {
                found.push((route_sig(&api, &ctor, env.changed, &k), d));
            }
        }
        other => {
            eprintln!("unknown replay kind {other:?}");
            std::process::exit(2);
        }
    }
    if found.is_empty() {
        println!("replay: no violation");
        std::process::exit(0);
    }
    for (sig, d) in &found {
        println!("{d}");
        println!("VIOLATION property=C19 replay={} ({sig})", path.display());
    }
    std::process::exit(1);
}

// ---------------------------------------------------------------------------------------------
// main
// ---------------------------------------------------------------------------------------------

fn main() {
    let args = cli::parse_args();
    vh::quiet_panics();
    if let Some(path) = &args.replay {
        let r = vh::report::load_replay(path);
        replay(&r, path);
    }
    let rep = Reporter::new("C19", "exploration", &args);
    let thorough = args.tier == Tier::Thorough;
    let num = |flag: &str, d: u64| args.flag(flag).and_then(|s| s.parse::<u64>().ok()).unwrap_or(d);
    let universe = num("--nodes", if thorough { 6 } else { 5 }).clamp(1, 7);
    let nkeys = num("--keys", if thorough { 2000 } else { 500 }) as usize;
    let dyn_singles = num("--dyn-singles", if thorough { 300 } else { 500 }) as usize;
    let small = num("--small-batch-keys", if thorough { 8 } else { 6 }) as usize;
    let rfs: Vec<usize> = if thorough { vec![1, 2, 3, 4, 5, 6, 7] } else { vec![1, 2, 3, 5] };
    let vns: Vec<u32> = if thorough { vec![1, 2, 3, 7, 50, 150, 256] } else { vec![1, 3, 150] };
    let keys = key_set(nkeys);
    let mut cfgs: Vec<Cfg> = Vec::new();
    for v in &vns {
        for rf in &rfs {
            cfgs.push(Cfg { rf: *rf, v: *v });
        }
    }
    let nmask = 1u32 << universe;
    let rot = |len: usize| if len == 0 { 0 } else { (args.seed as usize) % len };

    let mut total = Acc::default();
    let mut panics: Vec<String> = Vec::new();

    // ---- stage A: canonical tables, [cfg][mask][key]
    let canon_r: Vec<Result<Vec<Vec<PList>>, String>> = par::par_map(&cfgs, |_, c| {
        catch_unwind(|| (0..nmask).map(|m| table(&canonical_ring(m, *c), &keys)).collect::<Vec<_>>())
            .map_err(|p| format!("building canonical rings for vnodes={} rf={}: {}", c.v, c.rf, vh::panic_text(&p)))
    });
    let mut canon: Vec<Vec<Vec<PList>>> = Vec::new();
    for (c, r) in cfgs.iter().zip(canon_r) {
        match r {
            Ok(t) => canon.push(t),
            Err(e) => {
                rep.violation(
                    "ring panic while building/looking up a ring",
                    e,
                    json!({"check": "ring", "order": members(nmask - 1), "ops": [], "rf": c.rf, "vnodes": c.v, "key": keys[0], "nkeys": keys.len()}),
                );
                // nothing sensible can follow for this configuration
                rep.finish(
                    json!({"evaluations": 1, "distinct_nontrivial": 0, "rule": "aborted: ring construction panicked", "samples": [], "exhaustive": false}),
                    vec![],
                );
            }
        }
    }
    let mut placement_nontrivial_distinct = 0u64;
    for (ci, c) in cfgs.iter().enumerate() {
        for m in 1..nmask {
            let n = m.count_ones() as usize;
            if n >= 2 && c.rf < n {
                placement_nontrivial_distinct += keys.len() as u64;
            }
            let _ = ci;
        }
    }

    // ---- stage B: join orders
    let mut order_items: Vec<(usize, Vec<u64>)> = Vec::new();
    let mut n_orders = 0u64;
    for m in 1..nmask {
        for p in permutations(&members(m)) {
            n_orders += 1;
            for ci in 0..cfgs.len() {
                order_items.push((ci, p.clone()));
            }
        }
    }
    let r = rot(order_items.len());
    order_items.rotate_left(r);
    let res = par::par_map(&order_items, |_, (ci, order)| {
        let c = cfgs[*ci];
        catch_unwind(|| stage_orders(c, order, &keys, &canon[*ci][mask_of(order) as usize]))
            .map_err(|p| (format!("HashRing::new({:?}, {}, {}) / get_replicas panicked: {}", order, c.v, c.rf, vh::panic_text(&p)), order.clone(), c))
    });
    let mut order_evals = 0u64;
    for r in res {
        match r {
            Ok(a) => {
                order_evals += a.evals;
                total.merge(a)
            }
            Err((e, order, c)) => {
                panics.push(e.clone());
                total.hit("ring panic while building/looking up a ring".into(), || {
                    (e, json!({"check": "ring", "order": order, "ops": [], "rf": c.rf, "vnodes": c.v, "key": keys[0], "nkeys": keys.len()}))
                });
            }
        }
    }

    // ---- stage C: closure over add/remove histories
    // a correct ring has one state per ordered arrangement of a subset (its join-order list is part of the
    // state): sum_k C(U,k) k! + the empty ring; a tree whose state space explodes is cut at 4x that
    let expected_states: u64 = 1 + n_orders;
    let state_cap = 4 * expected_states;
    let res: Vec<Result<Closure, (bool, String, Cfg, Vec<Op>)>> = cfgs
        .iter()
        .enumerate()
        .map(|(ci, c)| match stage_closure(*c, universe, &keys, &canon[ci], state_cap) {
            Ok(cl) => Ok(cl),
            Err(ClErr::Machinery(m)) => Err((true, m, *c, vec![])),
            Err(ClErr::Panic(p, h)) => Err((
                false,
                format!("add_node/remove_node/get_replicas panicked during history exploration (vnodes={}, rf={}): {}", c.v, c.rf, p),
                *c,
                h,
            )),
        })
        .collect();
    let (mut cl_states, mut cl_trans, mut cl_eff, mut cl_depth, mut cl_converged, mut cl_evals) = (0u64, 0u64, 0u64, usize::MAX, true, 0u64);
    let mut per_cfg_states: BTreeSet<u64> = BTreeSet::new();
    for r in res {
        match r {
            Ok(cl) => {
                cl_states += cl.states;
                per_cfg_states.insert(cl.states);
                cl_trans += cl.transitions;
                cl_eff += cl.effective_transitions;
                cl_depth = cl_depth.min(cl.depth_completed);
                cl_converged &= cl.converged;
                cl_evals += cl.acc.evals;
                total.merge(cl.acc);
            }
            Err((true, m, _, _)) => rep.machinery_failure(&m),
            Err((false, e, c, h)) => {
                cl_converged = false;
                total.hit("ring panic while building/looking up a ring".into(), || {
                    (e, json!({"check": "ring-successors", "ops": ops_json(&h), "universe": universe, "rf": c.rf, "vnodes": c.v, "nkeys": keys.len()}))
                });
            }
        }
    }
    if !cl_converged {
        rep.note(format!(
            "history closure did not reach a fixed point in every configuration (state cap {state_cap} or depth {}); deepest level completed everywhere: see coverage",
            2 * universe + 2
        ));
    }

    // ---- stage D: per-call rf agrees with configured rf
    let mut d_items: Vec<(u32, u32)> = Vec::new();
    for v in &vns {
        for m in 1..nmask {
            d_items.push((*v, m));
        }
    }
    let res = par::par_map(&d_items, |_, (v, m)| {
        let mut acc = Acc::default();
        let mem = members(*m);
        let r = catch_unwind(AssertUnwindSafe(|| {
            for default_rf in [1usize, 3] {
                let ring = HashRing::new(rids(&mem), *v, default_rf);
                for (ci, c) in cfgs.iter().enumerate() {
                    if c.v != *v {
                        continue;
                    }
                    for (ki, k) in keys.iter().enumerate() {
                        let l = pack(&ring.get_replicas_with_rf(k, c.rf));
                        acc.evals += 1;
                        if l != canon[ci][*m as usize][ki] {
                            acc.hit("ring get_replicas_with_rf differs from ring configured with that rf".into(), || {
                                (
                                    format!(
                                        "members {:?} vnodes={}: get_replicas_with_rf({:?}, {}) on a ring with default rf {} = {:?}, ring configured with rf {} gives {:?}",
                                        mem, v, k, c.rf, default_rf, l.ids(), c.rf, canon[ci][*m as usize][ki].ids()
                                    ),
                                    json!({"check": "with_rf", "members": mem, "rf": c.rf, "default_rf": default_rf, "vnodes": v, "key": k}),
                                )
                            });
                        }
                    }
                }
            }
        }));
        if let Err(p) = r {
            let e = format!("get_replicas_with_rf panicked (members {:?}, vnodes={}): {}", mem, v, vh::panic_text(&p));
            acc.hit("ring panic while building/looking up a ring".into(), || {
                (e, json!({"check": "with_rf", "members": mem, "rf": 3, "default_rf": 1, "vnodes": v, "key": keys[0]}))
            });
        }
        acc
    });
    let mut with_rf_evals = 0u64;
    for a in res {
        with_rf_evals += a.evals;
        total.merge(a);
    }

    // ---- stage E: routing
    let mut route_items: Vec<(usize, u32)> = Vec::new();
    for ci in 0..cfgs.len() {
        for m in 1..nmask {
            route_items.push((ci, m));
        }
    }
    // small memberships first (the first case kept per signature is then a small one); seed rotates
    route_items.sort_by_key(|(ci, m)| (m.count_ones(), *m, *ci));
    let r = rot(route_items.len());
    route_items.rotate_left(r);
    let res = par::par_map(&route_items, |_, (ci, m)| {
        let c = cfgs[*ci];
        catch_unwind(|| stage_route(c, *m, universe, &keys, small, dyn_singles))
            .map_err(|p| (format!("router/ring construction panicked (members {:?}, vnodes={}, rf={}): {}", members(*m), c.v, c.rf, vh::panic_text(&p)), *m, c))
    });
    let mut target_sets: BTreeSet<Vec<u64>> = BTreeSet::new();
    let mut route_evals = 0u64;
    for r in res {
        match r {
            Ok((a, t)) => {
                route_evals += a.evals;
                total.merge(a);
                target_sets.extend(t);
            }
            Err((e, m, c)) => {
                total.hit("route panic while building router".into(), || {
                    (e, json!({"check": "route", "ctor": "new", "api": "route_deltas", "members": members(m), "rf": c.rf, "vnodes": c.v, "sender": 1, "dyn": [], "batch": [keys[0]]}))
                });
            }
        }
    }

    // ---- stage F: batch sizes. Every batch length 1..=max_batch (keys cycling through the key set) through both
    // apis, on a 4-node ring with rf 2 (owners are a strict subset) for a sender that owns some keys and for one that
    // is not a member: a cap, a chunking or a pre-sized buffer in the queueing path shows at its boundary length.
    let max_batch = num("--max-batch", if thorough { 4200 } else { 1100 }) as usize;
    let size_items: Vec<(usize, u64)> = (1..=max_batch).flat_map(|l| [(l, 1u64), (l, 9u64)]).collect();
    let res = par::par_map(&size_items, |_, (l, sender)| {
        let mut acc = Acc::default();
        let mem: Vec<u64> = vec![1, 2, 3, 4];
        let c = Cfg { rf: 2, v: 16 };
        let b: Vec<&str> = (0..*l).map(|i| keys[i % keys.len()].as_str()).collect();
        let r = catch_unwind(AssertUnwindSafe(|| {
            let mut env = build_env("new", &mem, c, *sender);
            let mut tsets = BTreeSet::new();
            run_batches(&mut env, &mem, &[], std::slice::from_ref(&b), &mut acc, &mut tsets);
        }));
        if let Err(p) = r {
            let e = format!("routing a batch of {l} deltas panicked: {}", vh::panic_text(&p));
            acc.hit("route panic on a large batch".into(), || (e, json!({"check": "route", "ctor": "new", "api": "queue_deltas", "members": mem, "rf": 2, "vnodes": 16, "sender": sender, "dyn": [], "batch": b})));
        }
        acc
    });
    let mut size_evals = 0u64;
    for a in res {
        size_evals += a.evals;
        total.merge(a);
    }
    let route_evals = route_evals + size_evals;

    // ---- stage G: unusual node ids. Membership sets of 2 and 3 ids from a pool of ids whose decimal forms are
    // prefixes / concatenations of one another, multi-digit ids and ids at the ends of the u64 range; every join order,
    // and for 3-sets every remove-then-re-add of one member; rf 1 and 2, three vnode counts
    let id_pool: Vec<u64> = vec![1, 2, 3, 10, 11, 12, 21, 23, 100, 101, 111, 123, 1 << 32, (1 << 32) + 1, u64::MAX - 1, u64::MAX];
    let mut id_sets: Vec<Vec<u64>> = Vec::new();
    for a in 0..id_pool.len() {
        for b in a + 1..id_pool.len() {
            id_sets.push(vec![id_pool[a], id_pool[b]]);
            for cc in b + 1..id_pool.len() {
                if thorough || id_pool[cc] <= 123 {
                    id_sets.push(vec![id_pool[a], id_pool[b], id_pool[cc]]);
                }
            }
        }
    }
    let id_keys: Vec<String> = keys.iter().take(if thorough { 400 } else { 150 }).cloned().collect();
    let id_cfgs: Vec<Cfg> = [1usize, 2].iter().flat_map(|rf| [3u32, 16, 150].iter().map(move |v| Cfg { rf: *rf, v: *v })).collect();
    let res = par::par_map(&id_sets, |_, set| {
        let mut acc = Acc::default();
        for order in permutations(set) {
            let mut histories: Vec<Vec<Op>> = vec![vec![]];
            if set.len() == 3 {
                for x in set {
                    histories.push(vec![(false, *x), (true, *x)]);
                }
            }
            for c in &id_cfgs {
                for ops in &histories {
                    for k in &id_keys {
                        acc.evals += 1;
                        let r = catch_unwind(AssertUnwindSafe(|| ring_case_ids(&order, ops, *c, k)));
                        let findings = match r {
                            Ok(f) => f,
                            Err(p) => vec![("ring panic while building/looking up a ring".to_string(), vh::panic_text(&p))],
                        };
                        for (sig, d) in findings {
                            acc.hit(sig, || (d, json!({"check": "ring-ids", "order": order, "ops": ops_json(ops), "rf": c.rf, "vnodes": c.v, "key": k})));
                        }
                    }
                }
            }
        }
        acc
    });
    let mut id_evals = 0u64;
    for a in res {
        id_evals += a.evals;
        total.merge(a);
    }
    let order_evals = order_evals + id_evals;

    // ---- report (sequential, deterministic order)
    let mut by_sig: BTreeMap<String, u64> = BTreeMap::new();
    for (sig, (count, detail, replay)) in &total.find {
        by_sig.insert(sig.clone(), *count);
        rep.violation(sig.clone(), format!("{detail} [{count} violating cases with this signature]"), replay.clone());
    }

    // samples: real cases, computed here
    let mut samples: Vec<Value> = Vec::new();
    {
        let all = members(nmask - 1);
        let mut rev = all.clone();
        rev.reverse();
        let c = Cfg { rf: 3.min(rfs[rfs.len() - 1]), v: vns[vns.len() - 1] };
        for k in ["key_7", "user:3:profile", ""] {
            let a = HashRing::new(rids(&all), c.v, c.rf).get_replicas(k);
            let b = HashRing::new(rids(&rev), c.v, c.rf).get_replicas(k);
            samples.push(json!({"kind": "join order", "order_a": all, "order_b": rev, "rf": c.rf, "vnodes": c.v, "key": k,
                "replicas_a": a.iter().map(|r| r.0).collect::<Vec<_>>(), "replicas_b": b.iter().map(|r| r.0).collect::<Vec<_>>()}));
        }
        let mem: Vec<u64> = vec![1, 2, 3];
        let mut ring = HashRing::new(rids(&mem), 3, 2);
        let before = ring.get_replicas("key_7");
        ring.add_node(ReplicaId::new(4));
        let after = ring.get_replicas("key_7");
        samples.push(json!({"kind": "membership change", "members": mem, "op": "add_node(4)", "rf": 2, "vnodes": 3, "key": "key_7",
            "before": before.iter().map(|r| r.0).collect::<Vec<_>>(), "after": after.iter().map(|r| r.0).collect::<Vec<_>>()}));
        for (ctor, sender) in [("new", 1u64), ("from_config", 1), ("from_config", 3)] {
            let mem: Vec<u64> = vec![1, 2, 3];
            let mut env = build_env(ctor, &mem, Cfg { rf: 2, v: 150 }, sender);
            let b = ["key_0", "key_1", "key_2"];
            let exp: Vec<Vec<u64>> = b.iter().map(|k| env.ring.read().unwrap().get_replicas(k).iter().map(|r| r.0).collect()).collect();
            let r = eval_batch(&mut env, "queue_deltas", &b);
            samples.push(json!({"kind": "queue_deltas", "router": ctor, "members": mem, "sender": sender, "rf": 2, "vnodes": 150, "batch": b,
                "get_replicas": exp, "distinct_recipient_sets": r.target_sets, "mismatch_kinds": r.findings.iter().map(|f| f.0.clone()).collect::<Vec<_>>()}));
        }
    }

    let evaluations = order_evals + cl_evals + with_rf_evals + route_evals;
    let route_nontrivial = total.extra.get("route_cases_nontrivial").copied().unwrap_or(0);
    let exhaustive = cl_converged && panics.is_empty();
    let coverage = json!({
        "evaluations": evaluations,
        "distinct_nontrivial": placement_nontrivial_distinct + route_nontrivial,
        "rule": format!("placement cases = (membership set within {{1..{universe}}}, rf, vnodes, key), each evaluated once per join order (HashRing::new) and once per transition of the add/remove history closure; a placement case is non-trivial when the set has >= 2 members and rf < n (the list is a strict selection). Routing cases = (router constructor, membership set, rf, vnodes, sender, optional one-node ring change, api route_deltas|queue_deltas, batch) with batches = empty, every single key, every 2- and 3-sequence over the first {small} keys, the whole key set; non-trivial when some delta's owner set minus the sender is neither empty nor all peers. distinct_nontrivial = distinct non-trivial placement cases + non-trivial routing cases (all distinct by construction)."),
        "exhaustive": exhaustive,
        "batch_lengths": format!("every length 1..={max_batch} x sender in {{member 1, outsider 9}} x both apis on members [1,2,3,4] rf=2 vnodes=16 ({size_evals} cases)"),
        "unusual_node_ids": format!("{} membership sets of 2-3 ids from {:?} x every join order x (3-sets: remove + re-add of each member) x rf {{1,2}} x vnodes {{3,16,150}} x {} keys ({id_evals} evaluations)", id_sets.len(), id_pool, id_keys.len()),
        "universe_nodes": universe,
        "membership_sets": nmask - 1,
        "join_orders": n_orders,
        "replication_factors": rfs,
        "vnode_counts": vns,
        "configs": cfgs.len(),
        "keys": keys.len(),
        "placement_cases_nontrivial_distinct": placement_nontrivial_distinct,
        "join_order_lookups": order_evals,
        "history_closure": {"states_sum_over_configs": cl_states, "states_per_config_values": per_cfg_states, "states_expected_per_config_for_a_history_independent_ring": expected_states, "state_cap_per_config": state_cap, "transitions": cl_trans,
            "effective_membership_changes": cl_eff, "deepest_level_completed": cl_depth, "fixed_point_reached_in_every_config": cl_converged,
            "lookups": cl_evals},
        "with_rf_lookups": with_rf_evals,
        "route_cases": total.extra.get("route_cases").copied().unwrap_or(0),
        "route_cases_nontrivial": route_nontrivial,
        "deltas_routed": total.extra.get("deltas_routed").copied().unwrap_or(0),
        "from_config_routers": total.extra.get("from_config_routers").copied().unwrap_or(0),
        "duplicate_deliveries_observed": total.extra.get("duplicate_deliveries").copied().unwrap_or(0),
        "distinct_replica_lists_observed": total.lists.len(),
        "distinct_recipient_sets_observed": target_sets.len(),
        "violating_cases_by_signature": by_sig,
        "samples": samples,
    });
    rep.finish(
        coverage,
        vec![
            "vnodes >= 1 (a ring with zero virtual nodes places nothing); node ids 1..U".into(),
            "history closure: two rings with equal derived-Debug output apart from `version` have equal futures (Debug prints every field; `version` is only read by version()); fingerprints are 128-bit hashes of that output".into(),
            "responsible replicas of a delta = HashRing::get_replicas(key) of the ring the router holds (the per-value hot-key `replication_factor` override is not consulted by any routing code and is outside this property)".into(),
            "from_config is exercised on clusters {1..n} with config.peers = addresses of the other members in id order — the convention stated in from_config itself and used by MultiNodeSimulation::new_partitioned".into(),
            "recipient of a queued message = RoutedMessage.target (what the gossip loops dispatch on); order of deltas inside one message and duplicate deliveries are not part of the verdict (duplicates are counted)".into(),
            "the same peer-id inference as in from_config is duplicated inside GossipManager::start_gossip_loop{,_with_actor} (private, behind TCP); not reachable by this check".into(),
        ],
    );
}
