//! C05 — MULTI/EXEC is all-or-nothing and equals the sequential run; WATCH aborts on change.
//! Exhaustive scenario enumeration through the real connection handler (two connections on one
//! state, driven strictly sequentially) against a twin server running the body without MULTI;
//! plus the executor-level transaction path on a bare CommandExecutor.
use redis_sim::production::ConnectionConfig;
use redis_sim::redis::{CommandExecutor, RespValue};
use redis_sim::simulator::VirtualTime;
use serde_json::json;
use std::sync::atomic::{AtomicU64, Ordering};
use vh::connsys::{decode_replies, ConnWorld, ScriptStream};
use vh::dump::{self, Keyspace};
use vh::polex;
use vh::resp::{self, Argv};
use vh::{cli, par, Reporter, Tier};

vh::use_jemalloc!();

const BODY_OPS: &[&str] = &[
    "SET k a", "INCR k", "INCR s", "LPUSH l x", "GET k", "DEL k", "FOO bar", "GET", "MULTI", "WATCH k", "SET w z", "APPEND k b",
    // conditional SETs (a run of SETs may be replayed through a batched path) and multi-key commands whose keys
    // live on different shards - with 2 shards k is on shard 1 and k2 on shard 0 - (the replay must route them exactly like the standalone commands)
    "SET k c NX", "SET k d GET", "MSET k 1 k2 2 w 3", "MGET k k2 w", "DEL k k2",
    // UNWATCH inside MULTI is an ordinary queued command (Redis queues it and answers OK at EXEC): it must not drop the
    // watches before EXEC has compared them
    "UNWATCH",
];
const WATCH_TYPES: &[(&str, &[&str])] = &[
    ("missing", &[]),
    ("string", &["SET w a"]),
    ("list", &["RPUSH w a"]),
    ("hash", &["HSET w f a"]),
    ("set", &["SADD w a"]),
    ("zset", &["ZADD w 1 a"]),
    ("string+ttl", &["SET w a EX 100000"]),
    // two-slot containers: a write can permute the content among the slots without adding or removing any string
    ("hash2", &["HSET w f a g b"]),
    ("list2", &["RPUSH w a b"]),
    ("zset2", &["ZADD w 1 a 2 b"]),
];
/// (label, command, does it change the VALUE (type/content/existence) of w when w has the given type?)
const B_WRITES: &[&str] = &[
    "none", "SET w a", "SET w other", "APPEND w x", "DEL w", "LPUSH w x", "HSET w f b", "SADD w m", "ZADD w 2 m", "EXPIRE w 100000", "SET u 1",
    "RPUSH w a", "HSET w f a",
    // permutations of existing content: swap the values of two hash fields, rotate a list, swap two scores
    "HSET w f b g a", "RPOPLPUSH w w", "ZADD w 2 a 1 b",
];
const POSITIONS: &[&str] = &["before-watch", "watch-multi", "multi-body", "body-exec"];

struct World {
    w: ConnWorld,
    a: ScriptStream,
    b: ScriptStream,
}

fn cfg() -> ConnectionConfig {
    ConnectionConfig::default()
}

impl World {
    fn new(shards: usize) -> Self {
        let mut w = ConnWorld::new(shards);
        let (a, _) = w.connect("A", cfg());
        let (b, _) = w.connect("B", cfg());
        World { w, a, b }
    }
    /// Send one command on a connection, wait until the system is quiescent, return its replies.
    async fn send(&mut self, on_a: bool, cmd: &Argv) -> Result<Vec<RespValue>, String> {
        let s = if on_a { self.a.clone() } else { self.b.clone() };
        s.push(&resp::wire(cmd));
        self.w.settle().await?;
        let (replies, rest) = decode_replies(&s.take_written());
        if !rest.is_empty() {
            return Err(format!("undecodable output {}", resp::esc(&rest)));
        }
        Ok(replies)
    }
    async fn one(&mut self, on_a: bool, cmd: &Argv) -> Result<RespValue, String> {
        let r = self.send(on_a, cmd).await?;
        if r.len() != 1 {
            return Err(format!("{} replies to `{}`", r.len(), resp::show_argv(cmd)));
        }
        Ok(r.into_iter().next().unwrap())
    }
    /// Keyspace observed through connection B (never in MULTI), TTLs coarsened (wall clock).
    async fn keyspace(&mut self) -> Result<Keyspace, String> {
        // drive the command-level dump through B, one command at a time
        let mut out = Keyspace::new();
        let keys = match dump::bulk_items(&self.one(false, &resp::line("KEYS *")).await?) {
            Some(k) => k,
            None => return Ok(dump::keys_failed()),
        };
        let mut keys = keys;
        keys.sort();
        for k in keys {
            let ty = dump::type_name(self.one(false, &resp::argv_b(&[b"TYPE", &k])).await?);
            let val = match dump::value_cmd(&ty, &k) {
                Some(c) => dump::render_value(&ty, &self.one(false, &c).await?),
                None => "?".into(),
            };
            let pttl = match self.one(false, &resp::argv_b(&[b"PTTL", &k])).await? {
                RespValue::Integer(i) if i > 0 => RespValue::Integer((i + 5000) / 10000),
                other => other,
            };
            dump::insert_key(&mut out, &k, ty, val, pttl);
        }
        Ok(out)
    }
}

#[derive(Clone, Debug)]
struct Scenario {
    shards: usize,
    wtype: usize,
    watch: bool,
    body: Vec<usize>,
    end_exec: bool,
    bwrite: usize,
    pos: usize,
    /// what A sends right before MULTI: 0 nothing, 1 `WATCH w` again, 2 `UNWATCH`, 3 `WATCH k w`
    pre_multi: usize,
    /// an earlier transaction on the SAME connection (run first, same oracle); whatever it leaves
    /// behind in the connection (queue, error flag, watches) must not leak into this one
    prologue: Option<Box<Scenario>>,
}

/// entries from index 4 on are commands that are rejected (or merely read) outside a transaction: they must not touch the watches
const PRE_MULTI: &[&str] = &["", "WATCH w", "UNWATCH", "WATCH k w", "DISCARD", "EXEC", "NOSUCHCOMMAND x", "SET w", "GET s", "PING"];

impl Scenario {
    fn json(&self) -> serde_json::Value {
        json!({"shards": self.shards, "watched_key_type": WATCH_TYPES[self.wtype].0, "watch": self.watch,
               "body": self.body.iter().map(|b| BODY_OPS[*b]).collect::<Vec<_>>(), "end": if self.end_exec { "EXEC" } else { "DISCARD" },
               "b_write": B_WRITES[self.bwrite], "position": POSITIONS[self.pos], "pre_multi": PRE_MULTI[self.pre_multi],
               "prologue": self.prologue.as_ref().map(|p| p.json())})
    }
    fn from_json(v: &serde_json::Value) -> Scenario {
        Scenario {
            shards: v["shards"].as_u64().unwrap() as usize,
            wtype: WATCH_TYPES.iter().position(|t| t.0 == v["watched_key_type"].as_str().unwrap()).unwrap(),
            watch: v["watch"].as_bool().unwrap(),
            body: v["body"].as_array().unwrap().iter().map(|b| BODY_OPS.iter().position(|x| *x == b.as_str().unwrap()).unwrap()).collect(),
            end_exec: v["end"].as_str().unwrap() == "EXEC",
            bwrite: B_WRITES.iter().position(|x| *x == v["b_write"].as_str().unwrap()).unwrap(),
            pos: POSITIONS.iter().position(|x| *x == v["position"].as_str().unwrap()).unwrap(),
            pre_multi: v["pre_multi"].as_str().map(|p| PRE_MULTI.iter().position(|x| *x == p).unwrap_or(0)).unwrap_or(0),
            prologue: if v["prologue"].is_object() { Some(Box::new(Scenario::from_json(&v["prologue"]))) } else { None },
        }
    }
}

fn name_of(op: &str) -> String {
    op.split(' ').next().unwrap().to_string()
}

/// Run one scenario; Err((signature, detail)) on violation.
fn run_scenario(root: &Scenario) -> Result<String, (String, String)> {
    polex::with_runtime(|rt| {
        rt.block_on(async {
            let mach = |e: String| ("harness-io".to_string(), e);
            let mut m = World::new(root.shards); // main
            let mut t = World::new(root.shards); // twin: body without MULTI
            let l = |s: &str| resp::line(s);
            // setup (the watched key's type is that of the first transaction run)
            let first = root.prologue.as_deref().unwrap_or(root);
            for s in [l("SET s abc")].iter().chain(WATCH_TYPES[first.wtype].1.iter().map(|x| l(x)).collect::<Vec<_>>().iter()) {
                m.one(false, s).await.map_err(mach)?;
                t.one(false, s).await.map_err(mach)?;
            }
            match &root.prologue {
                None => run_txn(&mut m, &mut t, root, root).await.map(|o| o.to_string()),
                Some(p) => {
                    let first = run_txn(&mut m, &mut t, p, root).await.map_err(|(sig, d)| (format!("{sig} (first of two transactions)"), d))?;
                    run_txn(&mut m, &mut t, root, root)
                        .await
                        .map(|o| format!("{first}->{o}"))
                        .map_err(|(sig, d)| (format!("{sig} after-earlier-transaction={first}"), d))
                }
            }
        })
    })
}

/// One WATCH/MULTI/body/EXEC|DISCARD round of `sc` on connection A of the two worlds (main and
/// twin) in their current state; `root` is only used to describe the whole scenario in messages.
async fn run_txn(m: &mut World, t: &mut World, sc: &Scenario, root: &Scenario) -> Result<&'static str, (String, String)> {
    let sc_desc = root.json();
    {
        {
            let mach = |e: String| ("harness-io".to_string(), e);
            let l = |s: &str| resp::line(s);
            let bw = B_WRITES[sc.bwrite];
            let write = |pos: usize| bw != "none" && sc.pos == pos;
            let do_write = |pos: usize| write(pos);
            macro_rules! bwrite {
                ($pos:expr) => {
                    if do_write($pos) {
                        m.one(false, &l(bw)).await.map_err(mach)?;
                        t.one(false, &l(bw)).await.map_err(mach)?;
                    }
                };
            }
            let w_value = |ks: &Keyspace| ks.get(&b"w"[..]).map(|d| format!("{}:{}", d.ty, d.val)).unwrap_or_else(|| "none".into());
            bwrite!(0);
            let mut at_watch = None;
            if sc.watch {
                let r = m.one(true, &l("WATCH w")).await.map_err(mach)?;
                if resp::show(&r) != "+OK" {
                    return Err(("watch-reply".into(), format!("{}: WATCH replied {}", sc_desc, resp::show(&r))));
                }
                at_watch = Some(w_value(&m.keyspace().await.map_err(mach)?));
            }
            bwrite!(1);
            if sc.pre_multi > 0 {
                let r = m.one(true, &l(PRE_MULTI[sc.pre_multi])).await.map_err(mach)?;
                if sc.pre_multi >= 4 {
                    // DISCARD / EXEC without MULTI, an unknown command, a wrong-arity command: an error reply; GET, PING: a result
                    let want_err = sc.pre_multi <= 7;
                    if resp::is_err(&r) != want_err {
                        return Err(("pre-multi-reply".into(), format!("{}: `{}` outside a transaction replied {}", sc_desc, PRE_MULTI[sc.pre_multi], resp::show(&r))));
                    }
                } else if resp::show(&r) != "+OK" {
                    return Err(("watch-reply".into(), format!("{}: `{}` replied {}", sc_desc, PRE_MULTI[sc.pre_multi], resp::show(&r))));
                }
                if sc.pre_multi >= 4 {
                    // nothing changes: what was watched stays watched, with its first snapshot
                } else if sc.pre_multi == 2 {
                    at_watch = None; // UNWATCH: nothing is watched any more
                } else if at_watch.is_none() {
                    at_watch = Some(w_value(&m.keyspace().await.map_err(mach)?));
                }
                // re-WATCH of an already watched key keeps the FIRST snapshot (Redis: the key stays flagged)
            }
            let r = m.one(true, &l("MULTI")).await.map_err(mach)?;
            if resp::show(&r) != "+OK" {
                return Err(("multi-reply".into(), format!("{}: MULTI replied {}", sc_desc, resp::show(&r))));
            }
            bwrite!(2);
            // body: every command must be answered QUEUED or with an error, never with a result
            let mut queued: Vec<Argv> = Vec::new();
            let mut aborting = false;
            for b in &sc.body {
                let op = BODY_OPS[*b];
                let r = m.one(true, &l(op)).await.map_err(mach)?;
                let shown = resp::show(&r);
                if shown == "+QUEUED" {
                    if matches!(name_of(op).as_str(), "MULTI" | "WATCH") {
                        return Err((format!("queued-reply {}", name_of(op)), format!("{}: `{op}` inside MULTI was queued", sc_desc)));
                    }
                    queued.push(l(op));
                } else if resp::is_err(&r) {
                    if !matches!(name_of(op).as_str(), "MULTI" | "WATCH") {
                        aborting = true;
                    }
                } else {
                    return Err((format!("queued-reply {}", name_of(op)), format!("{}: `{op}` inside MULTI replied {} (a result before EXEC)", sc_desc, shown)));
                }
            }
            bwrite!(3);
            // keyspace before EXEC: the body must have had no effect yet
            let before = m.keyspace().await.map_err(mach)?;
            let twin_before = t.keyspace().await.map_err(mach)?;
            if let Some((kind, desc)) = dump::diff(&twin_before, &before) {
                return Err((
                    format!("effect-before-exec {kind}"),
                    format!("{}: before EXEC/DISCARD the keyspace already differs from a server that only saw the setup and B's write: {desc}", sc_desc),
                ));
            }
            let at_exec = w_value(&before);
            let end = if sc.end_exec { "EXEC" } else { "DISCARD" };
            let reply = m.one(true, &l(end)).await.map_err(mach)?;
            let after = m.keyspace().await.map_err(mach)?;
            let unchanged = |what: &str| -> Result<(), (String, String)> {
                match dump::diff(&before, &after) {
                    None => Ok(()),
                    Some((kind, desc)) => Err((
                        format!("{what} changed-keyspace {kind}"),
                        format!("{}: {what} (reply {}) must leave the keyspace untouched: {desc}", sc_desc, resp::show(&reply)),
                    )),
                }
            };
            let outcome;
            if !sc.end_exec {
                if resp::show(&reply) != "+OK" {
                    return Err(("discard-reply".into(), format!("{}: DISCARD replied {}", sc_desc, resp::show(&reply))));
                }
                unchanged("DISCARD")?;
                outcome = "discarded";
            } else if aborting {
                if resp::err_code(&reply).as_deref() != Some("EXECABORT") {
                    return Err((
                        "execabort-missing".into(),
                        format!("{}: a queue-time error occurred but EXEC replied {}", sc_desc, resp::show(&reply)),
                    ));
                }
                unchanged("EXECABORT")?;
                outcome = "execabort";
            } else {
                let changed = at_watch.is_some() && at_watch.as_deref() != Some(at_exec.as_str());
                let is_nil = matches!(reply, RespValue::Array(None) | RespValue::BulkString(None));
                if changed {
                    if !is_nil {
                        return Err((
                            format!("watch-missed type={}{}", WATCH_TYPES[sc.wtype].0, if sc.pre_multi > 0 && matches!(WATCH_TYPES[sc.wtype].0, "missing" | "string" | "string+ttl") { format!(" pre-multi={}", PRE_MULTI[sc.pre_multi].split(' ').next().unwrap()) } else { String::new() }),
                            format!("{}: watched key w was {} at WATCH and {} at EXEC, yet EXEC replied {}", sc_desc, at_watch.clone().unwrap(), at_exec, resp::show(&reply)),
                        ));
                    }
                    unchanged("failed WATCH")?;
                    outcome = "watch-abort";
                } else {
                    if is_nil {
                        return Err((
                            format!("watch-spurious type={}{}", WATCH_TYPES[sc.wtype].0, if sc.pre_multi > 0 && matches!(WATCH_TYPES[sc.wtype].0, "missing" | "string" | "string+ttl") { format!(" pre-multi={}", PRE_MULTI[sc.pre_multi].split(' ').next().unwrap()) } else { String::new() }),
                            format!("{}: watched key w unchanged ({}) yet EXEC replied nil", sc_desc, at_exec),
                        ));
                    }
                    // twin: the queued commands executed consecutively, no MULTI
                    let mut twin_replies = Vec::new();
                    for q in &queued {
                        twin_replies.push(t.one(true, q).await.map_err(mach)?);
                    }
                    let want = RespValue::Array(Some(twin_replies));
                    if reply != want {
                        return Err((
                            format!("exec-reply body=[{}]", sc.body.iter().map(|b| name_of(BODY_OPS[*b])).collect::<Vec<_>>().join(",")),
                            format!("{}: EXEC replied {} but the same commands run consecutively reply {}", sc_desc, resp::show(&reply), resp::show(&want)),
                        ));
                    }
                    let twin_after = t.keyspace().await.map_err(mach)?;
                    if let Some((kind, desc)) = dump::diff(&twin_after, &after) {
                        return Err((
                            format!("exec-keyspace {kind}"),
                            format!("{}: keyspace after EXEC differs from the sequential run: {desc}", sc_desc),
                        ));
                    }
                    outcome = "applied";
                }
            }
            // the connection must have left the transaction
            let ping = m.one(true, &l("PING")).await.map_err(mach)?;
            if resp::show(&ping) != "+PONG" {
                return Err(("still-in-multi".into(), format!("{}: PING after {end} replied {}", sc_desc, resp::show(&ping))));
            }
            Ok(outcome)
        }
    }
}

/// Executor-level transaction path (simulation path): same oracle on a bare CommandExecutor; the
/// "second client" is the same connection writing between WATCH and MULTI.
fn run_executor_scenario(wtype: usize, body: &[usize], bwrite: usize, end_exec: bool) -> Result<String, (String, String)> {
    let mk = || {
        let mut ex = CommandExecutor::new();
        ex.set_time(VirtualTime::from_millis(1000));
        ex
    };
    let run = |ex: &mut CommandExecutor, s: &str| -> RespValue {
        match resp::parse(&resp::line(s)) {
            Ok(c) => {
                ex.set_time(VirtualTime::from_millis(1000));
                ex.execute(&c)
            }
            Err(e) => RespValue::Error(format!("ERR {e}").into()),
        }
    };
    let ks = |ex: &mut CommandExecutor| {
        dump::dump_via(|a| match resp::parse(a) {
            Ok(c) => {
                ex.set_time(VirtualTime::from_millis(1000));
                ex.execute(&c)
            }
            Err(e) => RespValue::Error(e.into()),
        })
    };
    let desc = format!(
        "executor-level: w={} write-between-WATCH-and-MULTI=`{}` body=[{}] end={}",
        WATCH_TYPES[wtype].0,
        B_WRITES[bwrite],
        body.iter().map(|b| BODY_OPS[*b]).collect::<Vec<_>>().join("; "),
        if end_exec { "EXEC" } else { "DISCARD" }
    );
    let (mut m, mut t) = (mk(), mk());
    for s in std::iter::once("SET s abc").chain(WATCH_TYPES[wtype].1.iter().copied()) {
        run(&mut m, s);
        run(&mut t, s);
    }
    let wv = |k: &Keyspace| k.get(&b"w"[..]).map(|d| format!("{}:{}", d.ty, d.val)).unwrap_or_else(|| "none".into());
    run(&mut m, "WATCH w");
    let at_watch = wv(&ks(&mut m));
    if B_WRITES[bwrite] != "none" {
        run(&mut m, B_WRITES[bwrite]);
        run(&mut t, B_WRITES[bwrite]);
    }
    let before = ks(&mut m);
    let at_exec = wv(&before);
    run(&mut m, "MULTI");
    let mut queued = Vec::new();
    for b in body {
        let op = BODY_OPS[*b];
        if op == "GET" || op == "FOO bar" {
            continue; // parse-level rejections never reach the executor
        }
        let r = run(&mut m, op);
        if resp::show(&r) == "+QUEUED" {
            queued.push(op);
        } else if !resp::is_err(&r) {
            return Err((format!("executor queued-reply {}", name_of(op)), format!("{desc}: `{op}` replied {} inside MULTI", resp::show(&r))));
        }
    }
    let reply = run(&mut m, if end_exec { "EXEC" } else { "DISCARD" });
    let after = ks(&mut m);
    let is_nil = matches!(reply, RespValue::Array(None) | RespValue::BulkString(None));
    if !end_exec || at_watch != at_exec {
        if end_exec && !is_nil {
            return Err((
                format!("executor watch-missed type={}", WATCH_TYPES[wtype].0),
                format!("{desc}: w was {at_watch} at WATCH and {at_exec} at EXEC yet EXEC replied {}", resp::show(&reply)),
            ));
        }
        if let Some((k, d)) = dump::diff(&before, &after) {
            return Err((format!("executor abort changed-keyspace {k}"), format!("{desc}: {d}")));
        }
        return Ok("aborted".into());
    }
    if is_nil {
        return Err((
            format!("executor watch-spurious type={}", WATCH_TYPES[wtype].0),
            format!("{desc}: w unchanged ({at_exec}) yet EXEC replied nil"),
        ));
    }
    let want = RespValue::Array(Some(queued.iter().map(|q| run(&mut t, q)).collect()));
    if reply != want {
        return Err(("executor exec-reply".into(), format!("{desc}: EXEC replied {} but sequential run replies {}", resp::show(&reply), resp::show(&want))));
    }
    if let Some((k, d)) = dump::diff(&ks(&mut t), &after) {
        return Err((format!("executor exec-keyspace {k}"), format!("{desc}: {d}")));
    }
    Ok("applied".into())
}


// ---------------------------------------------------------------------------------------------
// several watched keys: whichever ONE of them changes, EXEC must abort
// ---------------------------------------------------------------------------------------------

/// `n` keys w0..w(n-1) are watched (one WATCH naming all of them, or one WATCH per key); key `changed` (None: none)
/// is overwritten between WATCH and MULTI; the body is one SET. level = "executor" | "connection".
/// Commands of the pipelined part: plain SETs and GETs (runs of them are what a batching fast path would pick up), values
/// long enough that a whole run plus EXEC exceeds any "worth batching" buffer threshold, and two other commands.
const PIPE_OPS: &[&str] = &["SET s aaaaaaaaaaaaaaaaaaaaaaaa", "SET k bbbbbbbbbbbbbbbbbbbbbbbb", "GET s", "GET k", "INCR n", "DEL s"];
/// (min_pipeline_buffer, batch_threshold): the defaults, and a configuration in which the smallest run is worth batching
const PIPE_CFGS: &[(usize, usize)] = &[(60, 2), (1, 1), (70, 6)];

/// A transaction that arrives in ONE read (`MULTI`, the body and `EXEC`/`DISCARD` pipelined, as client libraries send it)
/// must be answered, and must leave the keyspace, exactly as the same transaction sent command by command.
/// `watch`: 0 none, 1 `WATCH s` kept, 2 `WATCH s` broken by a second connection before MULTI.
fn pipelined_case(shards: usize, cfgi: usize, body: &[usize], end_exec: bool, watch: usize) -> Result<(), (String, String)> {
    polex::with_runtime(|rt| {
        rt.block_on(async {
            let mach = |e: String| ("harness-io".to_string(), e);
            let l = |s: &str| resp::line(s);
            let (mpb, bt) = PIPE_CFGS[cfgi];
            let mut cfg = ConnectionConfig::default();
            cfg.min_pipeline_buffer = mpb;
            cfg.batch_threshold = bt;
            let mut outcomes: Vec<(Vec<String>, String)> = Vec::new();
            for pipelined in [false, true] {
                let mut w = ConnWorld::new(shards);
                let (a, _) = w.connect("A", cfg.clone());
                let (b, _) = w.connect("B", cfg.clone());
                let mut world = World { w, a, b };
                world.one(false, &l("SET s old")).await.map_err(mach)?;
                if watch > 0 {
                    world.one(true, &l("WATCH s")).await.map_err(mach)?;
                }
                if watch == 2 {
                    world.one(false, &l("SET s changed")).await.map_err(mach)?;
                }
                let mut cmds: Vec<Argv> = vec![l("MULTI")];
                cmds.extend(body.iter().map(|b| l(PIPE_OPS[*b])));
                cmds.push(l(if end_exec { "EXEC" } else { "DISCARD" }));
                let mut replies: Vec<String> = Vec::new();
                if pipelined {
                    let mut bytes = Vec::new();
                    for c in &cmds {
                        bytes.extend_from_slice(&resp::wire(c));
                    }
                    world.a.push(&bytes);
                    world.w.settle().await.map_err(mach)?;
                    let (rs, rest) = decode_replies(&world.a.take_written());
                    if !rest.is_empty() {
                        return Err(("pipelined-transaction garbage-output".to_string(), format!("undecodable output {}", resp::esc(&rest))));
                    }
                    replies.extend(rs.iter().map(resp::show));
                } else {
                    for c in &cmds {
                        for r in world.send(true, c).await.map_err(mach)? {
                            replies.push(resp::show(&r));
                        }
                    }
                }
                let ks = world.keyspace().await.map_err(mach)?;
                outcomes.push((replies, dump::show_keyspace(&ks)));
            }
            let names: Vec<&str> = body.iter().map(|b| PIPE_OPS[*b].split(' ').next().unwrap()).collect();
            let ctx = format!(
                "shards={shards} min_pipeline_buffer={mpb} batch_threshold={bt}; {}MULTI; {}; {} sent in one write",
                ["", "WATCH s; ", "WATCH s; (other connection: SET s changed); "][watch],
                body.iter().map(|b| PIPE_OPS[*b]).collect::<Vec<_>>().join("; "),
                if end_exec { "EXEC" } else { "DISCARD" }
            );
            if outcomes[0].0 != outcomes[1].0 {
                return Err((
                    format!("pipelined-transaction replies-differ body=[{}] end={}", names.join(","), if end_exec { "EXEC" } else { "DISCARD" }),
                    format!("{ctx}: replies {:?}; the same commands sent one per write are answered {:?}", outcomes[1].0, outcomes[0].0),
                ));
            }
            if outcomes[0].1 != outcomes[1].1 {
                return Err((
                    format!("pipelined-transaction keyspace-differs body=[{}] end={}", names.join(","), if end_exec { "EXEC" } else { "DISCARD" }),
                    format!("{ctx}: keyspace afterwards {}; after the same commands sent one per write {}", outcomes[1].1, outcomes[0].1),
                ));
            }
            Ok(())
        })
    })
}

fn multi_watch_case(level: &str, n: usize, one_command: bool, changed: Option<usize>, shards: usize) -> Result<(), (String, String)> {
    let keys: Vec<String> = (0..n).map(|i| format!("w{i}")).collect();
    let mut script: Vec<String> = keys.iter().map(|k| format!("SET {k} a")).collect();
    if one_command {
        script.push(format!("WATCH {}", keys.join(" ")));
    } else {
        script.extend(keys.iter().map(|k| format!("WATCH {k}")));
    }
    let write = changed.map(|c| format!("SET {} b", keys[c]));
    let desc = format!(
        "{level}-level: {n} keys watched ({}), {} between WATCH and MULTI, body [SET k x], EXEC",
        if one_command { "one WATCH naming all of them" } else { "one WATCH per key" },
        write.clone().map(|w| format!("`{w}` by the second client")).unwrap_or_else(|| "no write".into())
    );
    let judge = |reply: &RespValue, k_after: &str| -> Result<(), (String, String)> {
        let is_nil = matches!(reply, RespValue::Array(None) | RespValue::BulkString(None));
        match (changed.is_some(), is_nil) {
            (true, false) => Err((format!("{level} watch-missed several-watched-keys"), format!("{desc}: EXEC replied {} (k is now {k_after})", resp::show(reply)))),
            (true, true) if k_after != "$nil" => Err((format!("{level} abort changed-keyspace several-watched-keys"), format!("{desc}: EXEC replied nil but k is {k_after}"))),
            (false, true) => Err((format!("{level} watch-spurious several-watched-keys"), format!("{desc}: EXEC replied nil"))),
            _ => Ok(()),
        }
    };
    if level == "executor" {
        let mut ex = CommandExecutor::new();
        let mut run = |ex: &mut CommandExecutor, s: &str| -> RespValue {
            match resp::parse(&resp::line(s)) {
                Ok(c) => {
                    ex.set_time(VirtualTime::from_millis(1000));
                    ex.execute(&c)
                }
                Err(e) => RespValue::Error(format!("ERR {e}").into()),
            }
        };
        for c in &script {
            run(&mut ex, c);
        }
        if let Some(w) = &write {
            run(&mut ex, w);
        }
        run(&mut ex, "MULTI");
        run(&mut ex, "SET k x");
        let reply = run(&mut ex, "EXEC");
        let k_after = resp::show(&run(&mut ex, "GET k"));
        judge(&reply, &k_after)
    } else {
        polex::with_runtime(|rt| {
            rt.block_on(async {
                let mach = |e: String| ("harness-io".to_string(), e);
                let mut m = World::new(shards);
                for c in &script {
                    m.one(true, &resp::line(c)).await.map_err(mach)?;
                }
                if let Some(w) = &write {
                    m.one(false, &resp::line(w)).await.map_err(mach)?;
                }
                m.one(true, &resp::line("MULTI")).await.map_err(mach)?;
                m.one(true, &resp::line("SET k x")).await.map_err(mach)?;
                let reply = m.one(true, &resp::line("EXEC")).await.map_err(mach)?;
                let k_after = resp::show(&m.one(true, &resp::line("GET k")).await.map_err(mach)?);
                judge(&reply, &k_after)
            })
        })
    }
}

// ---------------------------------------------------------------------------------------------
// command-set sweep: MULTI; <one command of the full command set>; EXEC  vs  the command sent directly
// ---------------------------------------------------------------------------------------------

const SWEEP_SEEDS: &[(&str, &[&str])] = &[
    ("none", &[]),
    ("string", &["SET k 10"]),
    ("list", &["RPUSH k a b"]),
    ("set", &["SADD k a b"]),
    ("hash", &["HSET k a 1 b 2"]),
    ("zset", &["ZADD k 1 a 2 b"]),
];
const SWEEP_UNORDERED: &[&str] = &["KEYS", "SMEMBERS", "HGETALL", "HKEYS", "HVALS", "SCAN", "HSCAN", "ZSCAN", "SPOP", "CONFIG"];

fn sweep_skips(a: &Argv) -> bool {
    let name = String::from_utf8_lossy(&a[0]).to_ascii_uppercase();
    let sub = a.get(1).map(|x| String::from_utf8_lossy(x).to_ascii_uppercase()).unwrap_or_default();
    // random / time-dependent replies; transaction control commands are the scenario part's subject
    matches!(name.as_str(), "TIME" | "INFO" | "RANDOMKEY" | "MULTI" | "EXEC" | "DISCARD" | "WATCH" | "UNWATCH") || (name == "SPOP" && a.len() == 2) || (name == "ACL" && sub == "GENPASS")
}

/// the cmdgen key names k1/k2 become k/k2: with 2 shards k lives on shard 1 and k2 on shard 0
fn sweep_instances() -> Vec<Argv> {
    vh::cmdgen::all_instances(vh::cmdgen::Profile::Routing)
        .into_iter()
        .filter(|a| !a.is_empty() && !sweep_skips(a))
        .map(|a| a.into_iter().map(|t| if t == b"k1" { b"k".to_vec() } else { t }).collect())
        .collect()
}

/// multiset rendering of replies whose element order is not defined
fn sweep_canon(cmd: &Argv, r: &RespValue) -> String {
    fn flat(v: &RespValue, out: &mut Vec<String>) {
        match v {
            RespValue::Array(Some(items)) => items.iter().for_each(|i| flat(i, out)),
            other => out.push(resp::show(other)),
        }
    }
    let name = String::from_utf8_lossy(&cmd[0]).to_ascii_uppercase();
    if SWEEP_UNORDERED.contains(&name.as_str()) {
        let mut v = Vec::new();
        flat(r, &mut v);
        v.sort();
        return format!("unordered[{}]", v.join(","));
    }
    resp::show(r)
}

fn run_sweep_case(shards: usize, seed: usize, inst: &Argv) -> Result<&'static str, (String, String)> {
    polex::with_runtime(|rt| {
        rt.block_on(async {
            let mach = |e: String| ("harness-io".to_string(), e);
            let mut m = World::new(shards);
            let mut t = World::new(shards);
            let mut name = String::from_utf8_lossy(&inst[0]).to_ascii_uppercase();
            if matches!(name.as_str(), "ACL" | "CLIENT" | "CONFIG" | "OBJECT" | "DEBUG" | "SCRIPT" | "FUNCTION" | "COMMAND") && inst.len() > 1 {
                name = format!("{name} {}", String::from_utf8_lossy(&inst[1]).to_ascii_uppercase());
            }
            let desc = format!("shards={shards} key k holds {} ; command `{}`", SWEEP_SEEDS[seed].0, resp::show_argv(inst));
            for s in SWEEP_SEEDS[seed].1 {
                m.one(false, &resp::line(s)).await.map_err(mach)?;
                t.one(false, &resp::line(s)).await.map_err(mach)?;
            }
            let before = m.keyspace().await.map_err(mach)?;
            let r = m.one(true, &resp::line("MULTI")).await.map_err(mach)?;
            if resp::show(&r) != "+OK" {
                return Err(("multi-reply".into(), format!("{desc}: MULTI replied {}", resp::show(&r))));
            }
            let q = m.one(true, inst).await.map_err(mach)?;
            let queued = resp::show(&q) == "+QUEUED";
            if !queued && !resp::is_err(&q) {
                return Err((format!("queued-reply {name}"), format!("{desc}: inside MULTI it replied {} (a result before EXEC)", resp::show(&q))));
            }
            let mid = m.keyspace().await.map_err(mach)?;
            if let Some((kind, d)) = dump::diff(&before, &mid) {
                return Err((format!("effect-before-exec {kind}"), format!("{desc}: the keyspace changed before EXEC: {d}")));
            }
            let reply = m.one(true, &resp::line("EXEC")).await.map_err(mach)?;
            let after = m.keyspace().await.map_err(mach)?;
            if !queued {
                if resp::err_code(&reply).as_deref() != Some("EXECABORT") {
                    return Err(("execabort-missing".into(), format!("{desc}: queueing failed with {} but EXEC replied {}", resp::show(&q), resp::show(&reply))));
                }
                if let Some((kind, d)) = dump::diff(&before, &after) {
                    return Err((format!("EXECABORT changed-keyspace {kind}"), format!("{desc}: {d}")));
                }
                return Ok("execabort");
            }
            let direct = t.one(true, inst).await.map_err(mach)?;
            let got = match &reply {
                RespValue::Array(Some(items)) if items.len() == 1 => sweep_canon(inst, &items[0]),
                other => format!("<EXEC replied {}>", resp::show(other)),
            };
            let want = sweep_canon(inst, &direct);
            if got != want {
                return Err((format!("exec-reply body=[{name}]"), format!("{desc}: inside MULTI/EXEC the result is {got}, sent directly it is {want}")));
            }
            let twin_after = t.keyspace().await.map_err(mach)?;
            if let Some((kind, d)) = dump::diff(&twin_after, &after) {
                return Err((format!("exec-keyspace {kind}"), format!("{desc}: keyspace after EXEC differs from sending the command directly: {d}")));
            }
            let ping = m.one(true, &resp::line("PING")).await.map_err(mach)?;
            if resp::show(&ping) != "+PONG" {
                return Err(("still-in-multi".into(), format!("{desc}: PING after EXEC replied {}", resp::show(&ping))));
            }
            Ok("applied")
        })
    })
}

fn bodies(max_len: usize, alphabet: &[usize]) -> Vec<Vec<usize>> {
    let mut out = vec![vec![]];
    let mut cur: Vec<Vec<usize>> = vec![vec![]];
    for _ in 0..max_len {
        cur = cur.iter().flat_map(|s| alphabet.iter().map(move |f| { let mut x = s.clone(); x.push(*f); x })).collect();
        out.extend(cur.iter().cloned());
    }
    out
}

fn main() {
    let args = cli::parse_args();
    vh::quiet_panics();
    if let Some(path) = &args.replay {
        let r = vh::report::load_replay(path);
        if r["sweep"] == json!(true) {
            let inst: Argv = r["command"].as_array().unwrap().iter().map(|t| resp::unescape(t.as_str().unwrap())).collect();
            let seed = SWEEP_SEEDS.iter().position(|x| x.0 == r["key_type"].as_str().unwrap()).unwrap();
            match run_sweep_case(r["shards"].as_u64().unwrap() as usize, seed, &inst) {
                Ok(o) => {
                    println!("replay: no violation (outcome {o})");
                    std::process::exit(0);
                }
                Err((sig, detail)) => {
                    println!("{detail}");
                    println!("VIOLATION property=C05 replay={} ({sig})", path.display());
                    std::process::exit(1);
                }
            }
        }
        if r["pipelined"] == json!(true) {
            let body: Vec<usize> = r["body"].as_array().unwrap().iter().map(|b| PIPE_OPS.iter().position(|x| *x == b.as_str().unwrap()).unwrap()).collect();
            match pipelined_case(r["shards"].as_u64().unwrap() as usize, r["cfg"].as_u64().unwrap() as usize, &body, r["end_exec"].as_bool().unwrap(), r["watch"].as_u64().unwrap() as usize) {
                Ok(()) => {
                    println!("replay: no violation");
                    std::process::exit(0);
                }
                Err((sig, detail)) => {
                    println!("{detail}");
                    println!("VIOLATION property=C05 replay={} ({sig})", path.display());
                    std::process::exit(1);
                }
            }
        }
        if r["multi_watch"] == json!(true) {
            let changed = r["changed"].as_i64().filter(|c| *c >= 0).map(|c| c as usize);
            match multi_watch_case(r["level"].as_str().unwrap(), r["n"].as_u64().unwrap() as usize, r["one_command"].as_bool().unwrap(), changed, r["shards"].as_u64().unwrap_or(2) as usize) {
                Ok(()) => {
                    println!("replay: no violation");
                    std::process::exit(0);
                }
                Err((sig, detail)) => {
                    println!("{detail}");
                    println!("VIOLATION property=C05 replay={} ({sig})", path.display());
                    std::process::exit(1);
                }
            }
        }
        let res = if r["executor_level"] == json!(true) {
            let body: Vec<usize> = r["body"].as_array().unwrap().iter().map(|b| BODY_OPS.iter().position(|x| *x == b.as_str().unwrap()).unwrap()).collect();
            run_executor_scenario(r["wtype"].as_u64().unwrap() as usize, &body, r["bwrite"].as_u64().unwrap() as usize, r["end_exec"].as_bool().unwrap())
        } else {
            run_scenario(&Scenario::from_json(&r))
        };
        match res {
            Ok(o) => {
                println!("replay: no violation (outcome {o})");
                std::process::exit(0);
            }
            Err((sig, detail)) => {
                println!("{detail}");
                println!("VIOLATION property=C05 replay={} ({sig})", path.display());
                std::process::exit(1);
            }
        }
    }
    let rep = Reporter::new("C05", "model_checking", &args);
    let thorough = args.tier == Tier::Thorough;
    let all_ops: Vec<usize> = (0..BODY_OPS.len()).collect();
    let body_set = bodies(3, &all_ops);
    let mut scenarios: Vec<Scenario> = Vec::new();
    let shard_opts: &[usize] = &[1, 2];
    for &shards in shard_opts {
        // (1) transaction bodies x EXEC/DISCARD, no watch, no second client
        for body in &body_set {
            for end_exec in [true, false] {
                scenarios.push(Scenario { shards, wtype: 1, watch: false, body: body.clone(), end_exec, bwrite: 0, pos: 0, pre_multi: 0, prologue: None });
            }
        }
        // (2) WATCH: key types x B's write x position, with small bodies
        let unwatch = BODY_OPS.iter().position(|o| *o == "UNWATCH").unwrap();
        let watch_bodies: Vec<Vec<usize>> = if thorough { bodies(3, &[0, 2, 6, 10, 3, unwatch]) } else { bodies(2, &[0, 2, 6, 10, unwatch]) };
        for wtype in 0..WATCH_TYPES.len() {
            for bwrite in 0..B_WRITES.len() {
                for pos in 0..POSITIONS.len() {
                    if bwrite == 0 && pos > 0 {
                        continue;
                    }
                    for body in &watch_bodies {
                        scenarios.push(Scenario { shards, wtype, watch: true, body: body.clone(), end_exec: true, bwrite, pos, pre_multi: 0, prologue: None });
                        if body.len() <= 1 {
                            for pre_multi in 1..PRE_MULTI.len() {
                                scenarios.push(Scenario { shards, wtype, watch: true, body: body.clone(), end_exec: true, bwrite, pos, pre_multi, prologue: None });
                            }
                        }
                    }
                }
            }
        }
    }
    // (3) two transactions in a row on one connection: whatever the first leaves behind (queued commands, the
    // queue-time error flag, watches) must not leak into the second. First: bodies of <=2 over {SET k a, INCR s,
    // unknown command, wrong arity} x {EXEC, DISCARD} x {no WATCH, WATCH unchanged, WATCH + change by B};
    // second: bodies of <=1 over {SET k a, unknown command, SET w z} x {no WATCH, WATCH unchanged, WATCH + change}.
    let single = scenarios.len();
    let first_bodies = bodies(2, &[0, 2, 6, 7]);
    let second_bodies = bodies(1, &[0, 6, 10]);
    let watch_variants: &[(bool, usize, usize)] = &[(false, 0, 0), (true, 0, 0), (true, 2, 1)];
    for &shards in shard_opts {
        for fb in &first_bodies {
            for f_end in [true, false] {
                for &(f_watch, f_bw, f_pos) in watch_variants {
                    for sb in &second_bodies {
                        for &(s_watch, s_bw, s_pos) in watch_variants {
                            let prologue = Scenario { shards, wtype: 1, watch: f_watch, body: fb.clone(), end_exec: f_end, bwrite: f_bw, pos: f_pos, pre_multi: 0, prologue: None };
                            scenarios.push(Scenario { shards, wtype: 1, watch: s_watch, body: sb.clone(), end_exec: true, bwrite: s_bw, pos: s_pos, pre_multi: 0, prologue: Some(Box::new(prologue)) });
                        }
                    }
                }
            }
        }
    }
    let chained = scenarios.len() - single;
    let outcomes: std::sync::Mutex<std::collections::BTreeMap<String, u64>> = Default::default();
    let evals = AtomicU64::new(0);
    par::par_map(&scenarios, |_, sc| {
        evals.fetch_add(1, Ordering::Relaxed);
        match run_scenario(sc) {
            Ok(o) => {
                *outcomes.lock().unwrap().entry(o).or_insert(0) += 1;
            }
            Err((sig, detail)) => {
                if sig == "harness-io" {
                    rep.violation(format!("no-reply-or-hang end={}", if sc.end_exec { "EXEC" } else { "DISCARD" }), format!("{}: {detail}", sc.json()), sc.json());
                } else {
                    rep.violation(sig, detail, sc.json());
                }
            }
        }
    });
    // executor-level path
    let ex_bodies = bodies(if thorough { 3 } else { 2 }, &[0, 1, 2, 3, 4, 5, 8, 9, 10, 11]);
    let mut ex_items: Vec<(usize, Vec<usize>, usize, bool)> = Vec::new();
    for wtype in 0..WATCH_TYPES.len() {
        for bwrite in 0..B_WRITES.len() {
            for body in &ex_bodies {
                if body.len() > 1 && !(thorough || bwrite < 3) {
                    continue;
                }
                for end_exec in [true, false] {
                    ex_items.push((wtype, body.clone(), bwrite, end_exec));
                }
            }
        }
    }
    par::par_map(&ex_items, |_, (wtype, body, bwrite, end_exec)| {
        evals.fetch_add(1, Ordering::Relaxed);
        match run_executor_scenario(*wtype, body, *bwrite, *end_exec) {
            Ok(o) => {
                *outcomes.lock().unwrap().entry(format!("executor-{o}")).or_insert(0) += 1;
            }
            Err((sig, detail)) => rep.violation(
                sig,
                detail,
                json!({"executor_level": true, "wtype": wtype, "bwrite": bwrite, "end_exec": end_exec, "body": body.iter().map(|b| BODY_OPS[*b]).collect::<Vec<_>>()}),
            ),
        }
    });
    // several watched keys, each of them changed in turn (and none): executor level and connection level
    let mut mw_items: Vec<(&str, usize, bool, Option<usize>, usize)> = Vec::new();
    for level in ["executor", "connection"] {
        for n in [2usize, 3, 4, 8] {
            for one_command in [true, false] {
                for changed in std::iter::once(None).chain((0..n).map(Some)) {
                    for shards in if level == "connection" { vec![1usize, 2] } else { vec![1] } {
                        mw_items.push((level, n, one_command, changed, shards));
                    }
                }
            }
        }
    }
    par::par_map(&mw_items, |_, (level, n, one_command, changed, shards)| {
        evals.fetch_add(1, Ordering::Relaxed);
        if let Err((sig, detail)) = multi_watch_case(level, *n, *one_command, *changed, *shards) {
            rep.violation(sig, detail, json!({"multi_watch": true, "level": level, "n": n, "one_command": one_command, "changed": changed.map(|c| c as i64).unwrap_or(-1), "shards": shards}));
        }
    });
    // transactions that arrive in one read
    let pipe_bodies = bodies(if thorough { 4 } else { 3 }, &(0..PIPE_OPS.len()).collect::<Vec<_>>());
    let mut pipe_items: Vec<(usize, usize, usize, bool, usize)> = Vec::new();
    for shards in shard_opts {
        for cfgi in 0..PIPE_CFGS.len() {
            for (bi, b) in pipe_bodies.iter().enumerate() {
                // the third configuration (batch threshold 6) only matters for long runs: keep it to bodies of plain SET / GET
                if cfgi == 2 && (b.len() < 3 || b.iter().any(|o| *o > 3)) {
                    continue;
                }
                for end_exec in [true, false] {
                    for watch in 0..3usize {
                        if watch > 0 && (!end_exec || b.len() > 2) {
                            continue;
                        }
                        pipe_items.push((*shards, cfgi, bi, end_exec, watch));
                    }
                }
            }
        }
    }
    par::par_map(&pipe_items, |_, (shards, cfgi, bi, end_exec, watch)| {
        evals.fetch_add(1, Ordering::Relaxed);
        if let Err((sig, detail)) = pipelined_case(*shards, *cfgi, &pipe_bodies[*bi], *end_exec, *watch) {
            rep.violation(sig, detail, json!({"pipelined": true, "shards": shards, "cfg": cfgi, "body": pipe_bodies[*bi].iter().map(|o| PIPE_OPS[*o]).collect::<Vec<_>>(), "end_exec": end_exec, "watch": watch}));
        }
    });
    // command-set sweep
    let insts = sweep_instances();
    let sweep_items: Vec<(usize, usize, usize)> = shard_opts.iter().flat_map(|sh| (0..insts.len()).flat_map(move |i| (0..SWEEP_SEEDS.len()).map(move |s| (*sh, i, s)))).collect();
    par::par_map(&sweep_items, |_, (shards, i, seed)| {
        evals.fetch_add(1, Ordering::Relaxed);
        let replay = json!({"sweep": true, "shards": shards, "key_type": SWEEP_SEEDS[*seed].0, "command": insts[*i].iter().map(|t| resp::esc(t)).collect::<Vec<_>>()});
        match run_sweep_case(*shards, *seed, &insts[*i]) {
            Ok(o) => {
                *outcomes.lock().unwrap().entry(format!("sweep-{o}")).or_insert(0) += 1;
            }
            Err((sig, detail)) => {
                if sig == "harness-io" {
                    rep.violation("no-reply-or-hang end=EXEC".to_string(), detail, replay);
                } else {
                    rep.violation(sig, detail, replay);
                }
            }
        }
    });
    let outcomes = outcomes.into_inner().unwrap();
    let total = evals.load(Ordering::Relaxed);
    let coverage = json!({
        "states": scenarios.len() + ex_items.len() + sweep_items.len(),
        "transitions": total,
        "traces_validated_against_impl": total,
        "evaluations": total,
        "distinct_nontrivial": scenarios.len() + ex_items.len() + sweep_items.len(),
        "outcome_histogram": outcomes,
        "samples": [scenarios[scenarios.len() / 3].json(), scenarios[scenarios.len() - 1].json()],
        "connection_level_scenarios": scenarios.len(),
        "two_transactions_on_one_connection_scenarios": chained,
        "executor_level_scenarios": ex_items.len(),
        "several_watched_keys_cases": mw_items.len(),
        "pipelined_transaction_cases": pipe_items.len(),
        "pipelined_transaction_rule": "MULTI, a body of <=3 (thorough 4) commands over plain SET / GET of two keys, INCR, DEL, and EXEC or DISCARD sent in ONE write (with WATCH kept / broken beforehand for short bodies), under three (min_pipeline_buffer, batch_threshold) configurations, 1 and 2 shards: replies and keyspace equal those of the same commands sent one per write",
        "command_set_sweep": {"command_instances": insts.len(), "cases": sweep_items.len(), "key_types": SWEEP_SEEDS.iter().map(|x| x.0).collect::<Vec<_>>(),
            "not_compared": "TIME, INFO, RANDOMKEY, ACL GENPASS, SPOP without count (random or time-dependent); MULTI/EXEC/DISCARD/WATCH/UNWATCH (covered by the scenarios)"},
        "exhaustive": true,
        "rule": "connection level: (all bodies of <=3 commands over 17 body ops incl. conditional SETs, multi-key commands across shards, run-time failure, unknown command, wrong arity, nested MULTI, WATCH inside MULTI) x {EXEC, DISCARD}; and WATCH scenarios: 10 watched-key types (incl. two-slot hash/list/zset) x 16 writes by a second connection (incl. content-permuting writes) x 4 positions x small bodies (plus re-WATCH / UNWATCH / WATCH k w right before MULTI); and two transactions in a row on one connection (first: bodies <=2 over {SET, INCR, unknown command, wrong arity} x {EXEC, DISCARD} x {no WATCH, WATCH kept, WATCH broken by B}; second: bodies <=1 x the same three WATCH variants); several watched keys (2, 3, 4, 8; one WATCH naming all or one WATCH per key) with each of them changed in turn and with none changed, at the executor and at the connection level; every scenario is executed on the real handler (2 connections, one state, strictly sequential) and on a twin server that runs the queued commands without MULTI; executor level: same oracle on a bare CommandExecutor",
    });
    rep.finish(
        coverage,
        vec![
            "the second client's writes land BETWEEN A's commands (the property's quantifier); writes landing inside EXEC's replay are out of scope".into(),
            "'value of a watched key' = existence + type + full content as seen through the command interface; TTL is not part of the value".into(),
            "wall-clock TTLs are compared at 10 s granularity".into(),
            "nested MULTI and WATCH inside MULTI reply an error without aborting the transaction (Redis behaviour)".into(),
        ],
    );
}
