//! C03 — shard count is unobservable. SEQX over two real ShardedActorState instances fed the same
//! sequence: the 1-shard instance is the model, the N-shard instance the subject.
use bytes::Bytes;
use redis_sim::production::verif_access::{hash_key, hash_key_bytes};
use redis_sim::redis::RespValue;
use serde_json::json;
use std::time::{Duration, Instant};
use vh::dump;
use vh::polex;
use vh::resp::{self, Argv};
use vh::seqx::Bfs;
use vh::connsys::{decode_replies, ConnWorld};
use vh::shardsys::{Node, VerifTime};
use vh::{cli, Reporter, Tier};

const T0: u64 = 1_000_000;

/// Three keys per shard count: ka,kb share a shard and kc does not (string route); for ka the
/// string route and the bytes route (fast paths) differ if any such key exists.
fn pick_keys(n: usize) -> (Vec<String>, serde_json::Value) {
    // plain names first, then names with a Redis-Cluster style hash tag: if the two routing functions ever disagree on what part
    // of a name they hash, such a name is where it shows
    let cands: Vec<String> = (0..4000).map(|i| format!("key{i}")).chain((0..400).map(|i| format!("{{user:{i}}}:visits"))).chain((0..100).map(|i| format!("a{{t{i}}}b"))).collect();
    let split = |k: &str| hash_key(k, n) != hash_key_bytes(k.as_bytes(), n);
    let ka = cands.iter().find(|k| split(k)).cloned().unwrap_or_else(|| cands[0].clone());
    let kb = cands
        .iter()
        .find(|k| **k != ka && hash_key(k, n) == hash_key(&ka, n))
        .cloned()
        .unwrap();
    let kc = cands
        .iter()
        .find(|k| hash_key(k, n) != hash_key(&ka, n) && (n < 3 || hash_key_bytes(k.as_bytes(), n) != hash_key_bytes(ka.as_bytes(), n)))
        .cloned()
        .unwrap();
    let info = json!({
        "shards": n,
        "keys": [ka, kb, kc],
        "str_route": [hash_key(&ka, n), hash_key(&kb, n), hash_key(&kc, n)],
        "bytes_route": [hash_key_bytes(ka.as_bytes(), n), hash_key_bytes(kb.as_bytes(), n), hash_key_bytes(kc.as_bytes(), n)],
        "routes_differ_for_ka": split(&ka),
    });
    (vec![ka, kb, kc], info)
}

fn alphabet(tier: Tier) -> Vec<&'static str> {
    let mut v = vec![
        "X SET ka 1", "X SET kb x", "X GET ka", "X GET kb", "X GET kc", "X APPEND ka z", "X INCR ka", "X DEL ka", "X DEL ka kb", "X DEL ka ka kc",
        "X EXISTS ka kb kc", "X EXISTS ka ka", "X EXISTS ka kc ka", "X MGET ka kc ka", "X MSET ka 1 kc 2 ka 3", "X MGET ka kb kc", "X MSET ka 1 kb 2 kc 3", "X MSETNX ka 1 kc 2", "X MSETNX kc 9",
        "X RPUSH ka a b", "X RPUSH kc q", "X LRANGE ka 0 -1", "X LRANGE kc 0 -1", "X RPOPLPUSH ka kc", "X LMOVE kc ka LEFT RIGHT",
        "X RENAME ka kc", "X RENAMENX kc kb", "X SADD kc m", "X SMEMBERS kc", "X HSET kb f v", "X HGETALL kb", "X ZADD kc 1 m",
        "X SORT ka STORE kc", "X KEYS *", "X KEYS kc", "X KEYS [k]ey[0-9]", "X KEYS k?y*", "SCANALL", "SCANALL 1", "X DBSIZE", "X RANDOMKEY", "X FLUSHDB", "X TYPE ka", "X TYPE kc",
        "X EXPIRE ka 100", "X TTL ka", "ADV 100000",
        "X EVAL redis.call('SET',KEYS[1],'p');redis.call('SET',KEYS[2],'q');return\\x201 2 ka kc",
        "X EVAL return\\x20redis.call('GET',KEYS[1]) 1 kc",
        // the same script by digest, on both keys (the script cache must not depend on which shard saw the EVAL)
        "X EVALSHA 620cd258c2c9c88c9d10db67812ccf663d96bdc6 1 kc", "X EVALSHA 620cd258c2c9c88c9d10db67812ccf663d96bdc6 1 ka",
        "X SCRIPT EXISTS 620cd258c2c9c88c9d10db67812ccf663d96bdc6", "X SCRIPT LOAD return\\x20redis.call('GET',KEYS[1])", "X SCRIPT FLUSH",
        "FG ka", "FS ka f", "PG ka", "PS ka p", "BG ka kc", "BS ka 1 kc 2", "FG kc", "FS kc g",
        // big pipelined batches that write the same keys several times (per-shard regrouping must keep their order)
        "BSN 24 ka kc", "BSN 70 ka kb kc", "BSN 130 ka",
    ];
    if tier == Tier::Thorough {
        v.extend([
            "X SET kc y", "X GETSET ka n", "X SETNX kb s", "X STRLEN ka", "X UNLINK ka kc", "X PERSIST ka", "X PEXPIRE kc 1500", "ADV 1500", "X PTTL kc",
            "X LMOVE ka kb RIGHT LEFT", "X RENAME kc ka", "X RENAMENX ka kc", "X SORT kc", "X HSET ka f v", "X ZRANGE kc 0 -1 WITHSCORES", "X SCARD kc",
            "X FLUSHALL", "PG kb", "PS kb p", "BG kb ka kc", "BS kb 1", "X WATCH ka", "X SCAN 0 COUNT 1", "X SCAN 0 COUNT 3", "X SCAN 0 COUNT 10",
        ]);
    }
    v
}

fn subst(op: &str, keys: &[String]) -> Argv {
    let s = op.replace("ka", &keys[0]).replace("kb", &keys[1]).replace("kc", &keys[2]);
    resp::line(&s)
}

const UNORDERED: &[&str] = &["KEYS", "SMEMBERS", "HGETALL", "HKEYS", "HVALS", "SCAN", "SPOP", "CONFIG"];

fn canon(cmd: &str, r: &RespValue) -> String {
    if cmd == "SCAN" {
        // [cursor, [keys...]]: the keys of one call come in no defined order
        if let RespValue::Array(Some(items)) = r {
            if let (Some(c), Some(RespValue::Array(Some(ks)))) = (items.first(), items.get(1)) {
                let mut v: Vec<String> = ks.iter().map(resp::show).collect();
                v.sort();
                return format!("scan[cursor={} keys={}]", resp::show(c), v.join(","));
            }
        }
    }
    if UNORDERED.contains(&cmd) {
        if let RespValue::Array(Some(items)) = r {
            let mut v: Vec<String> = if cmd == "HGETALL" || cmd == "CONFIG" {
                items.chunks(2).map(|c| c.iter().map(resp::show).collect::<Vec<_>>().join("=")).collect()
            } else {
                items.iter().map(resp::show).collect()
            };
            v.sort();
            return format!("unordered[{}]", v.join(","));
        }
    }
    resp::show(r)
}

async fn scan_all(node: &mut Node<VerifTime>, count: Option<&[u8]>) -> Result<Vec<Vec<u8>>, String> {
    let mut cursor = b"0".to_vec();
    let mut keys = Vec::new();
    for _ in 0..64 {
        let mut a: Argv = vec![b"SCAN".to_vec(), cursor.clone()];
        if let Some(c) = count {
            a.push(b"COUNT".to_vec());
            a.push(c.to_vec());
        }
        match node.exec(&a).await {
            RespValue::Array(Some(parts)) if parts.len() == 2 => {
                let next = match &parts[0] {
                    RespValue::BulkString(Some(b)) => b.clone(),
                    other => return Err(format!("cursor {}", resp::show(other))),
                };
                if let RespValue::Array(Some(ks)) = &parts[1] {
                    for k in ks {
                        if let RespValue::BulkString(Some(b)) = k {
                            keys.push(b.clone());
                        }
                    }
                }
                if next == b"0" {
                    keys.sort();
                    keys.dedup();
                    return Ok(keys);
                }
                cursor = next;
            }
            other => return Err(format!("SCAN replied {}", resp::show(&other))),
        }
    }
    Err("no cursor 0 within 64 calls".into())
}

/// Apply one op to a node; returns the canonical observation.
async fn apply(node: &mut Node<VerifTime>, clock: &VerifTime, op: &Argv) -> String {
    let tag = String::from_utf8_lossy(&op[0]).to_string();
    let b = |i: usize| Bytes::from(op[i].clone());
    let fmt = |r: Result<RespValue, String>| match r {
        Ok(v) => resp::show(&v),
        Err(e) => format!("HANG {e}"),
    };
    let fmtv = |r: Result<Vec<RespValue>, String>| match r {
        Ok(v) => format!("[{}]", v.iter().map(resp::show).collect::<Vec<_>>().join(",")),
        Err(e) => format!("HANG {e}"),
    };
    match tag.as_str() {
        "ADV" => {
            // only the clock of this node is advanced by the caller; nothing to observe
            let _ = clock;
            "advance".into()
        }
        "SCANALL" => match scan_all(node, op.get(1).map(|c| c.as_slice())).await {
            Ok(keys) => format!("scan{:?}", keys.iter().map(|k| resp::esc(k)).collect::<Vec<_>>()),
            Err(e) => format!("scan-error {e}"),
        },
        "X" => {
            let a: Argv = op[1..].to_vec();
            let name = String::from_utf8_lossy(&a[0]).to_ascii_uppercase();
            let r = node.exec(&a).await;
            if name == "RANDOMKEY" {
                // nondeterministic by nature: valid iff nil on an empty keyspace or an existing key
                let ks = node.dump().await;
                return match &r {
                    RespValue::BulkString(None) if ks.is_empty() => "randomkey-valid".into(),
                    RespValue::BulkString(Some(k)) if ks.contains_key(k) => "randomkey-valid".into(),
                    other => format!("randomkey-invalid {} with keys {:?}", resp::show(other), ks.keys().map(|k| resp::esc(k)).collect::<Vec<_>>()),
                };
            }
            canon(&name, &r)
        }
        "FG" => {
            let k = b(1);
            fmt(node.call(move |st| async move { st.fast_get(k).await }).await)
        }
        "FS" => {
            let (k, v) = (b(1), b(2));
            fmt(node.call(move |st| async move { st.fast_set(k, v).await }).await)
        }
        "PG" => {
            let k = b(1);
            fmt(node.call(move |st| async move { st.pooled_fast_get(k).await }).await)
        }
        "PS" => {
            let (k, v) = (b(1), b(2));
            fmt(node.call(move |st| async move { st.pooled_fast_set(k, v).await }).await)
        }
        "BG" => {
            let ks: Vec<Bytes> = op[1..].iter().map(|x| Bytes::from(x.clone())).collect();
            fmtv(node.call(move |st| async move { st.fast_batch_get_pipeline(ks).await }).await)
        }
        "BS" => {
            let ps: Vec<(Bytes, Bytes)> = op[1..].chunks(2).map(|c| (Bytes::from(c[0].clone()), Bytes::from(c[1].clone()))).collect();
            fmtv(node.call(move |st| async move { st.fast_batch_set_pipeline(ps).await }).await)
        }
        "BSN" => {
            // one pipelined batch of n SETs cycling through the named keys, the i-th SET writing v<i>: every key must
            // end with the value of its LAST SET in the batch, on any number of shards
            let n: usize = String::from_utf8_lossy(&op[1]).parse().unwrap();
            let ks: Vec<Vec<u8>> = op[2..].to_vec();
            let ps: Vec<(Bytes, Bytes)> = (0..n).map(|i| (Bytes::from(ks[i % ks.len()].clone()), Bytes::from(format!("v{i}").into_bytes()))).collect();
            fmtv(node.call(move |st| async move { st.fast_batch_set_pipeline(ps).await }).await)
        }
        other => panic!("unknown op tag {other}"),
    }
}

fn op_shape(op: &str) -> String {
    // canonical shape: entry path / command name + whether the keys named span shards
    // (ka and kb share a shard, kc lives elsewhere) — independent of values and key order
    let toks: Vec<&str> = op.split(' ').collect();
    let keys: Vec<&str> = toks[1..].iter().copied().filter(|t| matches!(*t, "ka" | "kb" | "kc")).collect();
    let span = if keys.len() < 2 {
        ""
    } else if keys.contains(&"kc") && (keys.contains(&"ka") || keys.contains(&"kb")) {
        " cross-shard"
    } else {
        " same-shard"
    };
    if toks[0] == "X" {
        format!("{}{}", toks[1], span)
    } else {
        format!("{}:{}", toks[0], span.trim())
    }
}

#[allow(dead_code)]
fn writers(hist: &[&str]) -> String {
    let mut tags: Vec<String> = hist
        .iter()
        .map(|h| {
            let t: Vec<&str> = h.split(' ').collect();
            if t[0] == "X" {
                t[1].to_string()
            } else {
                t[0].to_string()
            }
        })
        .collect();
    tags.dedup();
    tags.join(">")
}

struct Outcome {
    fp: Option<String>,
    violation: Option<(String, String)>,
}

fn run(n: usize, keys: &[String], hist: &[&str], op: &str) -> Outcome {
    let mut out = run_inner(n, keys, hist, op, false);
    // Cause classification for the fast read paths: if the only reason for a different reply is that the
    // N-shard server's home shard of the key has not yet been told the current time (the fast paths carry
    // no clock reading, so a shard learns the time only from generic commands routed to it), the same
    // scenario with a clock refresh of every shard right before the op (DBSIZE fans out with the current
    // time) has equal replies. That cause gets its own signature.
    if let Some((sig, detail)) = &out.violation {
        if sig.starts_with("reply ") && matches!(op.split(' ').next().unwrap(), "FG" | "PG" | "BG") {
            let again = run_inner(n, keys, hist, op, true);
            if again.violation.is_none() {
                out.violation = Some((
                    { let _ = sig; "reply fast-read-path stale-shard-clock".to_string() },
                    format!("{detail} -- with every shard's clock refreshed right before the op (DBSIZE) the replies agree: the fast path served a key whose deadline had passed because its home shard had not seen a timed command since the clock advanced"),
                ));
            }
        }
    }
    out
}

fn run_inner(n: usize, keys: &[String], hist: &[&str], op: &str, refresh: bool) -> Outcome {
    polex::with_runtime(|rt| {
        rt.block_on(async {
            let c1 = VerifTime::new(T0);
            let cn = VerifTime::new(T0);
            let mut one = Node::new(1, c1.clone());
            let mut many = Node::new(n, cn.clone());
            for h in hist {
                let a = subst(h, keys);
                if a[0] == b"ADV" {
                    let ms: u64 = String::from_utf8_lossy(&a[1]).parse().unwrap();
                    c1.advance(ms);
                    cn.advance(ms);
                }
                apply(&mut one, &c1, &a).await;
                apply(&mut many, &cn, &a).await;
            }
            let a = subst(op, keys);
            if a[0] == b"ADV" {
                let ms: u64 = String::from_utf8_lossy(&a[1]).parse().unwrap();
                c1.advance(ms);
                cn.advance(ms);
            }
            if refresh {
                let _ = many.exec(&resp::line("DBSIZE")).await;
            }
            let o1 = apply(&mut one, &c1, &a).await;
            let on = apply(&mut many, &cn, &a).await;
            let ctx = || format!("shards={n} keys={:?} after [{}]", keys, hist.join("; "));
            if o1 != on {
                let kind = if on.starts_with("HANG") { "hang" } else { "reply" };
                // a single SCAN call: the listed finding (the sharded SCAN ignores the cursor) concerns calls whose COUNT is
                // below the number of keys; a call whose COUNT covers the whole keyspace must return everything on any shard count
                let scan_tag = if a[0].eq_ignore_ascii_case(b"X") && a.get(1).map(|x| x.eq_ignore_ascii_case(b"SCAN")).unwrap_or(false) {
                    let count: usize = a.iter().position(|t| t.eq_ignore_ascii_case(b"COUNT")).and_then(|i| a.get(i + 1)).and_then(|c| String::from_utf8_lossy(c).parse().ok()).unwrap_or(10);
                    let nkeys = one.dump().await.len();
                    if count >= nkeys { " count-covers-keyspace" } else { "" }
                } else {
                    ""
                };
                return Outcome {
                    fp: None,
                    violation: Some((
                        format!("{kind} {}{scan_tag}", op_shape(op)),
                        format!("{}: `{}` replied {} with {} shards but {} with 1 shard", ctx(), op, on, n, o1),
                    )),
                };
            }
            let k1 = one.dump().await;
            let kn = many.dump().await;
            if let Some((kind, desc)) = dump::diff(&k1, &kn) {
                return Outcome {
                    fp: None,
                    violation: Some((
                        { let _ = &kind; format!("keyspace {}", op_shape(op)) },
                        format!(
                            "{}: after `{}` (reply {}) the {}-shard keyspace differs from the 1-shard keyspace: {} ({}-shard: {}; 1-shard: {})",
                            ctx(), op, on, n, desc, n, dump::show_keyspace(&kn), dump::show_keyspace(&k1)
                        ),
                    )),
                };
            }
            // the script cache is server state too (EVAL registers a script that EVALSHA / SCRIPT EXISTS then see)
            let script_known = resp::show(&one.exec(&resp::line("SCRIPT EXISTS 620cd258c2c9c88c9d10db67812ccf663d96bdc6")).await);
            Outcome {
                fp: Some(format!("t={} {} scripts={}", c1.get(), dump::show_keyspace(&k1), script_known)),
                violation: None,
            }
        })
    })
}

// ---------------------------------------------------------------------------------------------
// transaction replay through the real connection handler (MULTI ... EXEC), 1 shard vs N shards
// ---------------------------------------------------------------------------------------------

/// Keys of this part: k0, k1, k2 placed with the real routing function so that k0 and k1 share a shard of N and
/// k2 does not (for N = 1 everything is on the one shard).
const TX_BODY: &[&str] = &[
    "MSET ka 1 kc 2", "MSET kc 3 ka 4 kb 5", "MGET ka kb kc", "DEL ka kc", "EXISTS ka kc ka", "SET ka x", "SET kc y NX", "APPEND kc z", "RPUSH kb a b", "GET kc",
];
const TX_READS: &[&str] = &["GET ka", "GET kb", "GET kc", "TYPE kb", "KEYS *", "DBSIZE"];

/// One connection, one pipeline: MULTI, the body, EXEC, then the reads. Returns the canonical reply transcript.
fn tx_transcript(shards: usize, keys: &[String], body: &[&str]) -> Result<Vec<String>, String> {
    polex::with_runtime(|rt| {
        rt.block_on(async {
            let mut w = ConnWorld::new(shards);
            let (st, id) = w.connect("tx", redis_sim::production::ConnectionConfig::default());
            let mut cmds: Vec<Argv> = vec![resp::line("MULTI")];
            cmds.extend(body.iter().map(|b| subst(b, keys)));
            cmds.push(resp::line("EXEC"));
            cmds.extend(TX_READS.iter().map(|b| subst(b, keys)));
            for c in &cmds {
                st.push(&resp::wire(c));
                w.settle().await?;
            }
            st.close();
            w.settle().await?;
            if !w.finished(id) {
                return Err("connection handler did not finish".into());
            }
            let (replies, rest) = decode_replies(&st.take_written());
            if !rest.is_empty() || replies.len() != cmds.len() {
                return Err(format!("{} replies for {} commands (undecodable rest {} bytes)", replies.len(), cmds.len(), rest.len()));
            }
            Ok(cmds
                .iter()
                .zip(replies.iter())
                .map(|(c, r)| {
                    let name = String::from_utf8_lossy(&c[0]).to_ascii_uppercase();
                    format!("{} -> {}", resp::show_argv(c), canon(&name, r))
                })
                .collect())
        })
    })
}

vh::use_jemalloc!();


// ---------------------------------------------------------------------------------------------
// command-set sweep: every command shape of the parsers on a key of every type, 1 shard vs N shards
// ---------------------------------------------------------------------------------------------

/// (name, seeding ops) for the key K1; K1/K2 are replaced by ka/kb/kc according to the placement.
const SWEEP_SEEDS: &[(&str, &[&str])] = &[
    ("none", &[]),
    ("string", &["X SET K1 10"]),
    ("list", &["X RPUSH K1 a b"]),
    ("set", &["X SADD K1 a b"]),
    ("hash", &["X HSET K1 a 1 b 2"]),
    ("zset", &["X ZADD K1 1 a 2 b"]),
];
/// placements (K1, K2): K1 on the one shard and K2 elsewhere, the reverse, and both on one shard
const SWEEP_PLACEMENTS: &[(&str, &str)] = &[("kc", "ka"), ("ka", "kc"), ("ka", "kb")];

/// Replies that are random or time-dependent by nature are not compared.
fn sweep_skips(a: &Argv) -> bool {
    let name = String::from_utf8_lossy(&a[0]).to_ascii_uppercase();
    let sub = a.get(1).map(|x| String::from_utf8_lossy(x).to_ascii_uppercase()).unwrap_or_default();
    // MULTI/EXEC/DISCARD/WATCH/UNWATCH are connection-level commands (the handler never forwards them to
    // ShardedActorState::execute); the transaction part above drives them through the real handler
    matches!(name.as_str(), "TIME" | "INFO" | "MULTI" | "EXEC" | "DISCARD" | "WATCH" | "UNWATCH") || (name == "SPOP" && a.len() == 2) || (name == "ACL" && sub == "GENPASS")
}

fn sweep_instances() -> Vec<Argv> {
    vh::cmdgen::all_instances(vh::cmdgen::Profile::Routing).into_iter().filter(|a| !a.is_empty() && !sweep_skips(a)).collect()
}

fn sweep_op(inst: &Argv) -> String {
    let toks: Vec<String> = inst
        .iter()
        .map(|t| match t.as_slice() {
            b"k1" => "K1".to_string(),
            b"k2" => "K2".to_string(),
            other => resp::esc(other),
        })
        .collect();
    format!("X {}", toks.join(" "))
}

fn place(op: &str, k1: &str, k2: &str) -> String {
    op.split(' ').map(|t| if t == "K1" { k1 } else if t == "K2" { k2 } else { t }).collect::<Vec<_>>().join(" ")
}

fn main() {
    let args = cli::parse_args();
    vh::quiet_panics();
    if let Some(path) = &args.replay {
        let r = vh::report::load_replay(path);
        let n = r["shards"].as_u64().unwrap() as usize;
        let keys: Vec<String> = r["keys"].as_array().unwrap().iter().map(|k| k.as_str().unwrap().to_string()).collect();
        if r["tx"] == json!(true) {
            let body: Vec<String> = r["body"].as_array().unwrap().iter().map(|k| k.as_str().unwrap().to_string()).collect();
            let body_ref: Vec<&str> = body.iter().map(|s| s.as_str()).collect();
            let one = tx_transcript(1, &keys, &body_ref);
            let many = tx_transcript(n, &keys, &body_ref);
            println!("1 shard : {:?}", one);
            println!("{n} shards: {:?}", many);
            if one != many || one.is_err() {
                println!("VIOLATION property=C03 replay={} (transaction-replay)", path.display());
                std::process::exit(1);
            }
            println!("replay: no violation");
            std::process::exit(0);
        }
        let hist: Vec<String> = r["history"].as_array().unwrap().iter().map(|k| k.as_str().unwrap().to_string()).collect();
        let hist_ref: Vec<&str> = hist.iter().map(|s| s.as_str()).collect();
        let op = r["op"].as_str().unwrap();
        let o = run(n, &keys, &hist_ref, op);
        match o.violation {
            Some((sig, detail)) => {
                println!("{detail}");
                println!("VIOLATION property=C03 replay={} ({sig})", path.display());
                std::process::exit(1);
            }
            None => {
                println!("replay: no violation; state {}", o.fp.unwrap_or_default());
                std::process::exit(0);
            }
        }
    }
    let rep = Reporter::new("C03", "model_checking", &args);
    let shard_counts: Vec<usize> = if args.tier == Tier::Thorough { vec![2, 3, 4, 5, 16] } else { vec![2, 3, 16] };
    let depth = if args.tier == Tier::Thorough { 5 } else { 4 };
    let alpha = alphabet(args.tier);
    let budget = Duration::from_secs(if args.tier == Tier::Thorough { 600 } else { 25 });
    let mut configs = Vec::new();
    let (mut states, mut transitions) = (0u64, 0u64);
    let mut exhaustive = true;
    for n in shard_counts {
        let (keys, info) = pick_keys(n);
        let mut bfs = Bfs::new(alpha.len(), depth);
        bfs.deadline = Some(Instant::now() + budget);
        bfs.probe_duplicates = args.tier == Tier::Quick && n == 2;
        let stats = bfs.run(&format!("t={T0} <empty> scripts=[:0]"), |hist, o| {
            let h: Vec<&str> = hist.iter().map(|i| alpha[*i as usize]).collect();
            let op = alpha[o as usize];
            let out = run(n, &keys, &h, op);
            if let Some((sig, detail)) = out.violation {
                rep.violation(sig, detail, json!({"shards": n, "keys": keys, "history": h, "op": op}));
                return None;
            }
            out.fp
        });
        eprintln!(
            "shards={n}: keys={:?} depth={} completed={} states={} transitions={} violating={} truncated={} ({:.1}s)",
            keys, depth, stats.depth_completed, stats.states, stats.transitions, stats.pruned_transitions, stats.truncated, rep.elapsed_s()
        );
        states += stats.states;
        transitions += stats.transitions;
        if stats.truncated {
            exhaustive = false;
        }
        configs.push(json!({"config": info, "depth_bound": depth, "depth_completed": stats.depth_completed, "states": stats.states,
            "transitions": stats.transitions, "violating_transitions": stats.pruned_transitions, "truncated_by_time_cap": stats.truncated}));
    }
    // ---- transaction replay: every body of 1-2 commands over TX_BODY, N in the tier's shard counts
    let mut tx_cases = 0u64;
    {
        let bodies: Vec<Vec<&str>> = TX_BODY.iter().map(|a| vec![*a]).chain(TX_BODY.iter().flat_map(|a| TX_BODY.iter().map(move |b| vec![*a, *b]))).collect();
        let tx_shards: Vec<usize> = if args.tier == Tier::Thorough { vec![2, 3, 4, 5, 16] } else { vec![2, 3] };
        let items: Vec<(usize, usize)> = tx_shards.iter().flat_map(|n| (0..bodies.len()).map(move |b| (*n, b))).collect();
        tx_cases = items.len() as u64;
        vh::par::par_map(&items, |_, (n, bi)| {
            let (keys, _) = pick_keys(*n);
            let body = &bodies[*bi];
            let one = tx_transcript(1, &keys, body);
            let many = tx_transcript(*n, &keys, body);
            let replay = json!({"tx": true, "shards": n, "keys": keys, "body": body});
            match (one, many) {
                (Ok(a), Ok(b)) => {
                    if a != b {
                        let i = (0..a.len().min(b.len())).find(|i| a[*i] != b[*i]).unwrap_or(0);
                        let names: Vec<&str> = body.iter().map(|c| c.split(' ').next().unwrap()).collect();
                        rep.violation(
                            format!("transaction-replay body=[{}]", names.join(",")),
                            format!("shards={n} keys={:?}: MULTI; {}; EXEC; reads: with {n} shards `{}` but with 1 shard `{}`", keys, body.join("; "), b.get(i).cloned().unwrap_or_default(), a.get(i).cloned().unwrap_or_default()),
                            replay,
                        );
                    }
                }
                (Err(e), _) | (_, Err(e)) => rep.violation("transaction-replay no-reply-or-hang".to_string(), format!("shards={n} body {:?}: {e}", body), replay),
            }
        });
    }
    // ---- one SCAN call whose COUNT covers the whole keyspace: m keys (so that some shard holds several of them),
    // COUNT m / m+1 / 2m / 1000 and no COUNT when m <= 10, with and without MATCH; the 1-shard server returns every key
    // with cursor 0, and so must the N-shard one
    let mut scan_cover_cases = 0u64;
    {
        let scan_shards: Vec<usize> = if args.tier == Tier::Thorough { vec![2, 3, 4, 5, 8, 16] } else { vec![2, 4, 16] };
        let sizes: &[usize] = if args.tier == Tier::Thorough { &[1, 2, 3, 5, 8, 10, 13, 20, 33, 64] } else { &[2, 5, 10, 20, 64] };
        let mut items: Vec<(usize, usize, String)> = Vec::new();
        for n in &scan_shards {
            for m in sizes {
                let mut counts: Vec<String> = vec![format!(" COUNT {m}"), format!(" COUNT {}", m + 1), format!(" COUNT {}", 2 * m), " COUNT 1000".to_string()];
                if *m <= 10 {
                    counts.push(String::new());
                }
                for c in counts {
                    items.push((*n, *m, format!("X SCAN 0{c}")));
                    items.push((*n, *m, format!("X SCAN 0 MATCH user:*{c}")));
                }
            }
        }
        scan_cover_cases = items.len() as u64;
        vh::par::par_map(&items, |_, (n, m, op)| {
            let (keys, _) = pick_keys(*n);
            let hist: Vec<String> = (0..*m).map(|i| format!("X SET user:{i:03} v")).collect();
            let h: Vec<&str> = hist.iter().map(|x| x.as_str()).collect();
            let out = run(*n, &keys, &h, op);
            if let Some((sig, detail)) = out.violation {
                rep.violation(sig, detail, json!({"shards": n, "keys": keys, "history": h, "op": op}));
            }
        });
    }
    // ---- command-set sweep: every command shape x key type x placement x N
    let sweep_shards: Vec<usize> = if args.tier == Tier::Thorough { vec![2, 3, 4, 5, 16] } else { vec![2, 3, 16] };
    let insts = sweep_instances();
    let mut sweep_items: Vec<(usize, usize, usize, usize, bool)> = Vec::new();
    for n in &sweep_shards {
        for i in 0..insts.len() {
            let two_key = insts[i].iter().any(|t| t.as_slice() == b"k2");
            let keyed = two_key || insts[i].iter().any(|t| t.as_slice() == b"k1");
            for s in 0..SWEEP_SEEDS.len() {
                if !keyed && s > 1 {
                    continue; // key-less commands: an empty keyspace and one with a string are enough
                }
                for p in 0..SWEEP_PLACEMENTS.len() {
                    if p == 2 && !two_key {
                        continue;
                    }
                    sweep_items.push((*n, i, s, p, false));
                    if two_key {
                        sweep_items.push((*n, i, s, p, true));
                    }
                }
            }
        }
    }
    let sweep_cases = sweep_items.len() as u64;
    vh::par::par_map(&sweep_items, |_, (n, i, s, p, k2_set)| {
        let (keys, _) = pick_keys(*n);
        let (k1, k2) = SWEEP_PLACEMENTS[*p];
        let mut hist: Vec<String> = SWEEP_SEEDS[*s].1.iter().map(|h| place(h, k1, k2)).collect();
        if *k2_set {
            hist.push(place("X SET K2 9", k1, k2));
        }
        let h: Vec<&str> = hist.iter().map(|x| x.as_str()).collect();
        let op = place(&sweep_op(&insts[*i]), k1, k2);
        let out = run(*n, &keys, &h, &op);
        if let Some((sig, detail)) = out.violation {
            rep.violation(sig, detail, json!({"shards": n, "keys": keys, "history": h, "op": op}));
        }
    });
    eprintln!("command-set sweep: {} instances, {} cases ({:.1}s)", insts.len(), sweep_cases, rep.elapsed_s());
    let coverage = json!({
        "transaction_replay_cases": tx_cases,
        "scan_calls_whose_count_covers_the_keyspace": {"cases": scan_cover_cases, "rule": "m keys user:000.. (2..64: some shard holds several), one SCAN 0 [MATCH user:*] with COUNT m, m+1, 2m, 1000 (and no COUNT for m <= 10): reply and keyspace equal to the 1-shard server's"},
        "command_set_sweep": {"command_instances": insts.len(), "cases": sweep_cases, "key_types": SWEEP_SEEDS.iter().map(|x| x.0).collect::<Vec<_>>(), "placements_k1_k2": SWEEP_PLACEMENTS, "shard_counts": sweep_shards, "not_compared": "TIME, INFO, ACL GENPASS, SPOP without count (random or time-dependent replies); MULTI/EXEC/DISCARD/WATCH/UNWATCH (connection-level, see transaction_replay)"},
        "states": states,
        "transitions": transitions,
        "traces_validated_against_impl": transitions,
        "samples": [
            {"sequence": ["FS ka f", "X APPEND ka z", "X GET ka"], "meaning": "fast-path SET then generic commands on the same key"},
            {"sequence": ["X MSET ka 1 kb 2 kc 3", "X RENAME ka kc", "X KEYS *"], "meaning": "multi-key and two-key commands across shards"},
        ],
        "alphabet": alpha,
        "per_shard_count": configs,
        "exhaustive": exhaustive,
        "rule": "BFS over all op sequences up to the depth bound (entry paths: X generic execute, FG/FS fast, PG/PS pooled, BG/BS batch pipeline, SCANALL full cursor iteration, ADV clock); every op is applied to a 1-shard and an N-shard real ShardedActorState; replies compared (unordered replies as multisets, RANDOMKEY by validity) and the aggregate visible keyspace compared after every step; states deduplicated on (clock, 1-shard keyspace)",
    });
    rep.finish(
        coverage,
        vec![
            "the 1-shard instance is the reference (its own conformance to Redis is C01's business)".into(),
            "sequential client: shard actors are polled to quiescence after every call, so scheduling is not a dimension here (C02 covers it)".into(),
            "keys are chosen with the exported routing functions so that two keys collide, one does not, and (if such a key exists) string- and bytes-routing differ for ka".into(),
        ],
    );
}
