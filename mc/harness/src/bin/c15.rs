//! C15 — RESP decoding is total, bounded, prefix-stable; replies re-decode to themselves.
//!
//! BYTEX on the two real decoders `RespCodec::parse(&mut BytesMut)` and `RespParser::parse(&[u8])`
//! and the three real encoders. Parts (DESIGN.md §5.15):
//!  (i)   every byte string of length <= n over a 14-symbol alphabet (child processes, journalled);
//!  (ii)  grammar-near families (type byte x length/number field x payload size x CR/LF placement,
//!        bare and as array element) with every prefix; nested arrays of depth 2^k in a child;
//!  (iii) every stream of <= 3 valid frames x every prefix length, every 1-cut fragmentation and
//!        byte-by-byte feeding;
//!  (iv)  every reply tree of depth <= 2 over a leaf set x 3 encoders x 2 decoders.
//!
//! What counts as which outcome (read from the code, see `eval`):
//!   RespCodec : Ok(Some(v)) = value, consumed = bytes removed from the buffer; Ok(None) = "more
//!               bytes needed"; Err(_) = protocol error.
//!   RespParser: Ok((v,n)) = value; Err("Empty input" | "No CRLF found" | "Incomplete bulk string")
//!               = "more bytes needed"; any other Err = protocol error.
//! Oracle per evaluation: no panic; a value consumes 1..=len bytes and leaves exactly the rest in the
//! buffer; "more bytes needed" leaves the buffer untouched; largest single allocation request
//! <= C0 + C1*len. Across evaluations: a value / an error reported for s is reported unchanged for
//! every extension of s (so fragmenting cannot change the frames); "more bytes needed" must be
//! satisfiable: some continuation makes the decoder leave that answer. Grammar oracle on (i)/(ii):
//! the header line ends at the FIRST CRLF of the input (see `grammar_findings`). Leniency (accepting input a
//! strict RESP reader would reject) is NOT flagged.
use bytes::BytesMut;
use redis_sim::production::verif_encode_resp_into;
use redis_sim::redis::{RespCodec, RespParser, RespValue, RespValueZeroCopy};
use serde_json::{json, Value};
use std::alloc::{GlobalAlloc, Layout, System};
use std::borrow::Cow;
use std::cell::Cell;
use std::collections::{BTreeMap, BTreeSet};
use std::panic::{catch_unwind, AssertUnwindSafe};
use std::sync::atomic::{AtomicU64, Ordering};
use vh::resp::esc;
use vh::{par, Reporter, Tier};

// ---------------------------------------------------------------------------------------------
// counting allocator: largest single request per thread since the last reset; oversize requests
// (> 64 MiB) are served from an untouched MAP_NORESERVE mapping so that the sweep survives them
// ---------------------------------------------------------------------------------------------
const OVERSIZE: usize = 64 << 20;
/// allocation bound: largest single request must be <= C0 + C1 * input length
const C0: usize = 1024;
const C1: usize = 64;

thread_local! {
    static MAX_REQ: Cell<usize> = const { Cell::new(0) };
}

extern "C" {
    fn mmap(addr: *mut u8, len: usize, prot: i32, flags: i32, fd: i32, off: i64) -> *mut u8;
    fn munmap(addr: *mut u8, len: usize) -> i32;
}
const PROT_RW: i32 = 1 | 2;
const MAP_SHARED: i32 = 0x01;
const MAP_PRIVATE: i32 = 0x02;
const MAP_ANONYMOUS: i32 = 0x20;
const MAP_NORESERVE: i32 = 0x4000;

struct Counting;

#[inline]
fn note_request(size: usize) {
    let _ = MAX_REQ.try_with(|m| {
        if size > m.get() {
            m.set(size)
        }
    });
}

unsafe fn big_alloc(size: usize) -> *mut u8 {
    let p = mmap(std::ptr::null_mut(), size, PROT_RW, MAP_PRIVATE | MAP_ANONYMOUS | MAP_NORESERVE, -1, 0);
    if p as isize == -1 {
        std::ptr::null_mut() // -> handle_alloc_error -> abort; the journal attributes it to the input
    } else {
        p
    }
}

unsafe impl GlobalAlloc for Counting {
    unsafe fn alloc(&self, l: Layout) -> *mut u8 {
        note_request(l.size());
        if l.size() > OVERSIZE {
            return big_alloc(l.size());
        }
        System.alloc(l)
    }
    unsafe fn alloc_zeroed(&self, l: Layout) -> *mut u8 {
        note_request(l.size());
        if l.size() > OVERSIZE {
            return big_alloc(l.size()); // fresh anonymous mappings are zero
        }
        System.alloc_zeroed(l)
    }
    unsafe fn dealloc(&self, p: *mut u8, l: Layout) {
        if l.size() > OVERSIZE {
            munmap(p, l.size());
            return;
        }
        System.dealloc(p, l)
    }
    unsafe fn realloc(&self, p: *mut u8, l: Layout, new_size: usize) -> *mut u8 {
        note_request(new_size);
        if l.size() <= OVERSIZE && new_size <= OVERSIZE {
            return System.realloc(p, l, new_size);
        }
        let nl = Layout::from_size_align_unchecked(new_size, l.align());
        let np = if new_size > OVERSIZE { big_alloc(new_size) } else { System.alloc(nl) };
        if !np.is_null() {
            std::ptr::copy_nonoverlapping(p, np, l.size().min(new_size));
            self.dealloc(p, l);
        }
        np
    }
}

#[global_allocator]
static GLOBAL: Counting = Counting;

static EVALS: AtomicU64 = AtomicU64::new(0);

// ---------------------------------------------------------------------------------------------
// values, decoders, outcomes
// ---------------------------------------------------------------------------------------------
const SIGMA: [u8; 14] = [b'+', b'-', b':', b'$', b'*', b'0', b'1', b'2', b'3', b'9', b'\r', b'\n', b'a', 0xFF];

/// decoder-neutral RESP tree
#[derive(Clone, Debug, PartialEq, Eq, PartialOrd, Ord)]
enum T {
    S(Vec<u8>),
    E(Vec<u8>),
    I(i64),
    B(Option<Vec<u8>>),
    A(Option<Vec<T>>),
}

fn show_t(t: &T) -> String {
    match t {
        T::S(s) => format!("+{}", esc(s)),
        T::E(s) => format!("-{}", esc(s)),
        T::I(i) => format!(":{i}"),
        T::B(None) => "$nil".into(),
        T::B(Some(b)) => {
            if b.len() > 40 {
                format!("$<{} bytes>", b.len())
            } else {
                format!("${}", esc(b))
            }
        }
        T::A(None) => "*nil".into(),
        T::A(Some(v)) => {
            if v.len() > 8 {
                format!("[{} elements, first {}]", v.len(), show_t(&v[0]))
            } else {
                format!("[{}]", v.iter().map(show_t).collect::<Vec<_>>().join(","))
            }
        }
    }
}

fn shape(t: &T) -> &'static str {
    match t {
        T::S(_) => "simple",
        T::E(_) => "error",
        T::I(_) => "int",
        T::B(None) => "nil-bulk",
        T::B(Some(_)) => "bulk",
        T::A(None) => "nil-array",
        T::A(Some(_)) => "array",
    }
}

fn t_json(t: &T) -> Value {
    match t {
        T::S(s) => json!({"s": hex(s)}),
        T::E(s) => json!({"e": hex(s)}),
        T::I(i) => json!({"i": i}),
        T::B(None) => json!({"b": null}),
        T::B(Some(b)) => json!({"b": hex(b)}),
        T::A(None) => json!({"a": null}),
        T::A(Some(v)) => json!({"a": v.iter().map(t_json).collect::<Vec<_>>()}),
    }
}

fn t_from_json(v: &Value) -> T {
    if let Some(s) = v.get("s") {
        T::S(unhex(s.as_str().unwrap_or("")))
    } else if let Some(s) = v.get("e") {
        T::E(unhex(s.as_str().unwrap_or("")))
    } else if let Some(i) = v.get("i") {
        T::I(i.as_i64().unwrap_or(0))
    } else if let Some(b) = v.get("b") {
        T::B(b.as_str().map(unhex))
    } else {
        match v.get("a").and_then(|a| a.as_array()) {
            Some(a) => T::A(Some(a.iter().map(t_from_json).collect())),
            None => T::A(None),
        }
    }
}

/// reference encoding (canonical RESP2) used to build valid streams
fn enc_ref(t: &T, out: &mut Vec<u8>) {
    match t {
        T::S(s) => {
            out.push(b'+');
            out.extend_from_slice(s);
            out.extend_from_slice(b"\r\n");
        }
        T::E(s) => {
            out.push(b'-');
            out.extend_from_slice(s);
            out.extend_from_slice(b"\r\n");
        }
        T::I(i) => out.extend_from_slice(format!(":{i}\r\n").as_bytes()),
        T::B(None) => out.extend_from_slice(b"$-1\r\n"),
        T::B(Some(b)) => {
            out.extend_from_slice(format!("${}\r\n", b.len()).as_bytes());
            out.extend_from_slice(b);
            out.extend_from_slice(b"\r\n");
        }
        T::A(None) => out.extend_from_slice(b"*-1\r\n"),
        T::A(Some(v)) => {
            out.extend_from_slice(format!("*{}\r\n", v.len()).as_bytes());
            for e in v {
                enc_ref(e, out);
            }
        }
    }
}

fn from_zc(v: &RespValueZeroCopy) -> T {
    match v {
        RespValueZeroCopy::SimpleString(b) => T::S(b.to_vec()),
        RespValueZeroCopy::Error(b) => T::E(b.to_vec()),
        RespValueZeroCopy::Integer(i) => T::I(*i),
        RespValueZeroCopy::BulkString(b) => T::B(b.as_ref().map(|x| x.to_vec())),
        RespValueZeroCopy::Array(a) => T::A(a.as_ref().map(|v| v.iter().map(from_zc).collect())),
    }
}

fn from_rv(v: &RespValue) -> T {
    match v {
        RespValue::SimpleString(s) => T::S(s.as_bytes().to_vec()),
        RespValue::Error(s) => T::E(s.as_bytes().to_vec()),
        RespValue::Integer(i) => T::I(*i),
        RespValue::BulkString(b) => T::B(b.clone()),
        RespValue::Array(a) => T::A(a.as_ref().map(|v| v.iter().map(from_rv).collect())),
    }
}

fn to_zc(t: &T) -> RespValueZeroCopy {
    match t {
        T::S(s) => RespValueZeroCopy::SimpleString(bytes::Bytes::copy_from_slice(s)),
        T::E(s) => RespValueZeroCopy::Error(bytes::Bytes::copy_from_slice(s)),
        T::I(i) => RespValueZeroCopy::Integer(*i),
        T::B(b) => RespValueZeroCopy::BulkString(b.as_ref().map(|x| bytes::Bytes::copy_from_slice(x))),
        T::A(a) => RespValueZeroCopy::Array(a.as_ref().map(|v| v.iter().map(to_zc).collect())),
    }
}

fn to_rv(t: &T) -> RespValue {
    match t {
        T::S(s) => RespValue::SimpleString(Cow::Owned(String::from_utf8(s.clone()).expect("utf8 leaf"))),
        T::E(s) => RespValue::Error(Cow::Owned(String::from_utf8(s.clone()).expect("utf8 leaf"))),
        T::I(i) => RespValue::Integer(*i),
        T::B(b) => RespValue::BulkString(b.clone()),
        T::A(a) => RespValue::Array(a.as_ref().map(|v| v.iter().map(to_rv).collect())),
    }
}

#[derive(Clone, Copy, Debug, PartialEq, Eq)]
enum Dec {
    Codec,
    Parser,
}
const DECS: [Dec; 2] = [Dec::Codec, Dec::Parser];

impl Dec {
    fn name(self) -> &'static str {
        match self {
            Dec::Codec => "RespCodec",
            Dec::Parser => "RespParser",
        }
    }
    fn idx(self) -> usize {
        match self {
            Dec::Codec => 0,
            Dec::Parser => 1,
        }
    }
    fn from_name(s: &str) -> Dec {
        if s == "RespParser" {
            Dec::Parser
        } else {
            Dec::Codec
        }
    }
}

#[derive(Clone, Debug, PartialEq)]
enum Out {
    Value(T, usize),
    Incomplete,
    Error(String),
    Panic(String),
}

impl Out {
    fn kind(&self) -> &'static str {
        match self {
            Out::Value(..) => "value",
            Out::Incomplete => "incomplete",
            Out::Error(_) => "error",
            Out::Panic(_) => "panic",
        }
    }
    fn kidx(&self) -> usize {
        match self {
            Out::Value(..) => 0,
            Out::Incomplete => 1,
            Out::Error(_) => 2,
            Out::Panic(_) => 3,
        }
    }
    fn show(&self) -> String {
        match self {
            Out::Value(t, n) => format!("value {} consuming {n} bytes", show_t(t)),
            Out::Incomplete => "\"more bytes needed\"".into(),
            Out::Error(e) => format!("protocol error \"{e}\""),
            Out::Panic(p) => format!("PANIC \"{p}\""),
        }
    }
}

struct Eval {
    out: Out,
    max_alloc: usize,
    /// API-contract flaw other than a panic (over-read, buffer damaged …): (kind, text)
    flaw: Option<(&'static str, String)>,
}

/// The RespParser error strings that mean "more bytes needed" (src/redis/resp.rs).
const PARSER_INCOMPLETE: [&str; 3] = ["Empty input", "No CRLF found", "Incomplete bulk string"];

/// One decoding step of RespCodec on a live buffer (the way the connection handlers call it).
fn codec_step(buf: &mut BytesMut) -> Eval {
    EVALS.fetch_add(1, Ordering::Relaxed);
    let before: Vec<u8> = buf.to_vec();
    MAX_REQ.with(|m| m.set(0));
    let r = catch_unwind(AssertUnwindSafe(|| RespCodec::parse(buf)));
    let max_alloc = MAX_REQ.with(|m| m.get());
    let mut flaw = None;
    let out = match r {
        Err(p) => Out::Panic(vh::panic_text(&p)),
        Ok(Ok(Some(v))) => {
            let consumed = before.len().saturating_sub(buf.len());
            if buf.len() > before.len() || consumed == 0 {
                flaw = Some(("over-read", format!("value returned but buffer went from {} to {} bytes", before.len(), buf.len())));
            } else if buf[..] != before[consumed..] {
                flaw = Some(("buffer-damaged", "bytes left in the buffer are not the unconsumed suffix".to_string()));
            }
            Out::Value(from_zc(&v), consumed)
        }
        Ok(Ok(None)) => {
            if buf[..] != before[..] {
                flaw = Some(("buffer-damaged", "\"more bytes needed\" but the buffer was modified".to_string()));
            }
            Out::Incomplete
        }
        Ok(Err(e)) => Out::Error(e),
    };
    Eval { out, max_alloc, flaw }
}

fn parser_step(s: &[u8]) -> Eval {
    EVALS.fetch_add(1, Ordering::Relaxed);
    MAX_REQ.with(|m| m.set(0));
    let r = catch_unwind(|| RespParser::parse(s));
    let max_alloc = MAX_REQ.with(|m| m.get());
    let mut flaw = None;
    let out = match r {
        Err(p) => Out::Panic(vh::panic_text(&p)),
        Ok(Ok((v, n))) => {
            if n > s.len() || n == 0 {
                flaw = Some(("over-read", format!("value reported to occupy {n} bytes of a {}-byte input", s.len())));
            }
            Out::Value(from_rv(&v), n)
        }
        Ok(Err(e)) => {
            if PARSER_INCOMPLETE.contains(&e.as_str()) {
                Out::Incomplete
            } else {
                Out::Error(e)
            }
        }
    };
    Eval { out, max_alloc, flaw }
}

fn eval(dec: Dec, s: &[u8]) -> Eval {
    match dec {
        Dec::Codec => {
            let mut b = BytesMut::from(s);
            codec_step(&mut b)
        }
        Dec::Parser => parser_step(s),
    }
}

// ---------------------------------------------------------------------------------------------
// input classes for signatures
// ---------------------------------------------------------------------------------------------
fn find_crlf(s: &[u8]) -> Option<usize> {
    (0..s.len().saturating_sub(1)).find(|&i| s[i] == b'\r' && s[i + 1] == b'\n')
}

fn canonical_len(f: &[u8]) -> Option<i64> {
    let st = std::str::from_utf8(f).ok()?;
    let n: i64 = st.parse().ok()?;
    if n.to_string() == st {
        Some(n)
    } else {
        None
    }
}

/// Length of a strictly well-formed frame at the start of `s` (used only to find the element an
/// input class refers to; never part of an oracle).
fn skip_strict(s: &[u8], depth: usize) -> Option<usize> {
    if s.is_empty() || depth > 8 {
        return None;
    }
    let h = find_crlf(s)?;
    match s[0] {
        b'+' | b'-' => {
            if s[1..h].iter().any(|&c| c == b'\r' || c == b'\n') {
                None
            } else {
                Some(h + 2)
            }
        }
        b':' => canonical_len(&s[1..h]).map(|_| h + 2),
        b'$' => {
            let n = canonical_len(&s[1..h])?;
            if n == -1 {
                return Some(h + 2);
            }
            if n < 0 {
                return None;
            }
            let end = (h + 2).checked_add(n as usize)?;
            if end.checked_add(2)? <= s.len() && &s[end..end + 2] == b"\r\n" {
                Some(end + 2)
            } else {
                None
            }
        }
        b'*' => {
            let n = canonical_len(&s[1..h])?;
            if n == -1 {
                return Some(h + 2);
            }
            if n < 0 {
                return None;
            }
            let mut off = h + 2;
            for _ in 0..n {
                if off >= s.len() {
                    return None;
                }
                off += skip_strict(&s[off..], depth + 1)?;
            }
            Some(off)
        }
        _ => None,
    }
}

/// The frame the input class describes: descend through array headers (count >= 1) and skip
/// well-formed leading elements until the first element that is not a complete well-formed frame.
/// With `stop_at_oversized` the descent stops at the first array header that announces more
/// elements than there are bytes left (the frame responsible for a length-driven allocation).
fn culprit(mut s: &[u8], stop_at_oversized: bool) -> &[u8] {
    for _ in 0..8 {
        if s.first() != Some(&b'*') {
            break;
        }
        let Some(h) = find_crlf(s) else { break };
        let Some(n) = std::str::from_utf8(&s[1..h]).ok().and_then(|x| x.parse::<i64>().ok()) else { break };
        if n < 1 {
            break;
        }
        if stop_at_oversized && n as u64 > (s.len() - h - 2) as u64 {
            break;
        }
        let mut off = h + 2;
        let mut skipped = 0;
        while skipped < n && off < s.len() {
            match skip_strict(&s[off..], 0) {
                Some(l) => {
                    off += l;
                    skipped += 1;
                }
                None => break,
            }
        }
        if skipped < n && off < s.len() {
            s = &s[off..];
        } else {
            break;
        }
    }
    s
}

/// Input class for a finding of `kind` (`msg` = panic text if any): allocation findings and
/// capacity-overflow panics are attributed to the array header that announced the length, everything
/// else to the innermost unfinished frame.
fn classify_for(input: &[u8], kind: &str, msg: &str) -> String {
    let by_length = kind == "alloc-unbounded" || (kind == "panic" && msg.contains("capacity overflow"));
    classify_frame(culprit(input, by_length))
}

fn classify(input: &[u8]) -> String {
    classify_frame(culprit(input, false))
}

fn classify_frame(s: &[u8]) -> String {
    if s.is_empty() {
        return "empty-input".into();
    }
    let ty = match s[0] {
        b'+' => "simple-string",
        b'-' => "error-line",
        b':' => "integer",
        b'$' => "bulk-header",
        b'*' => "array-header",
        _ => return "unknown-type-byte".into(),
    };
    // first CR of the frame is followed by a byte other than LF
    if let Some(p) = s.iter().position(|&c| c == b'\r') {
        if p + 1 < s.len() && s[p + 1] != b'\n' {
            return "header-line lone-CR".into();
        }
    }
    if s[0] == b'+' || s[0] == b'-' {
        return format!("{ty} text");
    }
    let end = s.iter().position(|&c| c == b'\r' || c == b'\n').unwrap_or(s.len());
    let f = &s[1..end];
    let fc = match std::str::from_utf8(f).ok().and_then(|x| x.parse::<i64>().ok()) {
        Some(n) => {
            if s[0] == b':' {
                "number"
            } else if n < -1 {
                "negative-length"
            } else if n == -1 {
                "null-length"
            } else if n as u64 > s.len().saturating_sub(end) as u64 {
                "length-beyond-input"
            } else {
                "length-within-input"
            }
        }
        None => {
            let digits = f.strip_prefix(b"-").or_else(|| f.strip_prefix(b"+")).unwrap_or(f);
            if !digits.is_empty() && digits.iter().all(|c| c.is_ascii_digit()) {
                "overflowing-number"
            } else {
                "non-numeric-field"
            }
        }
    };
    format!("{ty} {fc}")
}

// ---------------------------------------------------------------------------------------------
// accumulation of findings and counts (child -> parent as JSON)
// ---------------------------------------------------------------------------------------------
#[derive(Default)]
struct Acc {
    inputs: u64,
    nontrivial: u64,
    hist: [[u64; 4]; 2],
    live: [u64; 3], // completed, stuck, undecided
    disagree: u64,
    findings: BTreeMap<String, (String, Value, u64)>,
    samples: Vec<Value>,
}

impl Acc {
    fn add(&mut self, sig: String, detail: String, replay: Value) {
        match self.findings.get_mut(&sig) {
            Some(e) => e.2 += 1,
            None => {
                self.findings.insert(sig, (detail, replay, 1));
            }
        }
    }
    fn to_json(&self) -> Value {
        json!({
            "inputs": self.inputs,
            "nontrivial": self.nontrivial,
            "hist": self.hist,
            "live": self.live,
            "disagree": self.disagree,
            "evals": EVALS.load(Ordering::Relaxed),
            "findings": self.findings.iter().map(|(s, (d, r, c))| json!({"sig": s, "detail": d, "replay": r, "count": c})).collect::<Vec<_>>(),
            "samples": self.samples,
        })
    }
    fn merge_json(&mut self, v: &Value) -> u64 {
        self.inputs += v["inputs"].as_u64().unwrap_or(0);
        self.nontrivial += v["nontrivial"].as_u64().unwrap_or(0);
        for d in 0..2 {
            for k in 0..4 {
                self.hist[d][k] += v["hist"][d][k].as_u64().unwrap_or(0);
            }
        }
        for k in 0..3 {
            self.live[k] += v["live"][k].as_u64().unwrap_or(0);
        }
        self.disagree += v["disagree"].as_u64().unwrap_or(0);
        for f in v["findings"].as_array().cloned().unwrap_or_default() {
            let sig = f["sig"].as_str().unwrap_or("").to_string();
            let c = f["count"].as_u64().unwrap_or(1);
            match self.findings.get_mut(&sig) {
                Some(e) => e.2 += c,
                None => {
                    self.findings.insert(sig, (f["detail"].as_str().unwrap_or("").to_string(), f["replay"].clone(), c));
                }
            }
        }
        for s in v["samples"].as_array().cloned().unwrap_or_default() {
            if self.samples.len() < 12 {
                self.samples.push(s);
            }
        }
        v["evals"].as_u64().unwrap_or(0)
    }
    fn merge(&mut self, o: Acc) {
        let j = o.to_json();
        self.merge_json(&j);
    }
}

fn input_replay(dec: Dec, s: &[u8], kind: &str) -> Value {
    json!({"part": "input", "decoder": dec.name(), "input_hex": hex(s), "input": esc(s), "kind": kind})
}

/// Findings that concern a single evaluation: panic, contract flaw, allocation bound.
fn basic_findings(acc: &mut Acc, dec: Dec, s: &[u8], e: &Eval) {
    if let Out::Panic(msg) = &e.out {
        acc.add(
            format!("{} {} panic", dec.name(), classify_for(s, "panic", msg)),
            format!("{}::parse on `{}` ({} bytes) panicked: {}", dec.name(), esc(s), s.len(), msg),
            input_replay(dec, s, "panic"),
        );
    }
    if let Some((kind, text)) = &e.flaw {
        acc.add(
            format!("{} {} {}", dec.name(), classify(s), kind),
            format!("{}::parse on `{}`: {}", dec.name(), esc(s), text),
            input_replay(dec, s, kind),
        );
    }
    if e.max_alloc > C0 + C1 * s.len() {
        acc.add(
            format!("{} {} alloc-unbounded", dec.name(), classify_for(s, "alloc-unbounded", "")),
            format!(
                "{}::parse on `{}` ({} bytes) requested a single allocation of {} bytes (bound {} + {}*len = {}); outcome {}",
                dec.name(),
                esc(s),
                s.len(),
                e.max_alloc,
                C0,
                C1,
                C0 + C1 * s.len(),
                e.out.show()
            ),
            input_replay(dec, s, "alloc-unbounded"),
        );
    }
}

/// Grammar oracle for the header line ("the exact number of bytes it occupies"): in RESP the header
/// line — the whole frame for + - :, the length line for $ and * — ends at the FIRST CRLF of the
/// input. For an input that starts with a type byte and contains a CRLF (first one at p):
///  (1) + - : are complete: never "more bytes needed";
///  (2) a value for + - : occupies exactly p + 2 bytes;
///  (3) for $ and * the length field is exactly input[1..p]: if that is not a number (i64 parse of
///      exactly those bytes fails) the answer is never "more bytes needed", and never a value when the
///      field holds a byte that no reading accepts (anything but digits, sign, space);
///  (4) a bulk value with numeric field n occupies exactly p + 2 (n = -1) or p + 2 + n + 2 bytes.
fn grammar_findings(acc: &mut Acc, dec: Dec, s: &[u8], out: &Out) {
    if s.is_empty() || !b"+-:$*".contains(&s[0]) {
        return;
    }
    let Some(p) = find_crlf(s) else { return };
    let mut bad: Option<(&'static str, String)> = None;
    if matches!(s[0], b'+' | b'-' | b':') {
        match out {
            Out::Incomplete => bad = Some(("incomplete", format!("the line is terminated by the CRLF at index {p}, the frame is complete"))),
            Out::Value(_, n) if *n != p + 2 => bad = Some(("wrong-length", format!("the frame ends with the first CRLF at index {p} and occupies {} bytes", p + 2))),
            _ => {}
        }
    } else {
        let field = &s[1..p];
        let num = std::str::from_utf8(field).ok().and_then(|x| x.parse::<i64>().ok());
        match (num, out) {
            (None, Out::Incomplete) => bad = Some(("incomplete", format!("the length line ends at the first CRLF (index {p}); its field `{}` is not a length, no further byte can change that", esc(field)))),
            (None, Out::Value(..)) if field.iter().any(|c| !(c.is_ascii_digit() || b"+- ".contains(c))) => {
                bad = Some(("invalid-length-accepted", format!("the length line ends at the first CRLF (index {p}); its field `{}` is not a length", esc(field))))
            }
            (Some(n), Out::Value(_, c)) if s[0] == b'$' && n >= -1 => {
                let want = if n == -1 { Some(p + 2) } else { (p + 4).checked_add(n as usize) };
                if want != Some(*c) {
                    bad = Some(("wrong-length", format!("a bulk string announced as {n} bytes after the header line of {} bytes occupies {:?} bytes", p + 2, want)));
                }
            }
            _ => {}
        }
    }
    if let Some((kind, why)) = bad {
        let kind_full = format!("not-terminated-at-first-CRLF {kind}");
        acc.add(
            format!("{} header-line {}", dec.name(), kind_full),
            format!("{}::parse on `{}` answers {}; {}", dec.name(), esc(s), out.show(), why),
            input_replay(dec, s, &kind_full),
        );
    }
}

/// Stability under extension: `shorter` is the outcome on a proper prefix of `s`.
fn stability_findings(acc: &mut Acc, dec: Dec, s: &[u8], plen: usize, shorter: &Out, now: &Out) {
    match shorter {
        Out::Value(..) => {
            if now != shorter && !matches!(now, Out::Panic(_)) {
                acc.add(
                    format!("{} {} value-unstable-under-extension", dec.name(), classify(&s[..plen])),
                    format!(
                        "{}: `{}` decodes to {} but with more bytes `{}` the answer becomes {}",
                        dec.name(),
                        esc(&s[..plen]),
                        shorter.show(),
                        esc(s),
                        now.show()
                    ),
                    input_replay(dec, s, "value-unstable-under-extension"),
                );
            }
        }
        Out::Error(_) => {
            if !matches!(now, Out::Error(_) | Out::Panic(_)) {
                acc.add(
                    format!("{} {} error-unstable-under-extension", dec.name(), classify(&s[..plen])),
                    format!(
                        "{}: `{}` is a {} but with more bytes `{}` the answer becomes {}",
                        dec.name(),
                        esc(&s[..plen]),
                        shorter.show(),
                        esc(s),
                        now.show()
                    ),
                    input_replay(dec, s, "error-unstable-under-extension"),
                );
            }
        }
        _ => {}
    }
}

#[derive(PartialEq)]
enum Live {
    Completed,
    Stuck,
    Undecided,
}

fn digit_run_sum(s: &[u8]) -> u64 {
    let mut sum = 0u64;
    let mut cur: Option<u64> = None;
    for &c in s {
        if c.is_ascii_digit() {
            cur = Some(cur.unwrap_or(0).saturating_mul(10).saturating_add((c - b'0') as u64));
        } else if let Some(v) = cur.take() {
            sum = sum.saturating_add(v);
        }
    }
    sum.saturating_add(cur.unwrap_or(0))
}

const LIVE_MAX_ANNOUNCED: u64 = 8192;

/// "more bytes needed" on `s` must be satisfiable: is there a continuation after which the decoder
/// answers anything else? Continuations tried: CRLF, LF, CRLF CRLF, LF CRLF, every single symbol of the
/// alphabet, and (CRLF)^k with 2k >= every length the input could be announcing (a run of CRLFs
/// fills any announced payload and then presents a byte that is not a type byte). Undecided when the
/// input announces more than LIVE_MAX_ANNOUNCED bytes.
fn liveness(dec: Dec, s: &[u8]) -> Live {
    let mut x = Vec::with_capacity(s.len() + 8);
    let mut try_t = |t: &[u8]| {
        x.clear();
        x.extend_from_slice(s);
        x.extend_from_slice(t);
        !matches!(eval(dec, &x).out, Out::Incomplete)
    };
    if try_t(b"\r\n") || try_t(b"\n") || try_t(b"\r\n\r\n") || try_t(b"\n\r\n") {
        return Live::Completed;
    }
    for c in SIGMA {
        if try_t(&[c]) {
            return Live::Completed;
        }
    }
    let sum = digit_run_sum(s);
    if sum > LIVE_MAX_ANNOUNCED {
        return Live::Undecided;
    }
    // a pending CR may be waiting for its LF: try the run with and without a leading LF
    let mut long = b"\n".to_vec();
    long.extend_from_slice(&b"\r\n".repeat(sum as usize + 16));
    if try_t(&long[1..]) || try_t(&long) {
        Live::Completed
    } else {
        Live::Stuck
    }
}

fn liveness_finding(acc: &mut Acc, dec: Dec, s: &[u8]) {
    match liveness(dec, s) {
        Live::Completed => acc.live[0] += 1,
        Live::Undecided => acc.live[2] += 1,
        Live::Stuck => {
            acc.live[1] += 1;
            acc.add(
                format!("{} {} incomplete-forever", dec.name(), classify(s)),
                format!(
                    "{}::parse on `{}` answers \"more bytes needed\", and still does after appending CRLF, LF, CRLFCRLF, LFCRLF, any single byte of the alphabet, or {} CRLFs (with and without a leading LF): no continuation tried ever yields a value or an error (the connection would buffer until its size limit)",
                    dec.name(),
                    esc(s),
                    digit_run_sum(s) + 16
                ),
                input_replay(dec, s, "incomplete-forever"),
            );
        }
    }
}

/// Full check of one input with all its prefixes (families, replay).
fn check_chain(acc: &mut Acc, s: &[u8]) {
    acc.inputs += 1;
    if s.first().map_or(false, |c| b"+-:$*".contains(c)) {
        acc.nontrivial += 1;
    }
    let mut finals: Vec<Out> = Vec::new();
    for dec in DECS {
        let mut prev: Option<Out> = None;
        for i in 0..=s.len() {
            let e = eval(dec, &s[..i]);
            basic_findings(acc, dec, &s[..i], &e);
            grammar_findings(acc, dec, &s[..i], &e.out);
            if let Some(p) = &prev {
                stability_findings(acc, dec, &s[..i], i - 1, p, &e.out);
            }
            // once a value or error is final, later prefixes are compared against the first one
            let keep_prev = matches!(prev, Some(Out::Value(..)) | Some(Out::Error(_)));
            if !keep_prev {
                prev = Some(e.out.clone());
            }
            if i == s.len() {
                acc.hist[dec.idx()][e.out.kidx()] += 1;
                if e.out == Out::Incomplete {
                    liveness_finding(acc, dec, s);
                }
                finals.push(e.out);
            }
        }
    }
    if finals.len() == 2 && finals[0] != finals[1] {
        acc.disagree += 1;
    }
    if acc.samples.len() < 4 && acc.inputs % 997 == 1 {
        acc.samples.push(json!({"input": esc(s), "RespCodec": finals[0].show(), "RespParser": finals[1].show()}));
    }
}

// ---------------------------------------------------------------------------------------------
// journal: index of the input in flight, in a MAP_SHARED file, readable after a crash
// ---------------------------------------------------------------------------------------------
struct Journal {
    p: *mut u64,
}

impl Journal {
    fn open(path: &str) -> Journal {
        use std::os::unix::io::AsRawFd;
        let f = std::fs::OpenOptions::new().read(true).write(true).open(path).unwrap_or_else(|e| {
            eprintln!("child: cannot open journal {path}: {e}");
            std::process::exit(2)
        });
        let _ = f.set_len(4096);
        let p = unsafe { mmap(std::ptr::null_mut(), 4096, PROT_RW, MAP_SHARED, f.as_raw_fd(), 0) };
        if p as isize == -1 {
            eprintln!("child: cannot map journal");
            std::process::exit(2);
        }
        Journal { p: p as *mut u64 }
    }
    /// 0 = nothing in flight, otherwise index + 1
    fn set(&self, idx_plus_one: u64) {
        unsafe { self.p.write_volatile(idx_plus_one) }
    }
}

// ---------------------------------------------------------------------------------------------
// part (i): exhaustive sweep
// ---------------------------------------------------------------------------------------------
fn pow14(l: usize) -> u64 {
    14u64.pow(l as u32)
}

fn sweep_total(maxlen: usize) -> u64 {
    (0..=maxlen).map(pow14).sum()
}

/// digits (indices into SIGMA) of the idx-th input in length-major order
fn index_to_digits(mut idx: u64, maxlen: usize) -> Vec<usize> {
    let mut l = 0;
    while l <= maxlen && idx >= pow14(l) {
        idx -= pow14(l);
        l += 1;
    }
    let mut d = vec![0usize; l];
    for k in (0..l).rev() {
        d[k] = (idx % 14) as usize;
        idx /= 14;
    }
    d
}

fn next_digits(d: &mut Vec<usize>) {
    for k in (0..d.len()).rev() {
        if d[k] + 1 < 14 {
            d[k] += 1;
            return;
        }
        d[k] = 0;
    }
    d.push(0);
    for x in d.iter_mut() {
        *x = 0;
    }
}

fn child_sweep(args: &vh::Args) -> ! {
    let maxlen: usize = args.flag("--maxlen").and_then(|s| s.parse().ok()).unwrap_or(0);
    let start: u64 = args.flag("--start").and_then(|s| s.parse().ok()).unwrap_or(0);
    let end: u64 = args.flag("--end").and_then(|s| s.parse().ok()).unwrap_or(0);
    let j = Journal::open(args.flag("--journal").unwrap_or(""));
    let mut acc = Acc::default();
    let mut d = index_to_digits(start, maxlen);
    let mut s: Vec<u8> = Vec::new();
    // outcome of the current input's longest proper prefix, per decoder (last symbol varies fastest)
    let mut cache: Option<(Vec<u8>, [Out; 2])> = None;
    let mut sample_kinds: BTreeSet<(usize, usize)> = BTreeSet::new();
    let mut idx = start;
    while idx < end {
        j.set(idx + 1);
        s.clear();
        s.extend(d.iter().map(|&k| SIGMA[k]));
        acc.inputs += 1;
        let nontrivial = s.first().map_or(false, |c| b"+-:$*".contains(c));
        if nontrivial {
            acc.nontrivial += 1;
        }
        if !s.is_empty() {
            let pl = s.len() - 1;
            let stale = cache.as_ref().map_or(true, |(p, _)| p[..] != s[..pl]);
            if stale {
                cache = Some((s[..pl].to_vec(), [eval(Dec::Codec, &s[..pl]).out, eval(Dec::Parser, &s[..pl]).out]));
            }
        }
        let mut outs: Vec<Out> = Vec::with_capacity(2);
        for dec in DECS {
            let e = eval(dec, &s);
            acc.hist[dec.idx()][e.out.kidx()] += 1;
            basic_findings(&mut acc, dec, &s, &e);
            grammar_findings(&mut acc, dec, &s, &e.out);
            if !s.is_empty() {
                let (_, po) = cache.as_ref().unwrap();
                stability_findings(&mut acc, dec, &s, s.len() - 1, &po[dec.idx()], &e.out);
            }
            if e.out == Out::Incomplete {
                liveness_finding(&mut acc, dec, &s);
            }
            outs.push(e.out);
        }
        if outs[0] != outs[1] {
            acc.disagree += 1;
        }
        if nontrivial && s.len() >= 4 && sample_kinds.insert((outs[0].kidx(), outs[1].kidx())) {
            acc.samples.push(json!({"input": esc(&s), "RespCodec": outs[0].show(), "RespParser": outs[1].show()}));
        }
        idx += 1;
        next_digits(&mut d);
    }
    j.set(0);
    println!("RESULT {}", acc.to_json());
    std::process::exit(0);
}

// ---------------------------------------------------------------------------------------------
// part (ii): grammar-near families
// ---------------------------------------------------------------------------------------------
const FIELDS: [&str; 25] = [
    // lengths at which `len * k` or `len + k` wraps in usize / i64 / u32 arithmetic (k = 2, 3, 4, 8, 16), and 2^31 / 2^32
    "2147483647",
    "4294967295",
    "4294967296",
    "1152921504606846976",
    "2305843009213693952",
    "3074457345618258603",
    "4611686018427387904",
    "6148914691236517206",
    "18446744073709551615",
    "18446744073709551616",
    "-2",
    "-1",
    "0",
    "1",
    "2",
    "2147483648",
    "9223372036854775807",
    "9223372036854775808",
    "-9223372036854775808",
    "+1",
    " 1",
    "1 ",
    "01",
    "",
    "1a",
];
const TERMS: [&str; 5] = ["\r\n", "\n", "\r", "\rx", ""];

fn families() -> Vec<Vec<u8>> {
    let mut set: BTreeSet<Vec<u8>> = BTreeSet::new();
    for ty in [b'+', b'-', b':', b'$', b'*'] {
        for f in FIELDS {
            let announced: Option<i64> = f.trim().parse::<i64>().ok();
            let sizes: Vec<usize> = match announced {
                Some(n) if (0..=2).contains(&n) => {
                    let n = n as usize;
                    let mut v = vec![n, n + 1];
                    if n > 0 {
                        v.insert(0, n - 1);
                    }
                    v
                }
                _ => vec![0, 1, 3],
            };
            for ht in TERMS {
                let mut head = vec![ty];
                head.extend_from_slice(f.as_bytes());
                head.extend_from_slice(ht.as_bytes());
                let mut bodies: Vec<Vec<u8>> = vec![Vec::new()];
                match ty {
                    b'$' => {
                        for &k in &sizes {
                            for pt in TERMS {
                                let mut b = b"abc"[..k].to_vec();
                                b.extend_from_slice(pt.as_bytes());
                                bodies.push(b);
                            }
                        }
                    }
                    b'*' => {
                        for &k in &sizes {
                            if k == 0 {
                                continue;
                            }
                            for pt in TERMS {
                                let mut b = b":1\r\n".repeat(k - 1);
                                b.extend_from_slice(b":1");
                                b.extend_from_slice(pt.as_bytes());
                                bodies.push(b);
                            }
                        }
                    }
                    _ => bodies.push(b":7\r\n".to_vec()),
                }
                for body in &bodies {
                    for wrap in ["", "*1\r\n", "*2\r\n:5\r\n"] {
                        let mut s = wrap.as_bytes().to_vec();
                        s.extend_from_slice(&head);
                        s.extend_from_slice(body);
                        set.insert(s);
                    }
                }
            }
        }
    }
    set.into_iter().collect()
}

fn child_families(args: &vh::Args) -> ! {
    let start: usize = args.flag("--start").and_then(|s| s.parse().ok()).unwrap_or(0);
    let end: usize = args.flag("--end").and_then(|s| s.parse().ok()).unwrap_or(0);
    let j = Journal::open(args.flag("--journal").unwrap_or(""));
    let fam = families();
    let mut acc = Acc::default();
    for idx in start..end.min(fam.len()) {
        j.set(idx as u64 + 1);
        check_chain(&mut acc, &fam[idx]);
    }
    j.set(0);
    println!("RESULT {}", acc.to_json());
    std::process::exit(0);
}

// ---------------------------------------------------------------------------------------------
// nesting: "*1\r\n" x depth + ":1\r\n", depth 2^k, on a thread with a 2 MiB stack (tokio's default
// worker stack, where the connection handlers call the codec)
// ---------------------------------------------------------------------------------------------
const NEST_STACK: usize = 2 << 20;

fn nested_input(depth: usize) -> Vec<u8> {
    let mut s = b"*1\r\n".repeat(depth);
    s.extend_from_slice(b":1\r\n");
    s
}

/// Returns (outcome kind, consumed, measured depth, max alloc). Unwraps the value iteratively so that
/// the harness itself never recurses.
fn nest_once(dec: Dec, depth: usize) -> (String, usize, usize, usize) {
    let s = nested_input(depth);
    let h = std::thread::Builder::new()
        .stack_size(NEST_STACK)
        .spawn(move || match dec {
            Dec::Codec => {
                let mut b = BytesMut::from(&s[..]);
                MAX_REQ.with(|m| m.set(0));
                let r = catch_unwind(AssertUnwindSafe(|| RespCodec::parse(&mut b)));
                let ma = MAX_REQ.with(|m| m.get());
                match r {
                    Err(p) => (format!("panic: {}", vh::panic_text(&p)), 0, 0, ma),
                    Ok(Ok(None)) => ("incomplete".to_string(), 0, 0, ma),
                    Ok(Err(e)) => (format!("error: {e}"), 0, 0, ma),
                    Ok(Ok(Some(mut v))) => {
                        let mut d = 0;
                        loop {
                            match v {
                                RespValueZeroCopy::Array(Some(mut items)) if items.len() == 1 => {
                                    v = items.pop().unwrap();
                                    d += 1;
                                }
                                _ => break,
                            }
                        }
                        let leaf_ok = v == RespValueZeroCopy::Integer(1);
                        (if leaf_ok { "value".to_string() } else { "wrong-value".to_string() }, s.len() - b.len(), d, ma)
                    }
                }
            }
            Dec::Parser => {
                MAX_REQ.with(|m| m.set(0));
                let r = catch_unwind(|| RespParser::parse(&s));
                let ma = MAX_REQ.with(|m| m.get());
                match r {
                    Err(p) => (format!("panic: {}", vh::panic_text(&p)), 0, 0, ma),
                    Ok(Err(e)) => {
                        if PARSER_INCOMPLETE.contains(&e.as_str()) {
                            ("incomplete".to_string(), 0, 0, ma)
                        } else {
                            (format!("error: {e}"), 0, 0, ma)
                        }
                    }
                    Ok(Ok((mut v, n))) => {
                        let mut d = 0;
                        loop {
                            match v {
                                RespValue::Array(Some(mut items)) if items.len() == 1 => {
                                    v = items.pop().unwrap();
                                    d += 1;
                                }
                                _ => break,
                            }
                        }
                        let leaf_ok = v == RespValue::Integer(1);
                        (if leaf_ok { "value".to_string() } else { "wrong-value".to_string() }, n, d, ma)
                    }
                }
            }
        })
        .expect("spawn");
    h.join().unwrap_or_else(|_| ("harness-thread-panicked".to_string(), 0, 0, 0))
}

fn child_nest(args: &vh::Args) -> ! {
    use std::io::Write;
    let dec = Dec::from_name(args.flag("--decoder").unwrap_or("RespCodec"));
    let from: u32 = args.flag("--from").and_then(|s| s.parse().ok()).unwrap_or(0);
    let to: u32 = args.flag("--to").and_then(|s| s.parse().ok()).unwrap_or(20);
    for k in from..=to {
        println!("NEST start {k}");
        let _ = std::io::stdout().flush();
        let depth = 1usize << k;
        let (kind, consumed, d, ma) = nest_once(dec, depth);
        println!("NEST done {k} {consumed} {d} {ma} {kind}");
        let _ = std::io::stdout().flush();
    }
    std::process::exit(0);
}

// ---------------------------------------------------------------------------------------------
// child process plumbing (parent side)
// ---------------------------------------------------------------------------------------------
static CHILD_SEQ: AtomicU64 = AtomicU64::new(0);

struct ChildRun {
    stdout: String,
    stderr: String,
    ok: bool,
    code: Option<i32>,
    status: String,
    in_flight: Option<u64>,
}

fn run_child(tier: Tier, child_args: &[String], with_journal: bool) -> ChildRun {
    let exe = std::env::current_exe().unwrap_or_else(|e| {
        eprintln!("MACHINERY-FAILURE property=C15 cannot locate own executable: {e}");
        std::process::exit(2)
    });
    let jpath = std::env::temp_dir().join(format!("c15-{}-{}.jrnl", std::process::id(), CHILD_SEQ.fetch_add(1, Ordering::Relaxed)));
    let mut cmd = std::process::Command::new(exe);
    cmd.arg("--tier").arg(tier.name());
    cmd.args(child_args);
    if with_journal {
        if let Err(e) = std::fs::write(&jpath, vec![0u8; 4096]) {
            eprintln!("MACHINERY-FAILURE property=C15 cannot create journal {}: {e}", jpath.display());
            std::process::exit(2);
        }
        cmd.arg("--journal").arg(&jpath);
    }
    cmd.env_remove("VERIF_SHOW_PANICS");
    let out = cmd.output().unwrap_or_else(|e| {
        eprintln!("MACHINERY-FAILURE property=C15 cannot spawn child: {e}");
        std::process::exit(2)
    });
    let mut in_flight = None;
    if with_journal {
        if let Ok(b) = std::fs::read(&jpath) {
            if b.len() >= 8 {
                let v = u64::from_le_bytes(b[..8].try_into().unwrap());
                if v > 0 {
                    in_flight = Some(v - 1);
                }
            }
        }
        let _ = std::fs::remove_file(&jpath);
    }
    ChildRun {
        stdout: String::from_utf8_lossy(&out.stdout).into_owned(),
        stderr: String::from_utf8_lossy(&out.stderr).into_owned(),
        ok: out.status.success(),
        code: out.status.code(),
        status: format!("{}", out.status),
        in_flight,
    }
}

fn result_line(stdout: &str) -> Option<Value> {
    stdout.lines().rev().find_map(|l| l.strip_prefix("RESULT ")).and_then(|j| serde_json::from_str(j).ok())
}

struct RangeOutcome {
    acc: Acc,
    evals: u64,
    crashes: Vec<(u64, String, String)>, // (index, status, stderr tail)
    machinery: Option<String>,
}

/// Run [start,end) of an indexed space in child processes; a child that dies is attributed to the
/// journalled index, and the two remaining sub-ranges are run again.
fn run_range(tier: Tier, mode: &str, extra: &[String], start: u64, end: u64, budget: &AtomicU64) -> RangeOutcome {
    let mut out = RangeOutcome { acc: Acc::default(), evals: 0, crashes: Vec::new(), machinery: None };
    let mut todo = vec![(start, end)];
    while let Some((a, b)) = todo.pop() {
        if a >= b {
            continue;
        }
        let mut ca: Vec<String> = vec!["--child".into(), mode.into(), "--start".into(), a.to_string(), "--end".into(), b.to_string()];
        ca.extend_from_slice(extra);
        let r = run_child(tier, &ca, true);
        if r.ok {
            match result_line(&r.stdout) {
                Some(v) => out.evals += out.acc.merge_json(&v),
                None => {
                    out.machinery = Some(format!("child {mode} [{a},{b}) produced no result line"));
                    return out;
                }
            }
        } else {
            match r.in_flight {
                Some(i) if i >= a && i < b => {
                    let tail: String = r.stderr.lines().rev().take(3).collect::<Vec<_>>().join(" | ");
                    out.crashes.push((i, r.status.clone(), tail));
                    if budget.fetch_add(1, Ordering::Relaxed) >= 64 {
                        out.machinery = Some("more than 64 child crashes; sweep stopped".into());
                        return out;
                    }
                    // later sub-range first on the stack so that the earlier one is merged first
                    todo.push((i + 1, b));
                    todo.push((a, i));
                }
                _ => {
                    out.machinery = Some(format!("child {mode} [{a},{b}) died ({}) without a journalled input: {}", r.status, r.stderr));
                    return out;
                }
            }
        }
    }
    out
}

// ---------------------------------------------------------------------------------------------
// part (iii): valid streams, every prefix, every 1-cut fragmentation, byte-by-byte
// ---------------------------------------------------------------------------------------------
fn b(s: &[u8]) -> T {
    T::B(Some(s.to_vec()))
}

fn frame_set(tier: Tier) -> Vec<(T, Vec<u8>)> {
    let mut v: Vec<T> = vec![
        T::S(b"OK".to_vec()),
        T::S(Vec::new()),
        T::E(b"ERR x".to_vec()),
        T::I(0),
        T::I(-1),
        T::I(i64::MIN),
        T::B(None),
        b(b""),
        b(b"a"),
        b(b"\r\n"),
        b(&[0xFF, 0x00]),
        b(b"a\rb"),
        T::A(None),
        T::A(Some(vec![])),
    ];
    let mut elems: Vec<T> = vec![T::S(b"OK".to_vec()), T::I(-1), T::B(None), b(b"\r\nx"), T::A(None)];
    if tier == Tier::Thorough {
        elems.push(T::E(b"E".to_vec()));
        elems.push(b(b""));
    }
    for x in &elems {
        v.push(T::A(Some(vec![x.clone()])));
    }
    for x in &elems {
        for y in &elems {
            v.push(T::A(Some(vec![x.clone(), y.clone()])));
        }
    }
    let e2: Vec<T> = vec![
        T::I(-1),
        b(b"\r\nx"),
        T::A(Some(vec![])),
        T::A(Some(vec![T::B(None)])),
        T::A(Some(vec![T::S(b"OK".to_vec()), T::I(-1)])),
    ];
    for x in &e2 {
        v.push(T::A(Some(vec![x.clone()])));
    }
    for x in &e2 {
        for y in &e2 {
            v.push(T::A(Some(vec![x.clone(), y.clone()])));
        }
    }
    let mut seen: BTreeSet<Vec<u8>> = BTreeSet::new();
    let mut out = Vec::new();
    for t in v {
        let mut e = Vec::new();
        enc_ref(&t, &mut e);
        if seen.insert(e.clone()) {
            out.push((t, e));
        }
    }
    out
}

fn stream_replay(dec: Dec, frames: &[&(T, Vec<u8>)], what: &str) -> Value {
    json!({"part": "stream", "decoder": dec.name(), "frames": frames.iter().map(|f| t_json(&f.0)).collect::<Vec<_>>(), "what": what,
           "stream": esc(&frames.iter().flat_map(|f| f.1.clone()).collect::<Vec<u8>>())})
}

/// Feed `stream` to the decoder in the given chunks, draining complete frames after each chunk.
fn feed(dec: Dec, stream: &[u8], cuts: &[usize], acc: &mut Acc) -> Result<Vec<T>, String> {
    let mut frames = Vec::new();
    let mut prev = 0;
    let mut bounds: Vec<usize> = cuts.to_vec();
    bounds.push(stream.len());
    let mut cbuf = BytesMut::new();
    let mut pbuf: Vec<u8> = Vec::new();
    let mut poff = 0usize;
    for &c in &bounds {
        let chunk = &stream[prev..c];
        prev = c;
        match dec {
            Dec::Codec => cbuf.extend_from_slice(chunk),
            Dec::Parser => pbuf.extend_from_slice(chunk),
        }
        loop {
            let (e, seen): (Eval, Vec<u8>) = match dec {
                Dec::Codec => {
                    let seen = cbuf.to_vec();
                    (codec_step(&mut cbuf), seen)
                }
                Dec::Parser => (parser_step(&pbuf[poff..]), pbuf[poff..].to_vec()),
            };
            basic_findings(acc, dec, &seen, &e);
            match e.out {
                Out::Value(t, n) => {
                    frames.push(t);
                    if dec == Dec::Parser {
                        if n == 0 || n > pbuf.len() - poff {
                            return Err(format!("value with impossible length {n}"));
                        }
                        poff += n;
                    } else if n == 0 {
                        return Err("value consuming 0 bytes".into());
                    }
                }
                Out::Incomplete => break,
                Out::Error(x) => return Err(format!("protocol error \"{x}\" after {} frames", frames.len())),
                Out::Panic(x) => return Err(format!("panic \"{x}\" after {} frames", frames.len())),
            }
        }
    }
    Ok(frames)
}

fn check_stream(acc: &mut Acc, fs: &[&(T, Vec<u8>)], all_cuts: bool) {
    let stream: Vec<u8> = fs.iter().flat_map(|f| f.1.iter().copied()).collect();
    let f1 = &fs[0].0;
    let l1 = fs[0].1.len();
    let expected: Vec<T> = fs.iter().map(|f| f.0.clone()).collect();
    acc.inputs += 1;
    acc.nontrivial += 1;
    for dec in DECS {
        // every prefix
        for i in 0..=stream.len() {
            let e = eval(dec, &stream[..i]);
            basic_findings(acc, dec, &stream[..i], &e);
            acc.hist[dec.idx()][e.out.kidx()] += 1;
            if i < l1 {
                if e.out != Out::Incomplete {
                    acc.add(
                        format!("{} valid-stream first={} proper-prefix-of-frame got={}", dec.name(), shape(f1), e.out.kind()),
                        format!(
                            "{}: stream `{}`: prefix of {} bytes (first frame needs {}) `{}` must be \"more bytes needed\" but is {}",
                            dec.name(),
                            esc(&stream),
                            i,
                            l1,
                            esc(&stream[..i]),
                            e.out.show()
                        ),
                        stream_replay(dec, fs, "prefix"),
                    );
                }
            } else {
                let want = Out::Value(f1.clone(), l1);
                if e.out != want {
                    let got = match &e.out {
                        Out::Value(t, _) if t != f1 => "wrong-value",
                        Out::Value(..) => "wrong-length",
                        o => o.kind(),
                    };
                    acc.add(
                        format!("{} valid-stream first={} complete-frame got={}", dec.name(), shape(f1), got),
                        format!(
                            "{}: stream `{}`: prefix of {} bytes contains the whole first frame {} ({} bytes) but decoding gives {}",
                            dec.name(),
                            esc(&stream),
                            i,
                            show_t(f1),
                            l1,
                            e.out.show()
                        ),
                        stream_replay(dec, fs, "prefix"),
                    );
                }
            }
        }
        // whole, every 1-cut fragmentation, byte-by-byte
        let mut modes: Vec<(&'static str, Vec<usize>)> = vec![("whole", vec![])];
        if all_cuts {
            for i in 1..stream.len() {
                modes.push(("one-cut", vec![i]));
            }
        }
        modes.push(("byte-by-byte", (1..stream.len()).collect()));
        for (mode, cuts) in modes {
            let r = feed(dec, &stream, &cuts, acc);
            if r.as_ref().ok() != Some(&expected) {
                let got = match &r {
                    Ok(fr) => format!("frames [{}]", fr.iter().map(show_t).collect::<Vec<_>>().join(" ")),
                    Err(e) => e.clone(),
                };
                acc.add(
                    format!("{} valid-stream feeding {} frames-differ", dec.name(), mode),
                    format!(
                        "{}: stream `{}` fed {} (cuts at {:?}) yields {} instead of [{}]",
                        dec.name(),
                        esc(&stream),
                        mode,
                        if cuts.len() > 4 { &cuts[..4] } else { &cuts[..] },
                        got,
                        expected.iter().map(show_t).collect::<Vec<_>>().join(" ")
                    ),
                    stream_replay(dec, fs, "feed"),
                );
            }
        }
    }
}

// ---------------------------------------------------------------------------------------------
// part (iv): reply trees x encoders x decoders
// ---------------------------------------------------------------------------------------------
const ENCODERS: [&str; 3] = ["RespParser::encode", "RespCodec::encode", "connection::encode_resp_into"];

fn encode_with(enc: &str, t: &T) -> Result<Vec<u8>, String> {
    let r = match enc {
        "RespParser::encode" => {
            let v = to_rv(t);
            catch_unwind(AssertUnwindSafe(|| RespParser::encode(&v)))
        }
        "RespCodec::encode" => {
            let v = to_zc(t);
            catch_unwind(AssertUnwindSafe(|| RespCodec::encode(&v).to_vec()))
        }
        _ => {
            let v = to_rv(t);
            catch_unwind(AssertUnwindSafe(|| {
                let mut b = BytesMut::new();
                verif_encode_resp_into(&v, &mut b);
                b.to_vec()
            }))
        }
    };
    r.map_err(|p| vh::panic_text(&p))
}

fn tree_leaves(tier: Tier) -> Vec<T> {
    let mut v = vec![
        T::S(b"OK".to_vec()),
        T::E(b"ERR unknown command 'x'".to_vec()),
        T::I(-1),
        T::I(i64::MAX),
        T::B(None),
        b(b""),
        b(b"a\r\nb"),
        T::A(None),
    ];
    if tier == Tier::Thorough {
        v.extend([T::S(Vec::new()), T::I(i64::MIN), b(&[0xFF, 0x00, b'\r']), b(b"$-1\r\n")]);
    }
    v
}

/// Integers at every decimal-length boundary and at both ends of the i64 range (encoders with a
/// hand-written digit loop or a small-integer fast path go wrong exactly here).
fn boundary_integers() -> Vec<i64> {
    let mut v = vec![i64::MIN, i64::MIN + 1, i64::MAX, i64::MAX - 1, 0, 1, -1, 9, 10, -9, -10, 255, 256, -128, 65535, 65536];
    let mut p: i64 = 10;
    while let Some(next) = p.checked_mul(10) {
        v.extend([p - 1, p, p + 1, -(p - 1), -p, -(p + 1)]);
        p = next;
    }
    v.extend([p - 1, p, p + 1, -(p - 1), -p, -(p + 1)]);
    v.sort_unstable();
    v.dedup();
    v
}

fn extra_leaves() -> Vec<T> {
    let mut v = extra_leaves_base();
    v.extend(boundary_integers().into_iter().map(T::I));
    // bulk strings and arrays whose length header changes its number of digits, or crosses 2^16
    // (a pre-computed header width, a u16 counter, a pre-sized buffer go wrong exactly here)
    for n in [9usize, 10, 99, 100, 999, 1000, 9_999, 10_000, 65_535, 65_536, 99_999, 100_000] {
        v.push(b(&vec![b'a' + (n % 7) as u8; n]));
        if n <= 65_536 {
            v.push(T::A(Some((0..n).map(|i| T::I((i % 3) as i64)).collect())));
        }
    }
    v
}

fn extra_leaves_base() -> Vec<T> {
    vec![
        T::S(b"PONG".to_vec()),
        T::S(b"QUEUED".to_vec()),
        T::S(b"a b".to_vec()),
        T::S("h\u{e9}llo".as_bytes().to_vec()),
        T::E(Vec::new()),
        T::E(b"WRONGTYPE Operation against a key holding the wrong kind of value".to_vec()),
        T::I(0),
        T::I(1),
        T::I(10),
        T::I(-9223372036854775807),
        b(b"\r"),
        b(b"\n"),
        b(&[0]),
        b(b"*1\r\n$1\r\na\r\n"),
        b(&vec![b'x'; 300]),
        b(&vec![0xAB; 70_000]),
        T::A(Some((0..300).map(T::I).collect())),
        T::A(Some(vec![T::A(Some(vec![T::A(Some(vec![b(b"deep")]))]))])),
    ]
}

fn arrays_upto2(over: &[T]) -> Vec<T> {
    let mut v = vec![T::A(Some(vec![]))];
    for x in over {
        v.push(T::A(Some(vec![x.clone()])));
    }
    for x in over {
        for y in over {
            v.push(T::A(Some(vec![x.clone(), y.clone()])));
        }
    }
    v
}

fn tree_set(tier: Tier) -> Vec<T> {
    let t0 = tree_leaves(tier);
    let t1 = arrays_upto2(&t0);
    let mut over: Vec<T> = t0.clone();
    over.extend(t1.iter().cloned());
    let t2 = arrays_upto2(&over);
    let mut all: Vec<T> = t0;
    all.extend(t2); // t2 contains every array of t1 (arrays over leaves only)
    for x in extra_leaves() {
        all.push(T::A(Some(vec![x.clone()])));
        all.push(x);
    }
    let set: BTreeSet<T> = all.into_iter().collect();
    set.into_iter().collect()
}

fn check_roundtrip(acc: &mut Acc, t: &T) {
    for enc in ENCODERS {
        acc.inputs += 1;
        acc.nontrivial += 1;
        let bytes = match encode_with(enc, t) {
            Ok(b) => b,
            Err(p) => {
                acc.add(
                    format!("{enc} shape={} encoder-panic", shape(t)),
                    format!("{enc} panicked on {}: {p}", show_t(t)),
                    json!({"part": "roundtrip", "encoder": enc, "tree": t_json(t)}),
                );
                continue;
            }
        };
        for dec in DECS {
            let e = eval(dec, &bytes);
            basic_findings(acc, dec, &bytes, &e);
            acc.hist[dec.idx()][e.out.kidx()] += 1;
            let want = Out::Value(t.clone(), bytes.len());
            if e.out != want {
                let got = match &e.out {
                    Out::Value(x, _) if x != t => "wrong-value",
                    Out::Value(..) => "wrong-length",
                    o => o.kind(),
                };
                acc.add(
                    format!("{} roundtrip via {} shape={} got={}", dec.name(), enc, shape(t), got),
                    format!(
                        "{} encodes {} as `{}` ({} bytes); {} decodes that to {}",
                        enc,
                        show_t(t),
                        esc(&bytes[..bytes.len().min(120)]),
                        bytes.len(),
                        dec.name(),
                        e.out.show()
                    ),
                    json!({"part": "roundtrip", "encoder": enc, "decoder": dec.name(), "tree": t_json(t)}),
                );
            }
        }
    }
}

// ---------------------------------------------------------------------------------------------
// hex
// ---------------------------------------------------------------------------------------------
fn hex(b: &[u8]) -> String {
    b.iter().map(|x| format!("{x:02x}")).collect()
}

fn unhex(s: &str) -> Vec<u8> {
    (0..s.len() / 2).filter_map(|i| u8::from_str_radix(&s[2 * i..2 * i + 2], 16).ok()).collect()
}

// ---------------------------------------------------------------------------------------------
// replay (always executed in a child so that an abort is an answer, not a harness crash)
// ---------------------------------------------------------------------------------------------
fn child_replay(args: &vh::Args) -> ! {
    let spec: Value = serde_json::from_str(args.flag("--spec").unwrap_or("{}")).unwrap_or(Value::Null);
    let mut acc = Acc::default();
    let mut want_kind: Option<String> = None;
    let mut want_dec: Option<String> = spec["decoder"].as_str().map(|s| s.to_string());
    match spec["part"].as_str().unwrap_or("") {
        "input" => {
            let s = unhex(spec["input_hex"].as_str().unwrap_or(""));
            println!("input ({} bytes): {}", s.len(), esc(&s));
            for dec in DECS {
                println!("  {} -> {}", dec.name(), {
                    let e = eval(dec, &s);
                    format!("{} (largest allocation request {} bytes)", e.out.show(), e.max_alloc)
                });
            }
            check_chain(&mut acc, &s);
            want_kind = spec["kind"].as_str().map(|s| s.to_string());
        }
        "stream" => {
            let frames: Vec<(T, Vec<u8>)> = spec["frames"]
                .as_array()
                .cloned()
                .unwrap_or_default()
                .iter()
                .map(|j| {
                    let t = t_from_json(j);
                    let mut e = Vec::new();
                    enc_ref(&t, &mut e);
                    (t, e)
                })
                .collect();
            let refs: Vec<&(T, Vec<u8>)> = frames.iter().collect();
            if !refs.is_empty() {
                check_stream(&mut acc, &refs, true);
            }
        }
        "roundtrip" => {
            let t = t_from_json(&spec["tree"]);
            println!("tree: {}", show_t(&t));
            check_roundtrip(&mut acc, &t);
            want_dec = None;
        }
        "nest" => {
            let dec = Dec::from_name(spec["decoder"].as_str().unwrap_or("RespCodec"));
            let k = spec["k"].as_u64().unwrap_or(0) as u32;
            println!("nesting depth 2^{k} on a {} KiB stack, decoder {}", NEST_STACK / 1024, dec.name());
            let (kind, consumed, d, ma) = nest_once(dec, 1usize << k);
            println!("  -> {kind}, consumed {consumed}, depth seen {d}, largest allocation {ma}");
            let bad = !(kind == "value" && d == (1usize << k)) && !kind.starts_with("error");
            std::process::exit(if bad { 1 } else { 0 });
        }
        other => {
            eprintln!("unknown replay part {other:?}");
            std::process::exit(2);
        }
    }
    let mut hit = false;
    for (sig, (detail, _, _)) in &acc.findings {
        let relevant = want_kind.as_ref().map_or(true, |k| sig.ends_with(k.as_str())) && want_dec.as_ref().map_or(true, |d| sig.starts_with(d.as_str()));
        if relevant {
            println!("  signature: {sig}");
            println!("  detail: {detail}");
            hit = true;
        }
    }
    if !hit {
        println!("replay: no violation");
    }
    std::process::exit(if hit { 1 } else { 0 });
}

fn replay_main(path: &std::path::Path, args: &vh::Args) -> ! {
    let spec = vh::report::load_replay(path);
    let r = run_child(args.tier, &["--child".into(), "replay".into(), "--spec".into(), spec.to_string()], false);
    print!("{}", r.stdout);
    if r.ok {
        std::process::exit(0);
    }
    if r.code == Some(1) {
        println!("VIOLATION property=C15 replay={}", path.display());
        std::process::exit(1);
    }
    if r.code.is_some() {
        eprint!("{}", r.stderr);
        std::process::exit(2);
    }
    println!("decoder process died ({}): {}", r.status, r.stderr.lines().rev().take(2).collect::<Vec<_>>().join(" | "));
    println!("VIOLATION property=C15 replay={}", path.display());
    std::process::exit(1);
}

// ---------------------------------------------------------------------------------------------
fn main() {
    let args = vh::cli::parse_args();
    vh::quiet_panics();
    if let Some(mode) = args.flag("--child") {
        match mode {
            "sweep" => child_sweep(&args),
            "families" => child_families(&args),
            "nest" => child_nest(&args),
            "replay" => child_replay(&args),
            other => {
                eprintln!("unknown child mode {other}");
                std::process::exit(2);
            }
        }
    }
    if let Some(path) = &args.replay {
        replay_main(path, &args);
    }
    let rep = Reporter::new("C15", "exploration", &args);
    let tier = args.tier;
    let workers = par::workers();
    let crash_budget = AtomicU64::new(0);
    let mut exhaustive = true;
    let mut total_evals = 0u64;

    let mut part_wall: Vec<(String, f64)> = Vec::new();
    let mut mark = rep.elapsed_s();
    // ---- (i) sweep -------------------------------------------------------------------------
    let maxlen: usize = args.flag("--maxlen").and_then(|s| s.parse().ok()).unwrap_or(tier.pick(6, 8));
    let n_inputs = sweep_total(maxlen);
    let n_ranges = (workers as u64 * 6).max(1);
    let step = (n_inputs + n_ranges - 1) / n_ranges;
    let mut ranges: Vec<(u64, u64)> = (0..n_ranges).map(|k| (k * step, ((k + 1) * step).min(n_inputs))).filter(|(a, b)| a < b).collect();
    // VERIF_SEED only rotates the order in which ranges are dispatched; results are merged by range
    let rot = (args.seed as usize) % ranges.len().max(1);
    ranges.rotate_left(rot);
    let extra = vec!["--maxlen".to_string(), maxlen.to_string()];
    let mut sweep_results: Vec<((u64, u64), RangeOutcome)> = par::par_map_n(workers, &ranges, |_, &(a, b)| run_range(tier, "sweep", &extra, a, b, &crash_budget))
        .into_iter()
        .zip(ranges.iter())
        .map(|(o, r)| (*r, o))
        .collect();
    sweep_results.sort_by_key(|(r, _)| r.0);
    let mut sweep = Acc::default();
    let mut sweep_crashes = 0u64;
    for (_, o) in sweep_results {
        if let Some(m) = &o.machinery {
            if m.contains("more than 64") {
                exhaustive = false;
                rep.note(format!("sweep: {m}"));
            } else {
                rep.machinery_failure(m);
            }
        }
        for (i, status, tail) in &o.crashes {
            sweep_crashes += 1;
            let s: Vec<u8> = index_to_digits(*i, maxlen).iter().map(|&k| SIGMA[k]).collect();
            sweep.add(
                format!("decoder-process-death {}", classify(&s)),
                format!("the process died ({status}) while decoding `{}` (input #{i} of the sweep): {tail}", esc(&s)),
                json!({"part": "input", "input_hex": hex(&s), "input": esc(&s), "kind": "process-death"}),
            );
        }
        total_evals += o.evals;
        sweep.merge(o.acc);
    }
    let sweep_json = json!({
        "alphabet": esc(&SIGMA), "max_len": maxlen, "inputs": sweep.inputs, "inputs_starting_with_type_byte": sweep.nontrivial,
        "outcomes": outcome_json(&sweep.hist), "incomplete_answers_checked_for_satisfiability": {"completed": sweep.live[0], "stuck": sweep.live[1], "undecided_announces_more_than_8192_bytes": sweep.live[2]},
        "inputs_where_the_two_decoders_answer_differently": sweep.disagree, "child_processes_died": sweep_crashes,
    });
    if sweep.inputs != n_inputs {
        exhaustive = false;
        rep.note(format!("sweep covered {} of {} inputs", sweep.inputs, n_inputs));
    }

    part_wall.push(("sweep".to_string(), rep.elapsed_s() - mark));
    mark = rep.elapsed_s();
    // ---- (ii) families + nesting -----------------------------------------------------------
    let fam = families();
    let fam_n = fam.len() as u64;
    let fstep = (fam_n + workers as u64 - 1) / workers as u64;
    let franges: Vec<(u64, u64)> = (0..workers as u64).map(|k| (k * fstep, ((k + 1) * fstep).min(fam_n))).filter(|(a, b)| a < b).collect();
    let fres = par::par_map_n(workers, &franges, |_, &(a, b)| run_range(tier, "families", &[], a, b, &crash_budget));
    let mut famacc = Acc::default();
    let mut fam_crashes = 0u64;
    for o in fres {
        if let Some(m) = &o.machinery {
            if m.contains("more than 64") {
                exhaustive = false;
                rep.note(format!("families: {m}"));
            } else {
                rep.machinery_failure(m);
            }
        }
        for (i, status, tail) in &o.crashes {
            fam_crashes += 1;
            let s = &fam[*i as usize];
            famacc.add(
                format!("decoder-process-death {}", classify(s)),
                format!("the process died ({status}) while decoding `{}` or one of its prefixes: {tail}", esc(s)),
                json!({"part": "input", "input_hex": hex(s), "input": esc(s), "kind": "process-death"}),
            );
        }
        total_evals += o.evals;
        famacc.merge(o.acc);
    }
    let fam_json = json!({
        "cases": famacc.inputs, "fields": FIELDS, "terminators": TERMS.iter().map(|t| esc(t.as_bytes())).collect::<Vec<_>>(),
        "contexts": ["bare", "*1 element", "second element of *2"], "every_prefix_of_every_case": true,
        "outcomes_on_full_case": outcome_json(&famacc.hist), "satisfiability": {"completed": famacc.live[0], "stuck": famacc.live[1], "undecided": famacc.live[2]},
        "child_processes_died": fam_crashes,
    });

    part_wall.push(("families".to_string(), rep.elapsed_s() - mark));
    mark = rep.elapsed_s();
    let maxk: u32 = 20;
    let mut nest_json = serde_json::Map::new();
    let mut nestacc = Acc::default();
    let nres = par::par_map_n(2, &DECS, |_, &dec| {
        // one child per decoder; a child that dies is restarted after the depth that killed it only to
        // report, not to continue: deeper inputs need at least as much stack
        let r = run_child(tier, &["--child".into(), "nest".into(), "--decoder".into(), dec.name().into(), "--to".into(), maxk.to_string()], false);
        (dec, r)
    });
    for (dec, r) in nres {
        let mut done: Vec<Value> = Vec::new();
        let mut started: Option<u32> = None;
        let mut last_done: Option<u32> = None;
        for l in r.stdout.lines() {
            let p: Vec<&str> = l.splitn(7, ' ').collect();
            if p.len() >= 3 && p[0] == "NEST" && p[1] == "start" {
                started = p[2].parse().ok();
            } else if p.len() >= 7 && p[0] == "NEST" && p[1] == "done" {
                let k: u32 = p[2].parse().unwrap_or(0);
                last_done = Some(k);
                let consumed: usize = p[3].parse().unwrap_or(0);
                let d: usize = p[4].parse().unwrap_or(0);
                let ma: usize = p[5].parse().unwrap_or(0);
                let kind = p[6];
                let depth = 1usize << k;
                let len = nested_input(depth).len();
                done.push(json!({"depth": depth, "outcome": kind, "largest_allocation": ma}));
                nestacc.inputs += 1;
                nestacc.nontrivial += 1;
                let fine = (kind == "value" && d == depth && consumed == len) || kind.starts_with("error");
                if !fine {
                    nestacc.add(
                        format!("{} nested-arrays {}", dec.name(), kind.split(':').next().unwrap_or(kind)),
                        format!("{}: {} nested one-element arrays around :1 ({} bytes): outcome {}, consumed {}, depth decoded {}", dec.name(), depth, len, kind, consumed, d),
                        json!({"part": "nest", "decoder": dec.name(), "k": k}),
                    );
                }
                if ma > C0 + C1 * len {
                    nestacc.add(
                        format!("{} nested-arrays alloc-unbounded", dec.name()),
                        format!("{}: depth {}: single allocation request of {} bytes for a {}-byte input", dec.name(), depth, ma, len),
                        json!({"part": "nest", "decoder": dec.name(), "k": k}),
                    );
                }
            }
        }
        if !r.ok {
            match started {
                Some(k) if last_done != Some(k) => {
                    nestacc.inputs += 1;
                    nestacc.nontrivial += 1;
                    let depth = 1usize << k;
                    nestacc.add(
                        format!("{} nested-arrays process-death", dec.name()),
                        format!(
                            "{}: the process died ({}) decoding {} nested one-element arrays (`*1\\r\\n` x {} + `:1\\r\\n`, {} bytes) on a {} KiB stack; every depth up to {} decoded fine: {}",
                            dec.name(),
                            r.status,
                            depth,
                            depth,
                            nested_input(depth).len(),
                            NEST_STACK / 1024,
                            depth / 2,
                            r.stderr.lines().rev().take(2).collect::<Vec<_>>().join(" | ")
                        ),
                        json!({"part": "nest", "decoder": dec.name(), "k": k}),
                    );
                    nest_json.insert(dec.name().into(), json!({"depths_decoded": done, "first_depth_killing_the_process": depth, "stack_bytes": NEST_STACK}));
                }
                _ => rep.machinery_failure(&format!("nest child for {} died ({}) outside a depth: {}", dec.name(), r.status, r.stderr)),
            }
        } else {
            nest_json.insert(dec.name().into(), json!({"depths_decoded": done, "first_depth_killing_the_process": null, "stack_bytes": NEST_STACK}));
        }
    }

    part_wall.push(("nesting".to_string(), rep.elapsed_s() - mark));
    mark = rep.elapsed_s();
    // ---- (iii) valid streams ---------------------------------------------------------------
    let frames = frame_set(tier);
    let nf = frames.len();
    let pairs: Vec<(usize, Option<usize>)> = (0..nf).flat_map(|a| std::iter::once((a, None)).chain((0..nf).map(move |b| (a, Some(b))))).collect();
    let sres = par::par_map_n(workers, &pairs, |_, &(a, bopt)| {
        let mut acc = Acc::default();
        match bopt {
            None => check_stream(&mut acc, &[&frames[a]], true),
            Some(b) => {
                check_stream(&mut acc, &[&frames[a], &frames[b]], true);
                for c in 0..nf {
                    check_stream(&mut acc, &[&frames[a], &frames[b], &frames[c]], tier == Tier::Thorough);
                }
            }
        }
        acc
    });
    let mut stracc = Acc::default();
    for a in sres {
        stracc.merge(a);
    }
    let stream_samples: Vec<Value> = [(3usize, 9usize, 20usize), (11, 13, 30), (nf - 1, 6, 0)]
        .iter()
        .map(|&(a, b, c)| {
            let s: Vec<u8> = [a % nf, b % nf, c % nf].iter().flat_map(|&i| frames[i].1.clone()).collect();
            json!({"stream": esc(&s), "frames": [show_t(&frames[a % nf].0), show_t(&frames[b % nf].0), show_t(&frames[c % nf].0)]})
        })
        .collect();
    let stream_json = json!({
        "frames_in_generator": nf, "streams": stracc.inputs, "feeding_modes_per_stream": if tier == Tier::Thorough { "parse of every prefix; fed whole, with every 1-cut, byte-by-byte" } else { "parse of every prefix; fed whole and byte-by-byte; every 1-cut for streams of 1-2 frames (3-frame 1-cuts only in thorough)" },
        "outcomes_over_all_prefixes": outcome_json(&stracc.hist),
    });

    part_wall.push(("valid_streams".to_string(), rep.elapsed_s() - mark));
    mark = rep.elapsed_s();
    // ---- (iv) round trips --------------------------------------------------------------------
    let trees = tree_set(tier);
    let tres = par::par_map_n(workers, &trees, |_, t| {
        let mut acc = Acc::default();
        check_roundtrip(&mut acc, t);
        acc
    });
    let mut rtacc = Acc::default();
    for a in tres {
        rtacc.merge(a);
    }
    let rt_json = json!({"trees": trees.len(), "encoders": ENCODERS, "tree_encoder_pairs": rtacc.inputs, "decode_outcomes": outcome_json(&rtacc.hist)});
    total_evals += EVALS.load(Ordering::Relaxed);

    part_wall.push(("round_trips".to_string(), rep.elapsed_s() - mark));
    mark = rep.elapsed_s();
    // ---- report ------------------------------------------------------------------------------
    // distinct non-trivial cases: sweep inputs that start with a type byte (distinct by construction)
    // + family cases, streams, trees that are not themselves sweep inputs (distinct within each part)
    let in_sweep = |s: &[u8]| s.len() <= maxlen && s.iter().all(|c| SIGMA.contains(c));
    let fam_outside = fam.iter().filter(|s| !in_sweep(s) && s.first().map_or(false, |c| b"+-:$*".contains(c))).count() as u64;
    let mut streams_in_sweep = 0u64;
    for a in 0..nf {
        if in_sweep(&frames[a].1) {
            streams_in_sweep += 1;
        }
        for b2 in 0..nf {
            if frames[a].1.len() + frames[b2].1.len() <= maxlen {
                let s: Vec<u8> = frames[a].1.iter().chain(frames[b2].1.iter()).copied().collect();
                if in_sweep(&s) {
                    streams_in_sweep += 1;
                }
            }
        }
    }
    let distinct = sweep.nontrivial + fam_outside + (stracc.inputs - streams_in_sweep.min(stracc.inputs)) + rtacc.inputs + nestacc.inputs;
    let evaluations = sweep.inputs + famacc.inputs + stracc.inputs + rtacc.inputs + nestacc.inputs;

    let mut samples: Vec<Value> = Vec::new();
    samples.extend(sweep.samples.iter().take(6).cloned());
    samples.extend(famacc.samples.iter().take(3).cloned());
    samples.extend(stream_samples);
    samples.push(json!({"tree": show_t(&trees[trees.len() / 2]), "encoded_by": ENCODERS}));

    // the reporter counts calls; the exact number of cases per signature is kept in the coverage
    let mut case_counts: BTreeMap<String, u64> = BTreeMap::new();
    for acc in [sweep, famacc, nestacc, stracc, rtacc] {
        for (sig, (detail, replay, count)) in acc.findings {
            *case_counts.entry(sig.clone()).or_insert(0) += count;
            for _ in 0..count.min(1000) {
                rep.violation(sig.clone(), detail.clone(), replay.clone());
            }
        }
    }

    let coverage = json!({
        "evaluations": evaluations,
        "decoder_calls": total_evals,
        "distinct_nontrivial": distinct,
        "rule": format!("(i) every byte string of length 0..={maxlen} over the 14-symbol alphabet, both decoders, each compared with its longest proper prefix and with the grammar rule 'the header line ends at the first CRLF'; (ii) type byte x 15 length/number fields x payload/element count shorter|equal|longer x 5 CR/LF placements x 3 contexts, every prefix; nesting depth 2^k, k<=20; (iii) every stream of 1..3 frames from the frame generator, every prefix length, every 1-cut fragmentation, byte-by-byte; (iv) every tree of depth <=2 over the leaf set (+ single large/odd leaves) x 3 encoders x 2 decoders. evaluations = inputs + family cases + streams + (tree,encoder) pairs + nesting depths; a case is non-trivial when it starts with a RESP type byte (the decoders get past the type dispatch); distinct_nontrivial counts sweep inputs starting with a type byte, plus family cases / streams not already in the sweep space, plus (tree,encoder) pairs and nesting depths — each set is duplicate-free by construction (BTreeSet / de-duplicated generator)"),
        "samples": samples,
        "exhaustive": exhaustive,
        "allocation_bound": format!("largest single request <= {C0} + {C1}*len"),
        "sweep": sweep_json,
        "families": fam_json,
        "nesting": Value::Object(nest_json),
        "valid_streams": stream_json,
        "round_trips": rt_json,
        "cases_per_violation_signature": case_counts,
        "wall_s_per_part": part_wall.iter().map(|(n, t)| json!({"part": n, "wall_s": (t * 10.0).round() / 10.0})).collect::<Vec<_>>(),
    });
    let _ = mark;
    rep.finish(
        coverage,
        vec![
            "RespParser has no typed 'incomplete': the Err strings \"Empty input\", \"No CRLF found\", \"Incomplete bulk string\" are read as 'more bytes needed', every other Err as protocol error (src/redis/resp.rs)".into(),
            "RespCodec: Ok(None) = more bytes needed, consumed = bytes removed from the BytesMut".into(),
            "built with panic=unwind (shipping profile: abort) so that a panic is attributed to its input; overflow checks off as shipped".into(),
            "leniency (accepting what a strict RESP reader rejects, e.g. `*-2`, `$+1`, missing CRLF after a bulk payload) is not a violation of this property and is not flagged".into(),
            "'more bytes needed' must be satisfiable: checked with a fixed set of continuations (CRLF, LF, CRLFCRLF, each alphabet byte, a CRLF run longer than every announced length); inputs announcing > 8192 bytes are not decided".into(),
            "nesting runs on a 2 MiB thread stack (tokio worker default); values emitted by the server are assumed to have CR/LF-free simple strings and errors".into(),
            "outside the bound: bytes outside the alphabet (data, not grammar) in the sweep, inputs longer than the sweep length other than the listed families".into(),
        ],
    );
}

fn outcome_json(h: &[[u64; 4]; 2]) -> Value {
    json!({
        "RespCodec": {"value": h[0][0], "more_bytes_needed": h[0][1], "protocol_error": h[0][2], "panic": h[0][3]},
        "RespParser": {"value": h[1][0], "more_bytes_needed": h[1][1], "protocol_error": h[1][2], "panic": h[1][3]},
    })
}
