//! C06 part (c) — the node level: whole replicated nodes (`ReplicatedShardedState`, 16 replicated shard actors, the
//! gossip outbox `GossipState` / `GossipActor`, selective routing through `GossipRouter`) exchanging real serialized
//! `GossipMessage`s the way `GossipManager::start_gossip_loop` and the server's gossip listener do:
//!   round(n)  = advance_epoch; queue_deltas(collect()) with collect() = [] as in server_persistent; drain_outbound;
//!               serialize every routed message; one copy per target (the message's target, or every peer);
//!   deliver(m) = deserialize; into_deltas; apply_remote_deltas.
//! BFS over {client command on any node, gossip round of any node, delivery of any in-flight message (any order),
//! one re-delivery per message}; oracle: in every state a node serves what its replication state says; once every
//! outbox is drained and every message delivered, all replicas responsible for a key read it alike.
pub mod sim;

use redis_sim::production::{GossipActor, ReplicatedShardedState};
use redis_sim::replication::lattice::ReplicaId;
use redis_sim::replication::state::{ReplicatedValue, ReplicationDelta};
use redis_sim::replication::{GossipMessage, GossipRouter, HashRing, ReplicationConfig, RoutedMessage};
use std::collections::{BTreeMap, BTreeSet, HashMap};
use std::sync::Arc;
use vh::persist_kit::{client_view, project};
use vh::resp::{self, Argv};
use vh::shardsys::VerifTime;

pub const CL_OPS: &[&str] = &[
    "SET k a", "SET k b", "DEL k", "APPEND k x", "HSET k f a", "SET j z", "SET k e EX 100", "INCR k", "HDEL k f", "SET k c NX", "HSET k g b", "DEL j",
];

#[derive(Clone, Copy, Debug, PartialEq, Eq)]
pub enum Mode {
    /// full replication, lock-based gossip state (what server_persistent wires up)
    Broadcast,
    /// full replication, actor-based gossip state
    Actor,
    /// partitioned cluster: rf < n, selective routing through GossipRouter over a HashRing
    Selective,
}

impl Mode {
    pub fn name(&self) -> &'static str {
        match self {
            Mode::Broadcast => "broadcast",
            Mode::Actor => "actor-gossip",
            Mode::Selective => "selective",
        }
    }
    pub fn parse(s: &str) -> Mode {
        match s {
            "broadcast" => Mode::Broadcast,
            "actor-gossip" => Mode::Actor,
            _ => Mode::Selective,
        }
    }
}

#[derive(Clone, Debug, PartialEq, Eq)]
pub enum Ev {
    Client(usize, usize),
    Round(usize),
    Deliver(usize),
    Redeliver(usize),
}

pub fn alphabet(nodes: usize, ops: &[usize], max_msgs: usize) -> Vec<Ev> {
    let mut v = Vec::new();
    for n in 0..nodes {
        for o in ops {
            v.push(Ev::Client(n, *o));
        }
    }
    for n in 0..nodes {
        v.push(Ev::Round(n));
    }
    for m in 0..max_msgs {
        v.push(Ev::Deliver(m));
    }
    for m in 0..max_msgs {
        v.push(Ev::Redeliver(m));
    }
    v
}

pub fn show_ev(e: &Ev) -> String {
    match e {
        Ev::Client(n, o) => format!("node{n}: {}", CL_OPS[*o]),
        Ev::Round(n) => format!("gossip round of node{n}"),
        Ev::Deliver(m) => format!("deliver message#{m}"),
        Ev::Redeliver(m) => format!("redeliver message#{m}"),
    }
}

struct Msg {
    from: usize,
    to: usize,
    bytes: Vec<u8>,
    shown: String,
}

pub struct Cluster {
    mode: Mode,
    nodes: Vec<ReplicatedShardedState<VerifTime>>,
    ring: Option<Arc<std::sync::RwLock<HashRing>>>,
    msgs: Vec<Msg>,
    delivered: BTreeSet<usize>,
    redelivered: BTreeSet<usize>,
    /// ops executed on a node since its last gossip round (its outbox, as far as the history determines it)
    pending_ops: Vec<Vec<usize>>,
    client_ops: usize,
    /// every delta that travelled in a message
    pub shipped: Vec<ReplicationDelta>,
}

fn addr(i: usize) -> String {
    format!("n{}:7000", i + 1)
}

impl Cluster {
    pub fn new(mode: Mode, n: usize, rf: usize) -> Self {
        let ring = if mode == Mode::Selective {
            Some(Arc::new(std::sync::RwLock::new(HashRing::new((0..n).map(|i| ReplicaId::new(i as u64 + 1)).collect(), 150, rf))))
        } else {
            None
        };
        let nodes = (0..n)
            .map(|i| {
                let peers: Vec<String> = (0..n).filter(|j| *j != i).map(addr).collect();
                let cfg = match mode {
                    Mode::Selective => ReplicationConfig::new_partitioned_cluster(i as u64 + 1, peers, rf),
                    _ => ReplicationConfig::new_cluster(i as u64 + 1, peers),
                };
                let router = ring.as_ref().map(|r| {
                    let peer_addresses: HashMap<ReplicaId, String> = (0..n).filter(|j| *j != i).map(|j| (ReplicaId::new(j as u64 + 1), addr(j))).collect();
                    GossipRouter::new(r.clone(), ReplicaId::new(i as u64 + 1), peer_addresses, true)
                });
                match mode {
                    Mode::Actor => {
                        let h = GossipActor::spawn(cfg.clone());
                        ReplicatedShardedState::with_gossip_actor_and_time(cfg, h, VerifTime::new(1_000))
                    }
                    _ => {
                        let node = ReplicatedShardedState::with_time_source(cfg, VerifTime::new(1_000));
                        if let Some(router) = router {
                            node.get_gossip_state().expect("locked gossip").write().set_router(router);
                        }
                        node
                    }
                }
            })
            .collect();
        Cluster { mode, nodes, ring, msgs: Vec::new(), delivered: BTreeSet::new(), redelivered: BTreeSet::new(), pending_ops: vec![Vec::new(); n], client_ops: 0, shipped: Vec::new() }
    }

    pub fn enabled(&self, e: &Ev, max_ops: usize) -> bool {
        match e {
            Ev::Client(_, _) => self.client_ops < max_ops,
            Ev::Round(n) => !self.pending_ops[*n].is_empty(),
            Ev::Deliver(m) => *m < self.msgs.len() && !self.delivered.contains(m),
            Ev::Redeliver(m) => self.delivered.contains(m) && !self.redelivered.contains(m),
        }
    }

    /// one iteration of GossipManager::start_gossip_loop[_with_actor] for node n, up to (not including) the TCP write
    async fn drain(&self, n: usize) -> Vec<RoutedMessage> {
        match self.nodes[n].gossip_actor_handle() {
            Some(h) => {
                h.advance_epoch();
                h.queue_deltas(Vec::new());
                h.drain_outbound().await
            }
            None => {
                let gs = self.nodes[n].get_gossip_state().expect("locked gossip");
                let mut state = gs.write();
                state.advance_epoch();
                state.queue_deltas(Vec::new());
                state.drain_outbound()
            }
        }
    }

    pub async fn apply(&mut self, e: &Ev) {
        match e {
            Ev::Client(n, o) => {
                let cmd = resp::parse(&resp::line(CL_OPS[*o])).expect("op parses");
                let _ = self.nodes[*n].execute(cmd).await;
                self.client_ops += 1;
                self.pending_ops[*n].push(*o);
            }
            Ev::Round(n) => {
                self.round(*n).await;
            }
            Ev::Deliver(m) | Ev::Redeliver(m) => {
                self.deliver(*m).await;
                if matches!(e, Ev::Deliver(_)) {
                    self.delivered.insert(*m);
                } else {
                    self.redelivered.insert(*m);
                }
            }
        }
    }

    pub async fn round(&mut self, n: usize) {
        let mut routed = self.drain(n).await;
        // messages for different targets travel on different connections, so their relative order means nothing; the
        // routing table is a HashMap, so canonicalize: by target, keeping the outbox order per target (stable sort)
        routed.sort_by_key(|r| r.target.map(|t| t.0).unwrap_or(0));
        let peers: Vec<usize> = (0..self.nodes.len()).filter(|j| *j != n).collect();
        for r in routed {
            let bytes = r.message.serialize().expect("gossip message serializes");
            let deltas = r.message.clone().into_deltas().unwrap_or_default();
            let shown = deltas.iter().map(|d| format!("{}:{}", d.key, project(&d.value))).collect::<Vec<_>>().join(",");
            self.shipped.extend(deltas);
            // the loop's peer map: replica id -> address; a target without an address is skipped
            let targets: Vec<usize> = match r.target {
                Some(t) => peers.iter().copied().filter(|j| *j as u64 + 1 == t.0).collect(),
                None => peers.clone(),
            };
            for to in targets {
                self.msgs.push(Msg { from: n, to, bytes: bytes.clone(), shown: shown.clone() });
            }
        }
        self.pending_ops[n].clear();
    }

    pub async fn deliver(&mut self, m: usize) {
        let msg = GossipMessage::deserialize(&self.msgs[m].bytes).expect("gossip message deserializes");
        let to = self.msgs[m].to;
        if let Some(deltas) = msg.into_deltas() {
            if !deltas.is_empty() {
                self.nodes[to].apply_remote_deltas(deltas);
            }
        }
        let _ = self.nodes[to].snapshot_state().await; // every shard mailbox drained
    }

    pub fn quiescent(&self) -> bool {
        self.pending_ops.iter().all(|p| p.is_empty()) && self.delivered.len() == self.msgs.len()
    }

    /// nodes responsible for a key
    pub fn owners(&self, key: &str) -> Vec<usize> {
        match &self.ring {
            Some(r) => {
                let mut v: Vec<usize> = r.read().unwrap().get_replicas(key).iter().map(|id| id.0 as usize - 1).collect();
                v.sort();
                v
            }
            None => (0..self.nodes.len()).collect(),
        }
    }

    pub async fn reads(&self, n: usize) -> BTreeMap<String, String> {
        reads_of(&self.nodes[n]).await
    }

    pub async fn views(&self, n: usize) -> (BTreeMap<String, String>, BTreeMap<String, String>) {
        views_of(&self.nodes[n]).await
    }
}

pub async fn reads_of(node: &ReplicatedShardedState<VerifTime>) -> BTreeMap<String, String> {
    let mut out = BTreeMap::new();
    for key in ["k", "j"] {
        let ty = resp::show(&node.execute(resp::parse(&resp::argv(&["TYPE", key])).unwrap()).await);
        let v = match ty.as_str() {
            "+none" => continue,
            "+string" => match node.execute(resp::parse(&resp::argv(&["GET", key])).unwrap()).await {
                redis_sim::redis::RespValue::BulkString(Some(b)) => format!("string:{}", String::from_utf8_lossy(&b)),
                o => format!("string:?{}", resp::show(&o)),
            },
            "+hash" => {
                let r = node.execute(resp::parse(&resp::argv(&["HGETALL", key])).unwrap()).await;
                let flat = vh::dump::bulk_items(&r).unwrap_or_default();
                let mut p: Vec<String> = flat.chunks(2).map(|c| format!("{}={}", String::from_utf8_lossy(&c[0]), String::from_utf8_lossy(&c[1]))).collect();
                p.sort();
                format!("hash:{{{}}}", p.join(","))
            }
            other => other.to_string(),
        };
        let ttl = resp::show(&node.execute(resp::parse(&resp::argv(&["PTTL", key])).unwrap()).await);
        out.insert(key.to_string(), format!("{v} ttl{ttl}"));
    }
    out
}

pub async fn views_of(node: &ReplicatedShardedState<VerifTime>) -> (BTreeMap<String, String>, BTreeMap<String, String>) {
    let snap = node.snapshot_state().await;
    let mut views = BTreeMap::new();
    let mut projs = BTreeMap::new();
    for (k, v) in &snap {
        if k != "k" && k != "j" {
            continue;
        }
        projs.insert(k.clone(), project(v));
        let cv = client_view(v);
        if cv != "absent" {
            let ttl = match v.expiry_ms {
                Some(ms) => format!(":{}", ms),
                None => ":-1".to_string(),
            };
            views.insert(k.clone(), format!("{cv} ttl{ttl}"));
        }
    }
    (views, projs)
}

pub fn op_names(evs: &[Ev]) -> String {
    let mut names: Vec<String> = evs
        .iter()
        .filter_map(|e| match e {
            Ev::Client(_, o) => {
                let mut it = CL_OPS[*o].split(' ');
                let name = it.next().unwrap().to_string();
                let keys = if name == "MSET" || CL_OPS[*o] == "DEL k j" { "-2keys".to_string() } else { String::new() };
                Some(name + &keys + &CL_OPS[*o].split(' ').skip(3).filter(|_| !CL_OPS[*o].starts_with("MSET")).map(|x| format!("-{x}")).collect::<String>())
            }
            _ => None,
        })
        .collect();
    names.sort();
    names.dedup();
    names.join("+")
}

fn permute(idx: &mut Vec<usize>, k: usize, f: &mut dyn FnMut(&[usize])) {
    if k + 1 >= idx.len() {
        f(idx);
        return;
    }
    for i in k..idx.len() {
        idx.swap(k, i);
        permute(idx, k + 1, f);
        idx.swap(k, i);
    }
}

/// Does the merge of these values depend on the order (the listed C07 / C06 merge-function findings)?
pub fn merge_cause(vals: &[&ReplicatedValue]) -> Option<String> {
    if vals.is_empty() {
        return None;
    }
    let mut outs = BTreeSet::new();
    let mut idx: Vec<usize> = (0..vals.len()).collect();
    permute(&mut idx, 0, &mut |p: &[usize]| {
        let mut acc = vals[p[0]].clone();
        for i in &p[1..] {
            acc = acc.merge(vals[*i]);
        }
        outs.insert(project(&acc));
    });
    let not_commutative = (0..vals.len()).any(|i| (i + 1..vals.len()).any(|j| project(&vals[i].merge(vals[j])) != project(&vals[j].merge(vals[i]))));
    let kinds = {
        let mut ks: Vec<&str> = vals.iter().map(|v| if v.crdt.type_name() == "lww" || v.crdt.type_name() == "string" { "Lww" } else { v.crdt.type_name() }).collect();
        ks.sort();
        ks.dedup();
        ks.join("+")
    };
    if not_commutative {
        Some(format!("diverged merge-not-commutative kinds={kinds}"))
    } else if outs.len() > 1 {
        Some(format!("diverged merge-order-dependent kinds={kinds}"))
    } else {
        None
    }
}

/// Replay history + event on a fresh cluster; Ok(fingerprint) | Err((signature, detail)) | None (disabled)
pub async fn run(mode: Mode, nodes: usize, rf: usize, max_ops: usize, alpha: &[Ev], hist: &[u16], ev: u16) -> Option<Result<String, (String, String)>> {
    let mut w = Cluster::new(mode, nodes, rf);
    for h in hist {
        assert!(w.enabled(&alpha[*h as usize], max_ops), "nondeterministic replay: history event {} not enabled", show_ev(&alpha[*h as usize]));
        w.apply(&alpha[*h as usize]).await;
    }
    let e = &alpha[ev as usize];
    if !w.enabled(e, max_ops) {
        return None;
    }
    w.apply(e).await;
    let evs: Vec<Ev> = hist.iter().map(|h| alpha[*h as usize].clone()).chain(std::iter::once(e.clone())).collect();
    let trace = evs.iter().map(show_ev).collect::<Vec<_>>().join(" ; ");
    let mut fp = String::new();
    let mut all_reads = Vec::new();
    for n in 0..nodes {
        let reads = w.reads(n).await;
        let (views, projs) = w.views(n).await;
        if reads != views {
            let k = reads.keys().chain(views.keys()).find(|k| reads.get(*k) != views.get(*k)).unwrap().clone();
            let cls = |o: Option<&String>| o.map(|s| s.split(|c| c == ':' || c == ' ').next().unwrap_or("?").to_string()).unwrap_or_else(|| "nothing".into());
            let ttl_only = reads.get(&k).map(|s| s.split(" ttl").next()) == views.get(&k).map(|s| s.split(" ttl").next());
            return Some(Err((
                format!("node-level serves!=replication-state {} ops={}", if ttl_only { "ttl".to_string() } else { format!("state={} served={}", cls(views.get(&k)), cls(reads.get(&k))) }, op_names(&evs)),
                format!("[{} cluster of {nodes}, {trace}]: node{n} key {k}: clients read {:?} but the node's replication state says {:?}", mode.name(), reads.get(&k), views.get(&k)),
            )));
        }
        fp.push_str(&format!("n{n}:{:?}|{:?}|out{:?};", projs, reads, w.pending_ops[n]));
        all_reads.push(reads);
    }
    if w.client_ops > 0 && w.quiescent() {
        fp.insert_str(0, "Q|");
        for key in ["k", "j"] {
            let owners = w.owners(key);
            for n in &owners[1..] {
                let (a, b) = (all_reads[owners[0]].get(key), all_reads[*n].get(key));
                if a != b {
                    let vals: Vec<&ReplicatedValue> = w.shipped.iter().filter(|d| d.key == key).map(|d| &d.value).collect();
                    let sig = match merge_cause(&vals) {
                        Some(s) => s,
                        None => format!("node-level diverged mode={} ops={}", mode.name(), op_names(&evs)),
                    };
                    return Some(Err((
                        sig,
                        format!("[{} cluster of {nodes}{}, {trace}]: every outbox is drained and every message delivered, yet node{} reads {:?} and node{n} reads {:?} for key {key} (owners of {key}: {:?}); messages: {}",
                            mode.name(), if mode == Mode::Selective { format!(" rf={rf}") } else { String::new() }, owners[0], a, b, owners,
                            w.msgs.iter().enumerate().map(|(i, m)| format!("#{i} node{}->node{} [{}]", m.from, m.to, m.shown)).collect::<Vec<_>>().join("; ")),
                    )));
                }
            }
        }
    }
    fp.push_str(&format!("ops{};", w.client_ops));
    for (i, m) in w.msgs.iter().enumerate() {
        fp.push_str(&format!("m{i}:{}>{}:{};", m.from, m.to, m.shown));
    }
    fp.push_str(&format!("del{:?}red{:?}", w.delivered, w.redelivered));
    Some(Ok(fp))
}

// ---------------------------------------------------------------------------------------------------------------
// command-set sweep at the node level: one command on node A, gossip, delivery to node B, compare what clients read
// ---------------------------------------------------------------------------------------------------------------

pub const SWEEP_SEEDS: &[(&str, &[&str])] = &[("none", &[]), ("string", &["SET k 10"]), ("hash", &["HSET k a 1 b 2"]), ("two-strings", &["SET k 10", "SET j 20"])];

pub struct SweepOutcome {
    pub skipped_shard_level: bool,
    pub violation: Option<(String, String)>,
}

pub async fn sweep_case(seed: usize, inst: &Argv) -> SweepOutcome {
    let mut w = Cluster::new(Mode::Broadcast, 2, 2);
    for s in SWEEP_SEEDS[seed].1 {
        let _ = w.nodes[0].execute(resp::parse(&resp::line(s)).expect("seed parses")).await;
    }
    w.pending_ops[0].push(0);
    w.round(0).await;
    for m in 0..w.msgs.len() {
        w.deliver(m).await;
    }
    let before = w.msgs.len();
    let reply = w.nodes[0].execute(resp::parse(inst).expect("filtered")).await;
    w.round(0).await;
    for m in before..w.msgs.len() {
        w.deliver(m).await;
    }
    let ra = w.reads(0).await;
    let (va, _) = w.views(0).await;
    if ra != va {
        // the node already serves something else than its own replication state: the shard-level sweep names that
        return SweepOutcome { skipped_shard_level: true, violation: None };
    }
    let rb = w.reads(1).await;
    if ra == rb {
        return SweepOutcome { skipped_shard_level: false, violation: None };
    }
    let k = ra.keys().chain(rb.keys()).find(|k| ra.get(*k) != rb.get(*k)).unwrap().clone();
    let mut name = String::from_utf8_lossy(&inst[0]).to_ascii_uppercase();
    if matches!(name.as_str(), "SCRIPT" | "OBJECT" | "DEBUG" | "CONFIG" | "CLIENT") && inst.len() > 1 {
        name = format!("{name} {}", String::from_utf8_lossy(&inst[1]).to_ascii_uppercase());
    }
    // DEL / UNLINK of several keys record a tombstone per key but hand back only the delta of the last key (None when the
    // last key is absent on that shard): the listed multi-key-DEL finding, seen through the node's gossip path
    let sig = if matches!(name.as_str(), "DEL" | "UNLINK") && inst.len() > 2 { "diverged after-multi-key-DEL".to_string() } else { format!("node-level diverged after-one-command {name}") };
    SweepOutcome {
        skipped_shard_level: false,
        violation: Some((
            sig,
            format!("two-node cluster, keys hold {} on both nodes; node0 executes `{}` (reply {}), runs a gossip round and node1 receives every message ({} message(s)): node0 reads {:?} for key {k}, node1 reads {:?} — and node0's replication state agrees with what node0 serves, so the update exists but was never shipped",
                SWEEP_SEEDS[seed].0, resp::show_argv(inst), resp::show(&reply).chars().take(80).collect::<String>(), w.msgs.len() - before, ra.get(&k), rb.get(&k)),
        )),
    }
}
