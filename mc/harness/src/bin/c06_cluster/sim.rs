//! C06 part (d) — partitions that heal. The repository's own cluster model (`simulator::MultiNodeSimulation`: real
//! `CommandExecutor` + `ShardReplicaState` + `AntiEntropyManager` per node, gossip with delay and loss by partition,
//! digest-driven anti-entropy when a partition heals) explored exhaustively: BFS over
//! {client write on any node, gossip round with / without the clock moving, partition of any pair, heal of any pair};
//! oracle: in every state a node serves what its replication state says; in every state without partitions, without
//! queued messages and without undrained updates, every node reads alike (for rf < n: every owner of the key).
use redis_sim::redis::{Command, RespValue};
use redis_sim::simulator::multi_node::MultiNodeSimulation;
use std::collections::{BTreeMap, BTreeSet};
use vh::persist_kit::{client_view, project};
use vh::resp;

pub const SIM_OPS: &[&str] = &["SET k a", "SET k b", "DEL k", "SET j z", "SET k e EX 100", "SET k c NX", "DEL k j", "SET k q PX 500"];

#[derive(Clone, Debug, PartialEq, Eq)]
pub enum Ev {
    Write(usize, usize),
    /// the clock moves 10 ms (more than the greatest message delay), then one gossip round
    Gossip,
    /// a gossip round without the clock moving: what it sends stays in flight
    GossipNoTime,
    Partition(usize, usize),
    Heal(usize, usize),
}

pub fn alphabet(nodes: usize, ops: &[usize]) -> Vec<Ev> {
    let mut v = Vec::new();
    for n in 0..nodes {
        for o in ops {
            v.push(Ev::Write(n, *o));
        }
    }
    v.push(Ev::Gossip);
    v.push(Ev::GossipNoTime);
    for a in 0..nodes {
        for b in a + 1..nodes {
            v.push(Ev::Partition(a, b));
        }
    }
    for a in 0..nodes {
        for b in a + 1..nodes {
            v.push(Ev::Heal(a, b));
        }
    }
    v
}

pub fn show_ev(e: &Ev) -> String {
    match e {
        Ev::Write(n, o) => format!("node{n}: {}", SIM_OPS[*o]),
        Ev::Gossip => "clock +10ms, gossip round".into(),
        Ev::GossipNoTime => "gossip round (clock stands)".into(),
        Ev::Partition(a, b) => format!("partition node{a}|node{b}"),
        Ev::Heal(a, b) => format!("heal node{a}|node{b}"),
    }
}

pub struct Bounds {
    pub max_writes: usize,
    pub max_partitions: usize,
}

struct W {
    sim: MultiNodeSimulation,
    writes: usize,
    partitions_made: usize,
}

fn make(nodes: usize, rf: usize) -> MultiNodeSimulation {
    if rf < nodes {
        MultiNodeSimulation::new_partitioned(nodes, rf, 7)
    } else {
        MultiNodeSimulation::new(nodes, 7)
    }
}

impl W {
    fn enabled(&self, e: &Ev, b: &Bounds) -> bool {
        match e {
            Ev::Write(_, _) => self.writes < b.max_writes,
            Ev::Gossip => self.writes > 0,
            Ev::GossipNoTime => self.sim.nodes.iter().any(|n| !n.replica_state.pending_deltas.is_empty()),
            Ev::Partition(x, y) => self.partitions_made < b.max_partitions && self.sim.can_communicate(*x, *y),
            Ev::Heal(x, y) => !self.sim.can_communicate(*x, *y),
        }
    }
    fn apply(&mut self, e: &Ev) {
        match e {
            Ev::Write(n, o) => {
                let cmd: Command = resp::parse(&resp::line(SIM_OPS[*o])).expect("op parses");
                let _ = self.sim.execute(0, *n, cmd);
                self.writes += 1;
            }
            Ev::Gossip => {
                self.sim.advance_time_ms(10);
                self.sim.gossip_round();
            }
            Ev::GossipNoTime => self.sim.gossip_round(),
            Ev::Partition(a, b) => {
                self.sim.partition(*a, *b);
                self.partitions_made += 1;
            }
            Ev::Heal(a, b) => self.sim.heal_partition(*a, *b),
        }
    }
    fn reads(&mut self, n: usize) -> BTreeMap<String, String> {
        let mut out = BTreeMap::new();
        for key in ["k", "j"] {
            let node = &mut self.sim.nodes[n];
            let g = node.executor.execute(&Command::Get(key.to_string()));
            let v = match g {
                RespValue::BulkString(Some(b)) => format!("string:{}", String::from_utf8_lossy(&b)),
                RespValue::BulkString(None) => continue,
                o => format!("?{}", resp::show(&o)),
            };
            let ttl = resp::show(&node.executor.execute(&Command::Pttl(key.to_string())));
            out.insert(key.to_string(), format!("{v} ttl{ttl}"));
        }
        out
    }
    fn views(&self, n: usize) -> (BTreeMap<String, String>, BTreeMap<String, String>) {
        let mut views = BTreeMap::new();
        let mut projs = BTreeMap::new();
        for (k, v) in &self.sim.nodes[n].replica_state.replicated_keys {
            projs.insert(k.clone(), project(v));
            let cv = client_view(v);
            if cv != "absent" {
                let ttl = match v.expiry_ms {
                    Some(ms) => format!(":{}", ms),
                    None => ":-1".to_string(),
                };
                views.insert(k.clone(), format!("{cv} ttl{ttl}"));
            }
        }
        (views, projs)
    }
    fn owners(&self, key: &str) -> Vec<usize> {
        match &self.sim.hash_ring {
            Some(r) => {
                let mut v: Vec<usize> = r.read().unwrap().get_replicas(key).iter().map(|id| id.0 as usize - 1).collect();
                v.sort();
                v
            }
            None => (0..self.sim.nodes.len()).collect(),
        }
    }
    fn quiescent(&self) -> bool {
        self.sim.partitions.is_empty() && self.sim.message_queue.is_empty() && self.sim.nodes.iter().all(|n| n.replica_state.pending_deltas.is_empty())
    }
}

pub fn op_names(evs: &[Ev]) -> String {
    let mut names: BTreeSet<String> = BTreeSet::new();
    for e in evs {
        if let Ev::Write(_, o) = e {
            let parts: Vec<&str> = SIM_OPS[*o].split(' ').collect();
            let mut s = parts[0].to_string();
            if SIM_OPS[*o] == "DEL k j" {
                s.push_str("-2keys");
            }
            for x in parts.iter().skip(3) {
                s.push_str(&format!("-{x}"));
            }
            names.insert(s);
        }
    }
    names.into_iter().collect::<Vec<_>>().join("+")
}

/// was there a partition at some point of the history?
fn shape(evs: &[Ev]) -> &'static str {
    let p = evs.iter().any(|e| matches!(e, Ev::Partition(..)));
    let inflight = evs.iter().any(|e| matches!(e, Ev::GossipNoTime));
    match (p, inflight) {
        (true, true) => "partition+in-flight",
        (true, false) => "partition",
        (false, true) => "in-flight",
        (false, false) => "plain",
    }
}

pub fn run(nodes: usize, rf: usize, b: &Bounds, alpha: &[Ev], hist: &[u16], ev: u16) -> Option<Result<String, (String, String)>> {
    let mut w = W { sim: make(nodes, rf), writes: 0, partitions_made: 0 };
    for h in hist {
        assert!(w.enabled(&alpha[*h as usize], b), "nondeterministic replay");
        w.apply(&alpha[*h as usize]);
    }
    let e = &alpha[ev as usize];
    if !w.enabled(e, b) {
        return None;
    }
    w.apply(e);
    let evs: Vec<Ev> = hist.iter().map(|h| alpha[*h as usize].clone()).chain(std::iter::once(e.clone())).collect();
    let trace = evs.iter().map(show_ev).collect::<Vec<_>>().join(" ; ");
    let mut fp = String::new();
    let mut all_reads = Vec::new();
    for n in 0..nodes {
        let reads = w.reads(n);
        let (views, projs) = w.views(n);
        if reads != views {
            let k = reads.keys().chain(views.keys()).find(|k| reads.get(*k) != views.get(*k)).unwrap().clone();
            let cls = |o: Option<&String>| o.map(|s| s.split(|c| c == ':' || c == ' ').next().unwrap_or("?").to_string()).unwrap_or_else(|| "nothing".into());
            let ttl_only = reads.get(&k).map(|s| s.split(" ttl").next()) == views.get(&k).map(|s| s.split(" ttl").next());
            let remote = !matches!(e, Ev::Write(..));
            return Some(Err((
                format!("simulated-cluster serves!=replication-state {} {} ops={}", if ttl_only { "ttl".to_string() } else { format!("state={} served={}", cls(views.get(&k)), cls(reads.get(&k))) }, if remote { "after-remote-update" } else { "after-local-write" }, op_names(&evs)),
                format!("[MultiNodeSimulation, {nodes} nodes rf={rf}: {trace}]: node{n} key {k}: its executor serves {:?} but its replication state says {:?}", reads.get(&k), views.get(&k)),
            )));
        }
        let pend: Vec<String> = w.sim.nodes[n].replica_state.pending_deltas.iter().map(|d| format!("{}:{}", d.key, project(&d.value))).collect();
        fp.push_str(&format!("n{n}:{projs:?}|{reads:?}|{pend:?};"));
        all_reads.push(reads);
    }
    let mut q = false;
    if w.writes > 0 && w.quiescent() {
        q = true;
        for key in ["k", "j"] {
            let owners = w.owners(key);
            for n in &owners[1..] {
                let (a, b2) = (all_reads[owners[0]].get(key), all_reads[*n].get(key));
                if a != b2 {
                    return Some(Err((
                        format!("simulated-cluster diverged {} rf{} ops={}", shape(&evs), if rf < nodes { "<n" } else { "=n" }, op_names(&evs)),
                        format!("[MultiNodeSimulation, {nodes} nodes rf={rf}: {trace}]: no partition, nothing in flight, nothing undrained, yet node{} reads {:?} and node{n} reads {:?} for key {key} (owners {:?})", owners[0], a, b2, owners),
                    )));
                }
            }
        }
    }
    let mut parts: Vec<(usize, usize)> = w.sim.partitions.iter().copied().collect();
    parts.sort();
    let queue: Vec<String> = w.sim.message_queue.iter().map(|m| format!("{}>{}:{}", m.from, m.to, m.deltas.iter().map(|d| format!("{}:{}", d.key, project(&d.value))).collect::<Vec<_>>().join(","))).collect();
    fp.push_str(&format!("P{parts:?}Q{queue:?}w{}p{}", w.writes, w.partitions_made));
    if q {
        fp.insert_str(0, "Q|");
    }
    Some(Ok(fp))
}
