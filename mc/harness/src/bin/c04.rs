//! C04 — pipelining: exactly one reply per command, in order, however bytes arrive.
//! The real OptimizedConnectionHandler on a scripted stream; enumerated: command streams x
//! segmentations into reads x batching configurations (+ malformed tails).
use redis_sim::production::ConnectionConfig;
use redis_sim::redis::RespValue;
use serde_json::json;
use std::collections::BTreeSet;
use std::sync::atomic::{AtomicU64, Ordering};
use vh::connsys::{decode_replies, ConnWorld};
use vh::polex;
use vh::resp::{self, Argv};
use vh::{cli, par, Reporter, Tier};

vh::use_jemalloc!();

#[derive(Clone, Copy, Debug, PartialEq, Eq)]
struct Cfg {
    min_pipeline_buffer: usize,
    batch_threshold: usize,
    /// the socket takes at most this many bytes per write call (0 = no limit)
    write_cap: usize,
    read_buffer_size: usize,
    shards: usize,
}

impl Cfg {
    fn conn(&self) -> ConnectionConfig {
        ConnectionConfig {
            max_buffer_size: 64 << 20, // well above the largest frame of the large-reply group (a frame above the limit is answered with an error and a close, by design)
            read_buffer_size: self.read_buffer_size,
            min_pipeline_buffer: self.min_pipeline_buffer,
            batch_threshold: self.batch_threshold,
        }
    }
    fn label(&self) -> String {
        format!("mpb{}-bt{}-rb{}-sh{}{}", self.min_pipeline_buffer, self.batch_threshold, self.read_buffer_size, self.shards, if self.write_cap > 0 { format!("-wc{}", self.write_cap) } else { String::new() })
    }
}

const V64: &str = "0123456789abcdef0123456789abcdef0123456789abcdef0123456789abcdef";

fn frames() -> Vec<Argv> {
    let l = |s: &str| resp::line(s);
    vec![
        l("GET k"), l("get k"), l("GeT k"), l("SET k v"), l(&format!("SET k {V64}")), l("SET k v EX 100000"), l("INCR n"), l("MGET k k2"),
        l("DEL k"), l("LPUSH l a b"), l("LRANGE l 0 -1"), l("EXISTS k"), l("FOO bar"), l("GET"), l("GET k2"), l("set k2 w"), l("PING"),
        // long keys: the batch collectors only look at a buffer of >= min_pipeline_buffer bytes, and a read boundary
        // can then fall inside the key of a frame whose header and length line are already complete
        l("GET a-key-that-is-thirty-bytes-long"), l("SET a-key-that-is-thirty-bytes-long v"),
        // a connection-ending command of the protocol (whatever the server makes of it, the commands before it keep their replies)
        l("QUIT"),
    ]
}

struct Outcome {
    written: Vec<u8>,
    finished: bool,
    error: Option<String>,
}

/// Feed the chunks (one per read), then EOF; run the handler and actors to completion.
fn run_conn(cfg: Cfg, chunks: &[Vec<u8>]) -> Outcome {
    polex::with_runtime(|rt| {
        rt.block_on(async {
            let mut w = ConnWorld::new(cfg.shards);
            let (stream, id) = w.connect("conn", cfg.conn());
            stream.set_write_cap(cfg.write_cap);
            for c in chunks {
                stream.push(c);
            }
            stream.close();
            let r = w.settle().await;
            Outcome {
                written: stream.take_written(),
                finished: w.finished(id),
                error: r.err().or_else(|| w.sched.panicked.clone()),
            }
        })
    })
}

/// Successive connections on ONE world (they share its buffer pool): each gets its chunks, then EOF, and runs to
/// completion before the next one is opened. Returns what each connection wrote.
fn run_generations(cfg: Cfg, pool_buffers: usize, gens: &[Vec<Vec<u8>>]) -> Vec<Outcome> {
    polex::with_runtime(|rt| {
        rt.block_on(async {
            let mut w = ConnWorld::with_pool(cfg.shards, pool_buffers);
            let mut outs = Vec::new();
            for (g, chunks) in gens.iter().enumerate() {
                let (stream, id) = w.connect(&format!("conn{g}"), cfg.conn());
                stream.set_write_cap(cfg.write_cap);
                for c in chunks {
                    stream.push(c);
                }
                stream.close();
                let r = w.settle().await;
                outs.push(Outcome { written: stream.take_written(), finished: w.finished(id), error: r.err().or_else(|| w.sched.panicked.clone()) });
            }
            outs
        })
    })
}

fn show_stream(v: &[Argv]) -> String {
    v.iter().map(resp::show_argv).collect::<Vec<_>>().join("; ")
}

fn show_replies(v: &[RespValue]) -> String {
    v.iter().map(resp::show).collect::<Vec<_>>().join(" | ")
}

/// Structural cut offsets of a stream: around every CR/LF, inside the first 16 bytes of each frame
/// (the fast-path recognisers look at exactly those), mid-payload, last byte.
fn structural_offsets(frame_starts: &[usize], bytes: &[u8]) -> Vec<usize> {
    let mut s: BTreeSet<usize> = BTreeSet::new();
    for (i, b) in bytes.iter().enumerate() {
        if *b == b'\r' || *b == b'\n' {
            s.insert(i);
            s.insert(i + 1);
        }
    }
    for (fi, st) in frame_starts.iter().enumerate() {
        let end = frame_starts.get(fi + 1).copied().unwrap_or(bytes.len());
        for o in *st..(*st + 16).min(end) {
            s.insert(o);
        }
        s.insert((st + end) / 2);
        s.insert(end - 1);
    }
    s.into_iter().filter(|o| *o > 0 && *o < bytes.len()).collect()
}

fn split_at(bytes: &[u8], cuts: &[usize]) -> Vec<Vec<u8>> {
    let mut out = Vec::new();
    let mut prev = 0;
    for c in cuts {
        out.push(bytes[prev..*c].to_vec());
        prev = *c;
    }
    out.push(bytes[prev..].to_vec());
    out
}

fn cmd_name(a: &Argv) -> String {
    let n = String::from_utf8_lossy(&a[0]).to_string();
    let up = n.to_ascii_uppercase();
    // keep the letter-case class: the fast path recognises only GET/get/SET/set
    let case = if n == up { "" } else if n == n.to_ascii_lowercase() { "(lower)" } else { "(mixed)" };
    let big = if a.iter().any(|t| t.len() >= 60) { "(big)" } else { "" };
    format!("{}/{}{}{}", up, a.len() - 1, case, big)
}

struct Verdict {
    sig: String,
    detail: String,
}

/// Compare one run against the expected replies.
fn judge(stream: &[Argv], expected: &[RespValue], out: &Outcome, what: &str) -> Option<Verdict> {
    let names: Vec<String> = stream.iter().map(cmd_name).collect();
    if let Some(e) = &out.error {
        let kind = if e.contains("panicked") { "panic" } else { "hang" };
        return Some(Verdict {
            sig: format!("{kind} stream=[{}]", names.join(",")),
            detail: format!("{what}: {e}"),
        });
    }
    if !out.finished {
        return Some(Verdict {
            sig: format!("hang stream=[{}]", names.join(",")),
            detail: format!("{what}: handler did not finish after EOF"),
        });
    }
    let (replies, rest) = decode_replies(&out.written);
    if !rest.is_empty() {
        return Some(Verdict {
            sig: format!("garbage-output stream=[{}]", names.join(",")),
            detail: format!("{what}: output not decodable after {} replies: {}", replies.len(), resp::esc(&rest)),
        });
    }
    if replies.len() != expected.len() || replies != expected {
        // first divergent position
        let i = (0..expected.len().max(replies.len())).find(|i| replies.get(*i) != expected.get(*i)).unwrap();
        let kind = if replies.len() < expected.len() {
            "missing-reply"
        } else if replies.len() > expected.len() {
            "extra-reply"
        } else {
            "wrong-reply"
        };
        let at = names.get(i).cloned().unwrap_or_else(|| "end".into());
        let prev = if i > 0 { names[i - 1].clone() } else { "start".into() };
        return Some(Verdict {
            sig: format!("{kind} at={at} prev={prev}"),
            detail: format!(
                "{what}: {} replies for {} commands; expected [{}] got [{}]",
                replies.len(),
                expected.len(),
                show_replies(expected),
                show_replies(&replies)
            ),
        });
    }
    None
}

fn malformed_tails() -> Vec<(&'static str, Vec<u8>)> {
    vec![
        ("bad-type-byte", b"!foo\r\n".to_vec()),
        ("array-len-non-numeric", b"*x\r\n$3\r\nGET\r\n$1\r\nk\r\n".to_vec()),
        ("array-len-minus-2", b"*-2\r\n".to_vec()),
        ("bulk-len-minus-5", b"*1\r\n$-5\r\nPING\r\n".to_vec()),
        ("bulk-len-non-numeric", b"*1\r\n$x\r\nPING\r\n".to_vec()),
        ("bulk-len-overflow", b"*1\r\n$99999999999999999999\r\nPING\r\n".to_vec()),
        ("get-key-len-usize-max", b"*2\r\n$3\r\nGET\r\n$18446744073709551615\r\nk\r\n".to_vec()),
        ("get-key-len-minus-1", b"*2\r\n$3\r\nGET\r\n$-1\r\n".to_vec()),
        ("set-val-len-usize-max", b"*3\r\n$3\r\nSET\r\n$1\r\nk\r\n$18446744073709551615\r\nv\r\n".to_vec()),
        ("missing-crlf-after-payload", b"*1\r\n$4\r\nPINGxx*1\r\n$4\r\nPING\r\n".to_vec()),
        ("get-key-no-crlf", b"*2\r\n$3\r\nGET\r\n$1\r\nkXY*1\r\n$4\r\nPING\r\n".to_vec()),
    ]
}

fn main() {
    let args = cli::parse_args();
    vh::quiet_panics();
    if let Some(path) = &args.replay {
        let r = vh::report::load_replay(path);
        let cfg = Cfg {
            min_pipeline_buffer: r["cfg"]["min_pipeline_buffer"].as_u64().unwrap() as usize,
            batch_threshold: r["cfg"]["batch_threshold"].as_u64().unwrap() as usize,
            write_cap: r["cfg"]["write_cap"].as_u64().unwrap_or(0) as usize,
            read_buffer_size: r["cfg"]["read_buffer_size"].as_u64().unwrap() as usize,
            shards: r["cfg"]["shards"].as_u64().unwrap() as usize,
        };
        if r["large"] == json!(true) {
            let size = r["size"].as_u64().unwrap() as usize;
            let big: Vec<u8> = (0..size).map(|i| b'a' + (i % 23) as u8).collect();
            let mut stream: Vec<Argv> = vec![vec![b"SET".to_vec(), b"k".to_vec(), big]];
            stream.extend(r["body"].as_array().unwrap().iter().map(|o| resp::line(o.as_str().unwrap())));
            let wires: Vec<Vec<u8>> = stream.iter().map(resp::wire).collect();
            let cuts: Vec<usize> = r["cuts"].as_array().map(|a| a.iter().map(|c| c.as_u64().unwrap() as usize).collect()).unwrap_or_default();
            let reference = run_conn(cfg, &wires);
            let (want, _) = decode_replies(&reference.written);
            let mut chunks = vec![wires[0].clone()];
            chunks.extend(split_at(&wires[1..].concat(), &cuts));
            let out = run_conn(cfg, &chunks);
            println!("config {}: SET k <{size} bytes> in its own read, then {:?} cut at {:?}", cfg.label(), r["body"], cuts);
            match judge(&stream, &want, &out, "replay") {
                Some(v) => {
                    println!("{}", if v.detail.len() > 1500 { &v.detail[..1500] } else { &v.detail });
                    println!("VIOLATION property=C04 replay={} ({})", path.display(), v.sig);
                    std::process::exit(1);
                }
                None => {
                    println!("replay: no violation");
                    std::process::exit(0);
                }
            }
        }
        let chunks: Vec<Vec<u8>> = r["chunks"].as_array().unwrap().iter().map(|c| resp::unescape(c.as_str().unwrap())).collect();
        let out = run_conn(cfg, &chunks);
        let (replies, rest) = decode_replies(&out.written);
        println!("config {}", cfg.label());
        for c in &chunks {
            println!("read: {}", resp::esc(c));
        }
        println!("finished={} error={:?}", out.finished, out.error);
        println!("replies: [{}] undecodable rest: {}", show_replies(&replies), resp::esc(&rest));
        println!("expected: {}", r["expected"]);
        let exp: Vec<String> = r["expected"].as_array().map(|a| a.iter().map(|x| x.as_str().unwrap().to_string()).collect()).unwrap_or_default();
        let got: Vec<String> = replies.iter().map(resp::show).collect();
        let still = out.error.is_some() || !out.finished || !rest.is_empty() || (r["expected"].is_array() && got != exp) || (r["expect_error_after"].is_u64() && {
            let n = r["expect_error_after"].as_u64().unwrap() as usize;
            got.len() <= n || !got[n..].iter().any(|x| x.starts_with('-'))
        });
        if still {
            println!("VIOLATION property=C04 replay={}", path.display());
            std::process::exit(1);
        }
        println!("replay: no violation");
        std::process::exit(0);
    }
    let rep = Reporter::new("C04", "exploration", &args);
    let thorough = args.tier == Tier::Thorough;
    let fr = frames();
    // quick: all streams of <=2 frames over the whole alphabet + all streams of 3 frames over the 8
    // frames that matter most to the batch collectors / fast paths; thorough: <=3 over everything
    // + length 4 over the core frames
    let core: Vec<usize> = vec![0, 1, 3, 4, 6, 13, 12, 7, 17, 18];
    let max_len_all = if thorough { 3 } else { 2 };
    let mut streams: Vec<Vec<usize>> = vec![];
    let mut cur: Vec<Vec<usize>> = vec![vec![]];
    for _ in 0..max_len_all {
        cur = cur.iter().flat_map(|s| (0..fr.len()).map(move |f| { let mut x = s.clone(); x.push(f); x })).collect();
        streams.extend(cur.iter().cloned());
    }
    let core_len = if thorough { 4 } else { 3 };
    let mut c: Vec<Vec<usize>> = vec![vec![]];
    for _ in 0..core_len {
        c = c.iter().flat_map(|s| core.iter().map(move |f| { let mut x = s.clone(); x.push(*f); x })).collect();
    }
    streams.extend(c);
    streams.sort();
    streams.dedup();
    // QUIT only as the last frame: what a server owes to commands sent after QUIT is not part of the property
    let quit = fr.iter().position(|f| f[0].eq_ignore_ascii_case(b"QUIT")).expect("QUIT frame");
    streams.retain(|s| s.iter().rev().skip(1).all(|f| *f != quit));
    let mut cfgs = vec![
        Cfg { min_pipeline_buffer: 60, batch_threshold: 2, write_cap: 0, read_buffer_size: 8192, shards: 1 },
        Cfg { min_pipeline_buffer: 1, batch_threshold: 2, write_cap: 0, read_buffer_size: 8192, shards: 1 },
        Cfg { min_pipeline_buffer: 1, batch_threshold: 1, write_cap: 0, read_buffer_size: 8192, shards: 1 },
        Cfg { min_pipeline_buffer: 16, batch_threshold: 3, write_cap: 0, read_buffer_size: 8192, shards: 2 },
        // a socket that takes 3 bytes per write call: every reply batch needs several writes (short writes)
        Cfg { min_pipeline_buffer: 60, batch_threshold: 2, write_cap: 3, read_buffer_size: 8192, shards: 1 },
        // a tiny read buffer: every read fills it completely, frames always span several reads
        Cfg { min_pipeline_buffer: 60, batch_threshold: 2, write_cap: 0, read_buffer_size: 5, shards: 1 },
    ];
    if thorough {
        cfgs.push(Cfg { min_pipeline_buffer: 1, batch_threshold: 2, write_cap: 0, read_buffer_size: 7, shards: 1 });
        cfgs.push(Cfg { min_pipeline_buffer: 60, batch_threshold: 2, write_cap: 0, read_buffer_size: 8192, shards: 2 });
        cfgs.push(Cfg { min_pipeline_buffer: 1, batch_threshold: 1, write_cap: 0, read_buffer_size: 5, shards: 2 });
    }
    let runs = AtomicU64::new(0);
    let segs_total = AtomicU64::new(0);
    let distinct_outputs = std::sync::Mutex::new(BTreeSet::<u64>::new());
    let reference_cfg = cfgs[0];
    par::par_map(&streams, |_, sidx| {
        let stream: Vec<Argv> = sidx.iter().map(|i| fr[*i].clone()).collect();
        let wires: Vec<Vec<u8>> = stream.iter().map(resp::wire).collect();
        let mut bytes = Vec::new();
        let mut starts = Vec::new();
        for w in &wires {
            starts.push(bytes.len());
            bytes.extend_from_slice(w);
        }
        // Reference = the literal reading of the property: each command sent alone after its
        // predecessors completed (one frame per read), same handler code, default configuration.
        let twin = run_conn(reference_cfg, &wires);
        runs.fetch_add(1, Ordering::Relaxed);
        let (twin_replies, twin_rest) = decode_replies(&twin.written);
        let twin_ok = twin.error.is_none() && twin.finished && twin_rest.is_empty() && twin_replies.len() == stream.len();
        if !twin_ok {
            // the reference run itself breaks "one reply per command": report it with what it produced
            let names: Vec<String> = stream.iter().map(cmd_name).collect();
            let kind = if twin.error.as_deref().map(|e| e.contains("panicked")).unwrap_or(false) {
                "panic"
            } else if twin.error.is_some() || !twin.finished {
                "hang"
            } else if twin_replies.len() < stream.len() {
                "missing-reply"
            } else {
                "extra-reply"
            };
            // position: first command whose own single-frame run is short of replies is the last one here
            rep.violation(
                format!("frame-per-read {kind} last={} prev={}", names.last().unwrap(), if names.len() > 1 { names[names.len() - 2].clone() } else { "start".into() }),
                format!(
                    "stream [{}] fed one whole frame per read (config {}): {} replies for {} commands: [{}] error={:?}",
                    stream.iter().map(resp::show_argv).collect::<Vec<_>>().join("; "),
                    reference_cfg.label(), twin_replies.len(), stream.len(), show_replies(&twin_replies), twin.error
                ),
                json!({"cfg": {"min_pipeline_buffer": reference_cfg.min_pipeline_buffer, "batch_threshold": reference_cfg.batch_threshold, "write_cap": reference_cfg.write_cap, "read_buffer_size": reference_cfg.read_buffer_size, "shards": reference_cfg.shards},
                       "chunks": wires.iter().map(|c| resp::esc(c)).collect::<Vec<_>>(), "expected_count": stream.len()}),
            );
            return;
        }
        let offs = structural_offsets(&starts, &bytes);
        let mut segmentations: Vec<Vec<usize>> = vec![vec![]];
        let two_cuts = stream.len() <= 2 || thorough;
        if thorough && stream.len() <= 3 {
            for o in 1..bytes.len() {
                segmentations.push(vec![o]);
            }
        } else {
            for o in &offs {
                segmentations.push(vec![*o]);
            }
        }
        if two_cuts && stream.len() <= 3 {
            for (i, a) in offs.iter().enumerate() {
                for b in &offs[i + 1..] {
                    segmentations.push(vec![*a, *b]);
                }
            }
        }
        // frame-aligned segmentation under every config is part of the space too
        segmentations.push(starts[1..].to_vec());
        segmentations.sort();
        segmentations.dedup();
        segs_total.fetch_add(segmentations.len() as u64, Ordering::Relaxed);
        let mut local_outputs = BTreeSet::new();
        for cfg in &cfgs {
            for cuts in &segmentations {
                let chunks = split_at(&bytes, cuts);
                let out = run_conn(*cfg, &chunks);
                runs.fetch_add(1, Ordering::Relaxed);
                local_outputs.insert(vh::seqx::fp128(&resp::esc(&out.written)) as u64);
                let seg_class = if cuts.is_empty() {
                    "whole"
                } else if cuts.iter().all(|c| starts.contains(c)) {
                    "frame-aligned"
                } else {
                    "mid-frame"
                };
                let what = format!(
                    "stream [{}] in reads {:?} (config {})",
                    stream.iter().map(resp::show_argv).collect::<Vec<_>>().join("; "),
                    chunks.iter().map(|c| resp::esc(c)).collect::<Vec<_>>(),
                    cfg.label()
                );
                if let Some(v) = judge(&stream, &twin_replies, &out, &what) {
                    let batching = if cfg.batch_threshold <= 1 { "bt1" } else { "bt>1" };
                    rep.violation(
                        format!("{} seg={seg_class} {batching}", v.sig),
                        v.detail,
                        json!({"cfg": {"min_pipeline_buffer": cfg.min_pipeline_buffer, "batch_threshold": cfg.batch_threshold, "write_cap": cfg.write_cap, "read_buffer_size": cfg.read_buffer_size, "shards": cfg.shards},
                               "chunks": chunks.iter().map(|c| resp::esc(c)).collect::<Vec<_>>(),
                               "expected": twin_replies.iter().map(resp::show).collect::<Vec<_>>()}),
                    );
                }
            }
        }
        distinct_outputs.lock().unwrap().extend(local_outputs);
    });

    // malformed tails: after 0..2 good commands one malformed frame, whole and at every single cut
    let goods: Vec<Vec<usize>> = {
        let mut v = vec![vec![]];
        for a in [0usize, 3, 6, 9] {
            v.push(vec![a]);
            for b in [0usize, 3, 4] {
                v.push(vec![a, b]);
            }
        }
        v
    };
    let tails = malformed_tails();
    let mal_items: Vec<(Vec<usize>, usize)> = goods.iter().flat_map(|g| (0..tails.len()).map(move |t| (g.clone(), t))).collect();
    let mal_runs = AtomicU64::new(0);
    par::par_map(&mal_items, |_, (g, t)| {
        let stream: Vec<Argv> = g.iter().map(|i| fr[*i].clone()).collect();
        let wires: Vec<Vec<u8>> = stream.iter().map(resp::wire).collect();
        let (tname, tbytes) = &tails[*t];
        let twin = run_conn(reference_cfg, &wires);
        let (good_replies, _) = decode_replies(&twin.written);
        if good_replies.len() != stream.len() {
            return; // reported by the well-formed part
        }
        let mut bytes: Vec<u8> = wires.concat();
        let good_len = bytes.len();
        bytes.extend_from_slice(tbytes);
        let mut segs: Vec<Vec<usize>> = vec![vec![]];
        if good_len > 0 {
            segs.push(vec![good_len]);
        }
        for o in good_len + 1..bytes.len() {
            segs.push(vec![o]);
        }
        for cfg in &cfgs[..if thorough { cfgs.len() } else { 2 }] {
            for cuts in &segs {
                let chunks = split_at(&bytes, cuts);
                let out = run_conn(*cfg, &chunks);
                mal_runs.fetch_add(1, Ordering::Relaxed);
                let what = format!("good [{}] then malformed `{}` in reads {:?} (config {})",
                    stream.iter().map(resp::show_argv).collect::<Vec<_>>().join("; "), tname,
                    chunks.iter().map(|c| resp::esc(c)).collect::<Vec<_>>(), cfg.label());
                let replay = json!({"cfg": {"min_pipeline_buffer": cfg.min_pipeline_buffer, "batch_threshold": cfg.batch_threshold, "write_cap": cfg.write_cap, "read_buffer_size": cfg.read_buffer_size, "shards": cfg.shards},
                    "chunks": chunks.iter().map(|c| resp::esc(c)).collect::<Vec<_>>(), "expect_error_after": stream.len()});
                let seg_class = if cuts.is_empty() || cuts[0] <= good_len { "tail-whole" } else { "tail-split" };
                if let Some(e) = &out.error {
                    let kind = if e.contains("panicked") { "panic" } else { "hang" };
                    rep.violation(format!("malformed {tname}: {kind} {seg_class}"), format!("{what}: {e}"), replay);
                    continue;
                }
                if !out.finished {
                    rep.violation(format!("malformed {tname}: hang {seg_class}"), format!("{what}: handler did not finish"), replay);
                    continue;
                }
                let (replies, rest) = decode_replies(&out.written);
                if !rest.is_empty() {
                    rep.violation(format!("malformed {tname}: garbage-output {seg_class}"), format!("{what}: undecodable output {}", resp::esc(&rest)), replay);
                    continue;
                }
                if replies.len() < good_replies.len() || replies[..good_replies.len()] != good_replies[..] {
                    rep.violation(
                        format!("malformed {tname}: earlier-replies-altered {seg_class}"),
                        format!("{what}: replies to the earlier commands should be [{}] but output is [{}]", show_replies(&good_replies), show_replies(&replies)),
                        replay,
                    );
                    continue;
                }
                if !replies[good_replies.len()..].iter().any(resp::is_err) {
                    rep.violation(
                        format!("malformed {tname}: silence {seg_class}"),
                        format!("{what}: no error reply for the malformed frame; output [{}]", show_replies(&replies)),
                        replay,
                    );
                }
            }
        }
    });

    // ---- successive connections sharing the buffer pool: connection A sends complete commands and then hangs up in the
    // middle of a frame (every structural prefix of it); connections B and C, opened afterwards on the same server, must
    // be answered exactly as on a server whose connection A had hung up between frames and whose pool never hands a
    // buffer out twice (pool of 64)
    let gen_runs = AtomicU64::new(0);
    {
        let l = |x: &str| resp::line(x);
        let a_complete: Vec<Argv> = vec![l("SET k v")];
        let tails: Vec<Argv> = vec![l("SET stale x"), l("GET k"), l(&format!("SET k {V64}"))];
        let followers: Vec<Vec<Argv>> = vec![vec![l("PING")], vec![l("GET k")], vec![l("SET k2 y"), l("GET k2")], vec![l("GET stale"), l("DBSIZE")]];
        let mut items: Vec<(usize, usize, usize, usize, usize)> = Vec::new(); // tail, cut, follower B, follower C, pool
        for (ti, t) in tails.iter().enumerate() {
            let wire = resp::wire(t);
            let cuts: Vec<usize> = structural_offsets(&[0], &wire);
            for c in cuts {
                for b in 0..followers.len() {
                    for cc in 0..followers.len() {
                        for pool in [2usize, 4] {
                            if thorough || (b == cc || cc == 0) {
                                items.push((ti, c, b, cc, pool));
                            }
                        }
                    }
                }
            }
        }
        let cfg = Cfg { min_pipeline_buffer: 60, batch_threshold: 2, write_cap: 0, read_buffer_size: 8192, shards: 2 };
        par::par_map(&items, |_, (ti, cut, b, cc, pool)| {
            let a_wire: Vec<u8> = a_complete.iter().flat_map(|f| resp::wire(f)).collect();
            let mut a_torn = a_wire.clone();
            a_torn.extend_from_slice(&resp::wire(&tails[*ti])[..*cut]);
            let fw = |i: usize| -> Vec<Vec<u8>> { followers[i].iter().map(|f| resp::wire(f)).collect() };
            let got = run_generations(cfg, *pool, &[vec![a_torn.clone()], fw(*b), fw(*cc)]);
            let want = run_generations(cfg, 64, &[vec![a_wire.clone()], fw(*b), fw(*cc)]);
            gen_runs.fetch_add(2, Ordering::Relaxed);
            for g in 1..3 {
                let (dg, _) = decode_replies(&got[g].written);
                let (dw, _) = decode_replies(&want[g].written);
                if got[g].error.is_some() || show_replies(&dg) != show_replies(&dw) {
                    rep.violation(
                        format!("successive-connections: connection {} answered differently after an earlier connection hung up mid-frame", if g == 1 { "B" } else { "C" }),
                        format!("pool of {pool} buffers; connection A sent [{}] + the first {cut} bytes of `{}` and closed; then B sent [{}], then C sent [{}]: connection {} got [{}]{} but on a server whose A closed between frames (pool of 64) it gets [{}]",
                            show_stream(&a_complete), resp::show_argv(&tails[*ti]), show_stream(&followers[*b]), show_stream(&followers[*cc]), if g == 1 { "B" } else { "C" },
                            show_replies(&dg), got[g].error.as_ref().map(|e| format!(" (error: {e})")).unwrap_or_default(), show_replies(&dw)),
                        json!({"generations": true, "tail": ti, "cut": cut, "b": b, "c": cc, "pool": pool}),
                    );
                    break;
                }
            }
        });
    }

    // ---- large replies: a value of 4 KiB .. 200 kB is stored, then every body of <=3 commands over readers of it
    // (bulk reply, nested reply, range reply) and small commands arrives in one read / frame per read / cut inside a
    // body frame; sizes sit around the powers of two a buffer or a "large reply" shortcut is likely to use
    let large_runs = AtomicU64::new(0);
    {
        let sizes: Vec<usize> = if thorough {
            vec![4095, 4096, 4097, 8191, 8192, 8193, 16383, 16384, 16385, 32767, 32768, 32769, 65535, 65536, 65537, 200_000, 1_048_577]
        } else {
            vec![4096, 8191, 8192, 8193, 16383, 16384, 16385, 65536, 65537, 200_000]
        };
        let body_ops = ["GET k", "PING", "GET k2", "STRLEN k", "GETRANGE k 0 -1", "MGET k k2"];
        let mut bodies: Vec<Vec<usize>> = Vec::new();
        let mut cur: Vec<Vec<usize>> = vec![vec![]];
        for _ in 0..3 {
            cur = cur.iter().flat_map(|b| (0..body_ops.len()).map(move |o| { let mut x = b.clone(); x.push(o); x })).collect();
            bodies.extend(cur.iter().cloned());
        }
        let items: Vec<(usize, usize)> = (0..sizes.len()).flat_map(|s| (0..bodies.len()).map(move |b| (s, b))).collect();
        par::par_map(&items, |_, (si, bi)| {
            let size = sizes[*si];
            let big: Vec<u8> = (0..size).map(|i| b'a' + (i % 23) as u8).collect();
            let mut stream: Vec<Argv> = vec![vec![b"SET".to_vec(), b"k".to_vec(), big]];
            stream.extend(bodies[*bi].iter().map(|o| resp::line(body_ops[*o])));
            let wires: Vec<Vec<u8>> = stream.iter().map(resp::wire).collect();
            let twin = run_conn(reference_cfg, &wires);
            large_runs.fetch_add(1, Ordering::Relaxed);
            let (twin_replies, twin_rest) = decode_replies(&twin.written);
            let show_short = |a: &Argv| resp::show_argv(&a.iter().map(|t| if t.len() > 40 { format!("<{} bytes>", t.len()).into_bytes() } else { t.clone() }).collect());
            let desc = format!("[{}]", stream.iter().map(show_short).collect::<Vec<_>>().join("; "));
            let names: Vec<String> = stream.iter().map(cmd_name).collect();
            if twin.error.is_some() || !twin.finished || !twin_rest.is_empty() || twin_replies.len() != stream.len() {
                rep.violation(
                    format!("frame-per-read large-reply body=[{}]", names[1..].join(",")),
                    format!("stream {desc} fed one frame per read: {} replies for {} commands, error={:?}", twin_replies.len(), stream.len(), twin.error),
                    json!({"large": true, "size": size, "body": bodies[*bi].iter().map(|o| body_ops[*o]).collect::<Vec<_>>(), "cuts": [],
                           "cfg": {"min_pipeline_buffer": reference_cfg.min_pipeline_buffer, "batch_threshold": reference_cfg.batch_threshold, "write_cap": reference_cfg.write_cap, "read_buffer_size": reference_cfg.read_buffer_size, "shards": reference_cfg.shards}}),
                );
                return;
            }
            let set_len = wires[0].len();
            let body_bytes: Vec<u8> = wires[1..].concat();
            // the SET always arrives in its own read; the body: whole, frame per read, and cut at every structural offset
            let mut body_starts = Vec::new();
            let mut o = 0;
            for w in &wires[1..] {
                body_starts.push(o);
                o += w.len();
            }
            let mut segmentations: Vec<Vec<usize>> = vec![vec![], body_starts[1..].to_vec()];
            segmentations.extend(structural_offsets(&body_starts, &body_bytes).into_iter().map(|c| vec![c]));
            segmentations.sort();
            segmentations.dedup();
            for cfg in cfgs.iter() {
                if cfg.read_buffer_size < 64 && size > 20_000 {
                    continue; // tens of thousands of 5-byte reads per run: covered up to 16 KiB
                }
                for cuts in &segmentations {
                    let mut chunks = vec![wires[0].clone()];
                    chunks.extend(split_at(&body_bytes, cuts));
                    let out = run_conn(*cfg, &chunks);
                    large_runs.fetch_add(1, Ordering::Relaxed);
                    let what = format!("stream {desc}: the SET in its own read, the rest cut at {:?} (config {})", cuts, cfg.label());
                    if let Some(v) = judge(&stream, &twin_replies, &out, &what) {
                        let detail = if v.detail.len() > 1500 { format!("{} …", &v.detail[..1500]) } else { v.detail };
                        rep.violation(
                            format!("large-reply {} size>={}", v.sig, if size >= 65535 { "64K" } else if size >= 16383 { "16K" } else if size >= 8191 { "8K" } else { "4K" }),
                            detail,
                            json!({"large": true, "size": size, "body": bodies[*bi].iter().map(|o| body_ops[*o]).collect::<Vec<_>>(), "cuts": cuts, "set_len": set_len,
                                   "cfg": {"min_pipeline_buffer": cfg.min_pipeline_buffer, "batch_threshold": cfg.batch_threshold, "write_cap": cfg.write_cap, "read_buffer_size": cfg.read_buffer_size, "shards": cfg.shards}}),
                        );
                    }
                }
            }
        });
    }

    // ---- command-set sweep: every command shape of the parsers' command set, on an empty keyspace and after a
    // seeding frame per key type, followed by PING, at every single cut (quick: the seeded streams only at
    // structural offsets); replies compared with the frame-per-read run (unordered replies as multisets)
    let sweep_runs = AtomicU64::new(0);
    let insts: Vec<Argv> = vh::cmdgen::all_instances(vh::cmdgen::Profile::Routing)
        .into_iter()
        .filter(|a| {
            if a.is_empty() {
                return false;
            }
            let name = String::from_utf8_lossy(&a[0]).to_ascii_uppercase();
            let sub = a.get(1).map(|x| String::from_utf8_lossy(x).to_ascii_uppercase()).unwrap_or_default();
            // random or time-dependent replies
            !(matches!(name.as_str(), "TIME" | "INFO") || (name == "SPOP" && a.len() == 2) || (name == "ACL" && sub == "GENPASS"))
        })
        .collect();
    const SWEEP_SEEDS: &[&str] = &["", "SET k1 10", "RPUSH k1 a b", "SADD k1 a b", "HSET k1 a 1 b 2", "ZADD k1 1 a 2 b"];
    const SWEEP_UNORDERED: &[&str] = &["KEYS", "SMEMBERS", "HGETALL", "HKEYS", "HVALS", "SCAN", "HSCAN", "ZSCAN", "SPOP", "CONFIG", "SORT"];
    let sweep_items: Vec<(usize, usize)> = (0..insts.len())
        .flat_map(|i| {
            let keyed = insts[i].iter().any(|t| t.as_slice() == b"k1");
            (0..SWEEP_SEEDS.len()).filter(move |s| *s == 0 || keyed).map(move |s| (i, s))
        })
        .collect();
    let sweep_cfgs = [cfgs[0], cfgs[1], cfgs[5]];
    par::par_map(&sweep_items, |_, (i, s)| {
        let mut stream: Vec<Argv> = Vec::new();
        if *s > 0 {
            stream.push(resp::line(SWEEP_SEEDS[*s]));
        }
        stream.push(insts[*i].clone());
        stream.push(resp::line("PING"));
        let wires: Vec<Vec<u8>> = stream.iter().map(resp::wire).collect();
        let bytes: Vec<u8> = wires.concat();
        let mut starts = Vec::new();
        let mut o = 0;
        for w in &wires {
            starts.push(o);
            o += w.len();
        }
        let canon = |stream: &[Argv], replies: &[RespValue]| -> Vec<String> {
            fn flat(v: &RespValue, out: &mut Vec<String>) {
                match v {
                    RespValue::Array(Some(items)) => items.iter().for_each(|i| flat(i, out)),
                    other => out.push(resp::show(other)),
                }
            }
            replies
                .iter()
                .enumerate()
                .map(|(i, r)| {
                    let name = stream.get(i).map(|a| String::from_utf8_lossy(&a[0]).to_ascii_uppercase()).unwrap_or_default();
                    if SWEEP_UNORDERED.contains(&name.as_str()) {
                        let mut v = Vec::new();
                        flat(r, &mut v);
                        v.sort();
                        format!("unordered[{}]", v.join(","))
                    } else {
                        resp::show(r)
                    }
                })
                .collect()
        };
        let twin = run_conn(reference_cfg, &wires);
        sweep_runs.fetch_add(1, Ordering::Relaxed);
        let (twin_replies, twin_rest) = decode_replies(&twin.written);
        let names: Vec<String> = stream.iter().map(cmd_name).collect();
        if twin.error.is_some() || !twin.finished || !twin_rest.is_empty() || twin_replies.len() != stream.len() {
            let kind = if twin.error.as_deref().map(|e| e.contains("panicked")).unwrap_or(false) { "panic" } else if twin.error.is_some() || !twin.finished { "hang" } else if twin_replies.len() < stream.len() { "missing-reply" } else { "extra-reply" };
            rep.violation(
                format!("frame-per-read {kind} last={} prev={}", names[names.len() - 1], if names.len() > 1 { names[names.len() - 2].clone() } else { "start".into() }),
                format!("stream [{}] fed one whole frame per read: {} replies for {} commands: [{}] error={:?}", stream.iter().map(resp::show_argv).collect::<Vec<_>>().join("; "), twin_replies.len(), stream.len(), show_replies(&twin_replies), twin.error),
                json!({"cfg": {"min_pipeline_buffer": reference_cfg.min_pipeline_buffer, "batch_threshold": reference_cfg.batch_threshold, "write_cap": reference_cfg.write_cap, "read_buffer_size": reference_cfg.read_buffer_size, "shards": reference_cfg.shards},
                       "chunks": wires.iter().map(|c| resp::esc(c)).collect::<Vec<_>>(), "expected_count": stream.len()}),
            );
            return;
        }
        let want = canon(&stream, &twin_replies);
        let mut segmentations: Vec<Vec<usize>> = vec![vec![]];
        if *s == 0 || thorough {
            segmentations.extend((1..bytes.len()).map(|o| vec![o]));
        } else {
            segmentations.extend(structural_offsets(&starts, &bytes).into_iter().map(|o| vec![o]));
        }
        for cfg in &sweep_cfgs {
            for cuts in &segmentations {
                let chunks = split_at(&bytes, cuts);
                let out = run_conn(*cfg, &chunks);
                sweep_runs.fetch_add(1, Ordering::Relaxed);
                let (replies, rest) = decode_replies(&out.written);
                let got = canon(&stream, &replies);
                let bad = out.error.is_some() || !out.finished || !rest.is_empty() || got != want;
                if !bad {
                    continue;
                }
                let kind = if out.error.as_deref().map(|e| e.contains("panicked")).unwrap_or(false) {
                    "panic"
                } else if out.error.is_some() || !out.finished {
                    "hang"
                } else if !rest.is_empty() {
                    "garbage-output"
                } else if got.len() < want.len() {
                    "missing-reply"
                } else if got.len() > want.len() {
                    "extra-reply"
                } else {
                    "wrong-reply"
                };
                let i = (0..want.len().max(got.len())).find(|i| got.get(*i) != want.get(*i)).unwrap_or(0);
                let seg_class = if cuts.is_empty() { "whole" } else if cuts.iter().all(|c| starts.contains(c)) { "frame-aligned" } else { "mid-frame" };
                let batching = if cfg.batch_threshold <= 1 { "bt1" } else { "bt>1" };
                rep.violation(
                    format!("{kind} at={} prev={} seg={seg_class} {batching}", names.get(i).cloned().unwrap_or_else(|| "end".into()), if i > 0 { names[i - 1].clone() } else { "start".into() }),
                    format!("stream [{}] in reads {:?} (config {}): expected [{}] got [{}] error={:?}", stream.iter().map(resp::show_argv).collect::<Vec<_>>().join("; "), chunks.iter().map(|c| resp::esc(c)).collect::<Vec<_>>(), cfg.label(), want.join(" | "), got.join(" | "), out.error),
                    json!({"cfg": {"min_pipeline_buffer": cfg.min_pipeline_buffer, "batch_threshold": cfg.batch_threshold, "write_cap": cfg.write_cap, "read_buffer_size": cfg.read_buffer_size, "shards": cfg.shards},
                           "chunks": chunks.iter().map(|c| resp::esc(c)).collect::<Vec<_>>(), "expected_count": stream.len()}),
                );
            }
        }
    });
    let total_runs = runs.load(Ordering::Relaxed) + mal_runs.load(Ordering::Relaxed) + sweep_runs.load(Ordering::Relaxed) + large_runs.load(Ordering::Relaxed) + gen_runs.load(Ordering::Relaxed);
    let coverage = json!({
        "evaluations": total_runs,
        "distinct_nontrivial": distinct_outputs.lock().unwrap().len(),
        "rule": "every stream of <=3 frames over the 20-frame alphabet (thorough: +length 4 over 7 core frames) x every segmentation (quick: whole, every single cut at a structural offset, all pairs of structural offsets for streams of <=2 frames; thorough: every single cut at every byte, all pairs of structural offsets) x every batching configuration is run through the real handler; the expected replies come from the same handler fed one frame per read; distinct_nontrivial = number of distinct output byte strings observed; malformed part: 0-2 good commands + one of 11 malformed frames, whole and at every single cut inside the malformed frame",
        "streams": streams.len(),
        "segmentations_summed_over_streams": segs_total.load(Ordering::Relaxed),
        "configs": cfgs.iter().map(|c| c.label()).collect::<Vec<_>>(),
        "handler_runs_wellformed": runs.load(Ordering::Relaxed),
        "handler_runs_malformed": mal_runs.load(Ordering::Relaxed),
        "successive_connections": {"handler_runs": gen_runs.load(Ordering::Relaxed), "rule": "three connections one after another on one server with a buffer pool of 2 or 4 buffers: A sends SET k v plus every structural prefix of a further frame and hangs up; B and C send one of four short streams each; B's and C's replies must equal those on a server with a pool of 64 whose A hung up between frames"},
        "large_replies": {"handler_runs": large_runs.load(Ordering::Relaxed), "rule": "SET k <value of 4 KiB .. 200 kB (thorough: .. 1 MiB+1), sizes around powers of two> in its own read, then every body of <=3 commands over {GET k, PING, GET k2, STRLEN k, GETRANGE k 0 -1, MGET k k2} whole / frame per read / cut at every structural offset, every configuration (5-byte read buffer up to 16 KiB)"},
        "command_set_sweep": {"command_instances": insts.len(), "streams": sweep_items.len(), "handler_runs": sweep_runs.load(Ordering::Relaxed),
            "rule": "stream = [optional seeding frame for k1 (string, list, set, hash, zset)] + one instance of every command shape of the parsers' command set + PING; whole and every single cut at every byte (quick: seeded streams at structural offsets) under 3 configurations (default, mpb1-bt2, 5-byte read buffer); replies compared with the frame-per-read run, unordered replies as multisets",
            "not_compared": "TIME, INFO, ACL GENPASS, SPOP without count"},
        "samples": [
            {"stream": ["GET k", "SET k v", "INCR n"], "reads": ["*2\\r\\n$3\\r\\nGE", "T\\r\\n$1\\r\\nk\\r\\n*3\\r\\n$3\\r\\nSET...", "..."]},
            {"malformed": "get-key-len-usize-max", "after": ["SET k v"]}
        ],
        "exhaustive": true,
    });
    rep.finish(
        coverage,
        vec![
            "the handler is hard-wired to the wall clock: no command in the alphabet has a reply that depends on elapsed milliseconds".into(),
            "one client, so task scheduling is canonical; the enumerated dimension is the environment (chunking, configuration)".into(),
            "replies are decoded with RespParser (its totality is C15's business)".into(),
        ],
    );
}
