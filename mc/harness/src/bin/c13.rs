//! C13 — compaction never changes what recovery returns.
//! (a) enumeration of segment layouts x selection/TTL/clock configurations: recovered state before
//!     vs after one real Compactor::compact();
//! (b) all interleavings of the store operations of compact() and a concurrent flush() (POLEX).
use redis_sim::streaming::{CompactionConfig, Compactor, ManifestManager, SimulatedClock, StreamingPersistence, WriteBufferConfig};
use serde_json::json;
use std::collections::BTreeSet;
use std::sync::atomic::{AtomicU64, Ordering};
use std::sync::Arc;
use std::time::Duration;
use vh::persist_kit::*;
use vh::polex::{self, Chooser, DfsConfig, Sched};
use vh::shardsys::VerifTime;
use vh::stores::VObjStore;
use vh::{cli, par, Reporter, Tier};

vh::use_jemalloc!();

const HOUR_MS: u64 = 3_600_000;
const EPOCH_MS: u64 = 1_700_000_000_000;

#[derive(Clone, Copy, Debug)]
struct Cfg {
    clock_ms: u64,
    ttl_ms: u64,
    /// 0 = every segment is a candidate; n = only segments with fewer than n records are
    max_records_selected: usize,
    max_per_compaction: usize,
    /// number of consecutive compact() calls of one Compactor (the worker's loop); the oracle is applied to each
    passes: usize,
    /// with 2 passes: how many segments of the layout exist before the first pass (0 = all); the others are written
    /// between the passes, as flushes that arrive while the compactor idles
    split: usize,
    /// n > 0: the n-th read of a segment object by the (first) compaction pass returns a copy with one flipped byte
    read_fault: usize,
}

impl Cfg {
    fn label(&self) -> String {
        let clock = match self.clock_ms {
            0 => "clock0".to_string(),
            EPOCH_MS => "clock-epoch".to_string(),
            c if c < self.ttl_ms => "clock<ttl".to_string(),
            _ => "clock>ttl".to_string(),
        };
        format!(
            "{clock} ttl{} select={} max{}",
            if self.ttl_ms == 0 { "0" } else { "1h" },
            if self.max_records_selected == 0 { "all" } else if self.max_records_selected == TIGHT { "all(tight-target)" } else if self.max_records_selected == PAIR { "all(target-just-above-largest)" } else { "small-only" },
            self.max_per_compaction
        ) + if self.passes > 1 { " passes2" } else { "" } + if self.split > 0 { " flush-between" } else { "" } + if self.read_fault > 0 { " corrupt-segment-read" } else { "" }
    }
}

/// `max_records_selected` value standing for "all segments below the target, target = 2 x the largest segment + 1"
const TIGHT: usize = usize::MAX;
/// "... target = the largest segment + 1": every segment is a candidate, the inputs of a pass together reach the target
const PAIR: usize = usize::MAX - 1;

fn compaction_config(c: &Cfg, layout: &Layout) -> CompactionConfig {
    let target = if c.max_records_selected == 0 {
        1 << 30
    } else if c.max_records_selected == TIGHT {
        // every segment is below the target, but only about two of them fit into it together
        let largest = layout.segments.iter().map(|s| segment_bytes(&s.iter().map(|u| u.delta()).collect::<Vec<_>>()).len()).max().unwrap_or(0);
        2 * largest + 1
    } else if c.max_records_selected == PAIR {
        layout.segments.iter().map(|s| segment_bytes(&s.iter().map(|u| u.delta()).collect::<Vec<_>>()).len()).max().unwrap_or(0) + 1
    } else {
        // between the size of the largest segment with < n records and the smallest with >= n records
        let mut below = 0usize;
        for s in &layout.segments {
            if s.len() < c.max_records_selected {
                below = below.max(segment_bytes(&s.iter().map(|u| u.delta()).collect::<Vec<_>>()).len());
            }
        }
        below + 1
    };
    CompactionConfig {
        target_segment_size: target,
        max_segments: 2,
        min_segments_to_compact: 2,
        max_segments_per_compaction: c.max_per_compaction,
        tombstone_ttl: Duration::from_millis(c.ttl_ms),
        compression_enabled: false,
    }
}

fn new_compactor(store: &VObjStore, cfg: &Cfg, layout: &Layout) -> Compactor<VObjStore, VerifTime> {
    let mm = ManifestManager::new(store.clone(), PREFIX);
    Compactor::with_time_source(Arc::new(store.clone()), PREFIX.to_string(), mm, compaction_config(cfg, layout), VerifTime::new(cfg.clock_ms))
}

fn run_compaction(c: &mut Compactor<VObjStore, VerifTime>) -> String {
    match std::panic::catch_unwind(std::panic::AssertUnwindSafe(|| block_on(c.compact()))) {
        Ok(Ok(r)) => format!("compacted {} segments, {} tombstones removed", r.segments_removed.len(), r.tombstones_removed),
        Ok(Err(e)) => format!("error: {e}"),
        Err(p) => format!("PANIC {}", vh::panic_text(&p)),
    }
}

/// Keys held by a segment object (read with the real SegmentReader) and the object's real size.
fn segment_facts(store: &VObjStore, key: &str) -> Option<(BTreeSet<String>, u64)> {
    let img = store.image_now();
    let bytes = img.get(key)?;
    let r = redis_sim::streaming::segment::SegmentReader::open(bytes).ok()?;
    let ds = r.read_all().ok()?;
    Some((ds.iter().map(|d| d.key.clone()).collect(), bytes.len() as u64))
}

#[allow(dead_code)]
fn kinds_of(layout: &Layout, key: &str) -> String {
    let mut k: Vec<&str> = layout.all_updates().iter().filter(|u| u.key_name() == key).map(|u| u.kind.name()).collect();
    k.sort();
    k.dedup();
    k.join("+")
}

/// One (layout, config) case. Err = (signature, detail).
fn check_case(layout: &Layout, cfg: &Cfg) -> Result<bool, (String, String)> {
    let store = if cfg.split > 0 { build_store_prefix(layout, cfg.split) } else { build_store(layout) };
    let mut compactor = new_compactor(&store, cfg, layout);
    let mut any = false;
    let mut history: Vec<String> = Vec::new();
    for pass in 0..cfg.passes.max(1) {
        if pass == 1 && cfg.split > 0 {
            for seg in layout.segments.iter().skip(cfg.split) {
                append_segment(&store, seg);
            }
            history.push(format!("{} segments flushed", layout.segments.len().saturating_sub(cfg.split)));
        }
        any |= check_pass(layout, cfg, &store, &mut compactor, pass, &mut history)?;
    }
    Ok(any)
}

/// One compact() call on the store in its current state: recovery before vs after.
fn check_pass(layout: &Layout, cfg: &Cfg, store: &VObjStore, compactor: &mut Compactor<VObjStore, VerifTime>, pass: usize, history: &mut Vec<String>) -> Result<bool, (String, String)> {
    let before = recover_fold(store).map_err(|e| (if pass == 0 { "harness: recovery of the initial layout failed".to_string() } else { "recovery-error-after-compaction pass2".to_string() }, e))?;
    let manifest_before = block_on(ManifestManager::new(store.clone(), PREFIX).load()).ok();
    // what every listed segment really holds and how large it really is (the manifest's own figures are what the
    // compactor selects by; the classification below must not take them on trust)
    let facts_before: std::collections::BTreeMap<u64, (BTreeSet<String>, u64)> = manifest_before
        .as_ref()
        .map(|m| m.segments.iter().filter_map(|s| segment_facts(store, &s.key).map(|f| (s.id, f))).collect())
        .unwrap_or_default();
    if pass == 0 && cfg.read_fault > 0 {
        store.corrupt_nth_get("segment", cfg.read_fault);
    }
    let log_before = store.log_len();
    let outcome = run_compaction(compactor);
    store.corrupt_nth_get("segment", 0);
    // the segment object (if any) whose read was corrupted in transit during this pass
    let unreadable: Option<String> = store.log().iter().skip(log_before).find(|o| o.fault == Some(vh::stores::ObjFault::CorruptRead)).map(|o| o.key.clone());
    history.push(if pass == 0 && cfg.read_fault > 0 { format!("{outcome} (read #{} of a segment object was corrupted in transit)", cfg.read_fault) } else { outcome.clone() });
    let manifest_after = block_on(ManifestManager::new(store.clone(), PREFIX).load()).ok();
    // Why was the container that holds an older update of `key` not part of the compaction? (for the tombstone
    // clause of the property: the known defect is a tombstone dropped although an older value survives in a
    // checkpoint, in a segment at or above the size target, or in a segment beyond the per-run maximum; a segment
    // that is below the target and within the maximum and is skipped anyway is something else)
    let outside_of = |key: &str| -> String {
        let (Some(mb), Some(ma)) = (&manifest_before, &manifest_after) else { return "outside=unknown".into() };
        let target = compaction_config(cfg, layout).target_segment_size as u64;
        let kept: BTreeSet<u64> = ma.segments.iter().map(|s| s.id).collect();
        let mut classes: BTreeSet<&'static str> = BTreeSet::new();
        if layout.checkpoint.as_ref().map(|c| c.iter().any(|u| u.key_name() == key)).unwrap_or(false) {
            classes.insert("checkpoint");
        }
        let mut small_rank = 0usize;
        for seg in &mb.segments {
            let (keys, real_size) = match facts_before.get(&seg.id) {
                Some(f) => (Some(&f.0), f.1),
                None => (None, seg.size_bytes),
            };
            let small = real_size < target;
            let rank = small_rank;
            if small {
                small_rank += 1;
            }
            let holds = keys.map(|k| k.contains(key)).unwrap_or(false);
            if !holds || !kept.contains(&seg.id) {
                continue; // not about this key, or it was compacted
            }
            classes.insert(if unreadable.as_deref() == Some(seg.key.as_str()) {
                // left out of this pass because its bytes arrived damaged: not a selection matter
                "segment-unreadable-in-this-pass"
            } else if !small {
                "oversize-segment"
            } else if rank >= cfg.max_per_compaction {
                "segment-beyond-max-count"
            } else {
                "eligible-segment-skipped"
            });
        }
        if classes.is_empty() {
            "outside=nothing".into()
        } else {
            format!("outside={}", classes.into_iter().collect::<Vec<_>>().join("+"))
        }
    };
    let ctx = || format!("layout {} ; config {} ; compaction: {}", layout.show(), cfg.label(), history.join(" ; then "));
    if outcome.starts_with("PANIC") {
        return Err((format!("compaction-panic {}", cfg.label()), ctx()));
    }
    let after = match recover_fold(store) {
        Ok(f) => f,
        Err(e) => return Err((format!("recovery-error-after-compaction cp={}", layout.checkpoint.is_some()), format!("{e}; {}", ctx()))),
    };
    let (pb, pa) = (projection(&before), projection(&after));
    let compacted = outcome.starts_with("compacted");
    let cutoff = cfg.clock_ms.saturating_sub(cfg.ttl_ms);
    let keys: BTreeSet<&String> = pb.keys().chain(pa.keys()).collect();
    for k in keys {
        let (b, a) = (pb.get(k), pa.get(k));
        if b == a {
            continue;
        }
        let cp = if layout.checkpoint.is_some() { "cp" } else { "nocp" };
        let sel = if cfg.max_records_selected == 0 && cfg.max_per_compaction >= 10 { "all-selected" } else { "partial-selection" };
        let bv = before.get(k);
        let was_tomb = bv.map(|v| v.is_tombstone()).unwrap_or(false);
        let tomb_time = bv.and_then(|v| v.lww()).map(|l| l.timestamp.time).unwrap_or(0);
        // mechanism classes (value independent)
        let ups: Vec<Upd> = layout.all_updates().into_iter().filter(|u| &u.key_name() == k).collect();
        let tmax = ups.iter().map(|u| u.time).max().unwrap_or(0);
        let tie = ups.iter().filter(|u| u.time == tmax).count() >= 2;
        let hash = ups.iter().any(|u| matches!(u.kind, Kind::HashF | Kind::HashG | Kind::HashDelF));
        let dropped = outcome.contains(" tombstones removed") && !outcome.contains(" 0 tombstones removed");
        let cause = if was_tomb && dropped && a.map(|x| !x.starts_with("lww:DEL")).unwrap_or(true) {
            "tombstone-dropped"
        } else if tie {
            "equal-times"
        } else if hash {
            "hash-deltas"
        } else {
            "other"
        };
        let view_b = bv.map(client_view).unwrap_or_else(|| "absent".into());
        let view_a = after.get(k.as_str()).map(client_view).unwrap_or_else(|| "absent".into());
        if was_tomb && dropped && view_a == "absent" && tomb_time < cutoff {
            // the tombstone was older than the TTL and was dropped; what is left is nothing or an even
            // older tombstone - no older VALUE resurfaced, which is what the property permits
            continue;
        }
        if was_tomb && a.is_none() {
            // the tombstone disappeared and nothing resurfaced: allowed iff older than the TTL
            if tomb_time < cutoff {
                continue;
            }
            return Err((
                format!("tombstone-dropped-before-ttl {}", cfg.label()),
                format!("key {k}: tombstone stamped {tomb_time} is not older than now-ttl = {cutoff}, yet it disappeared; {}", ctx()),
            ));
        }
        if view_b == "absent" && view_a != "absent" {
            return Err((
                format!("deleted-key-resurrected cause={cause} {cp} {sel} {}", outside_of(k)),
                format!("key {k}: recovery before compaction = {} (client reads nothing), after = {} (client reads {view_a}); {}", b.map(|s| s.as_str()).unwrap_or("-"), a.map(|s| s.as_str()).unwrap_or("-"), ctx()),
            ));
        }
        let class = if view_a != view_b { "client-visible-state-changed" } else { "stamps-changed" };
        return Err((
            format!("{class} cause={cause}"),
            format!("key {k}: recovery before compaction = {:?} (client reads {view_b}), after = {:?} (client reads {view_a}); {}", b, a, ctx()),
        ));
    }
    Ok(compacted)
}

fn universe(thorough: bool) -> Vec<Upd> {
    let mut u = Vec::new();
    let times: &[u64] = if thorough { &[1, 2, 3] } else { &[1, 2, 3] };
    for kind in Kind::ALL {
        for &time in times {
            for replica in [1u64, 2] {
                u.push(Upd { key: 1, kind, time, replica });
            }
        }
    }
    u.push(Upd { key: 2, kind: Kind::SetA, time: 1, replica: 1 });
    u.push(Upd { key: 2, kind: Kind::SetB, time: 2, replica: 2 });
    u
}

fn subsets(u: &[Upd], k: usize) -> Vec<Vec<Upd>> {
    fn rec(u: &[Upd], k: usize, start: usize, cur: &mut Vec<Upd>, out: &mut Vec<Vec<Upd>>) {
        if cur.len() == k {
            out.push(cur.clone());
            return;
        }
        for i in start..u.len() {
            cur.push(u[i]);
            rec(u, k, i + 1, cur, out);
            cur.pop();
        }
    }
    let mut out = Vec::new();
    rec(u, k, 0, &mut Vec::new(), &mut out);
    out
}

/// All ways to place the updates into >= 2 ordered non-empty segments (optionally one update in a checkpoint).
fn layouts_of(set: &[Upd]) -> Vec<Layout> {
    fn ordered_partitions(items: &[Upd]) -> Vec<Vec<Vec<Upd>>> {
        // assign each item a segment index; keep assignments whose used indices are 0..m with m>=2, every index non-empty
        let n = items.len();
        let mut out = Vec::new();
        let mut assign = vec![0usize; n];
        loop {
            let m = assign.iter().max().map(|x| x + 1).unwrap_or(0);
            if m >= 2 && (0..m).all(|i| assign.contains(&i)) {
                let mut segs = vec![Vec::new(); m];
                for (it, a) in items.iter().zip(&assign) {
                    segs[*a].push(*it);
                }
                out.push(segs);
            }
            // next assignment in base n
            let mut i = 0;
            loop {
                if i == n {
                    return out;
                }
                assign[i] += 1;
                if assign[i] < n {
                    break;
                }
                assign[i] = 0;
                i += 1;
            }
        }
    }
    let mut out = Vec::new();
    for segs in ordered_partitions(set) {
        out.push(Layout { checkpoint: None, segments: segs });
    }
    if set.len() >= 3 {
        for i in 0..set.len() {
            let mut rest = set.to_vec();
            let cp = rest.remove(i);
            for segs in ordered_partitions(&rest) {
                out.push(Layout { checkpoint: Some(vec![cp]), segments: segs });
            }
        }
    }
    out
}

// ---------------------------------------------------------------------------------------------
// (b) compaction || flush
// ---------------------------------------------------------------------------------------------

struct Race {
    /// for a failed recovery / lost flush: which object is missing or unlisted, and whose it was
    cause: String,
    fold_after: Result<Fold, String>,
    flush_ok: bool,
    compact_outcome: String,
    ops: Vec<String>,
}

fn race_once(layout: &Layout, flushed: &[Upd], ch: &mut Chooser) -> Race {
    polex::with_runtime(|rt| {
        rt.block_on(async {
            let store = build_store(layout);
            let cfgw = WriteBufferConfig { flush_interval: Duration::from_secs(3600), max_size_bytes: 1 << 20, max_deltas: 1000, backpressure_threshold_bytes: 1 << 24, compression_enabled: false };
            let mut p = StreamingPersistence::with_clock(Arc::new(store.clone()), PREFIX.to_string(), 1, cfgw, SimulatedClock::new(1_000)).await.expect("persistence");
            for u in flushed {
                p.push(u.delta()).unwrap();
            }
            store.clear_log();
            store.set_yield(true);
            let mm = ManifestManager::new(store.clone(), PREFIX);
            let ccfg = CompactionConfig { target_segment_size: 1 << 30, max_segments: 2, min_segments_to_compact: 2, max_segments_per_compaction: 10, tombstone_ttl: Duration::from_millis(HOUR_MS), compression_enabled: false };
            let mut c = Compactor::with_time_source(Arc::new(store.clone()), PREFIX.to_string(), mm, ccfg, VerifTime::new(0));
            let flush_res = std::rc::Rc::new(std::cell::RefCell::new(None));
            let comp_res = std::rc::Rc::new(std::cell::RefCell::new(String::new()));
            let mut sched = Sched::new();
            let (fr, cr) = (flush_res.clone(), comp_res.clone());
            sched.add("flush", Box::pin(async move { *fr.borrow_mut() = Some(p.flush().await.is_ok()); }), false);
            sched.add(
                "compact",
                Box::pin(async move {
                    *cr.borrow_mut() = match c.compact().await {
                        Ok(r) => format!("compacted {} segments", r.segments_removed.len()),
                        Err(e) => format!("error: {e}"),
                    };
                }),
                false,
            );
            let r = sched.run_to_completion(ch, 10_000).await;
            store.set_yield(false);
            let ops: Vec<String> = store.log().iter().map(|o| format!("{}:{} {}{}", o.actor, o.kind, o.key.rsplit('/').next().unwrap_or(""), if o.ok { "" } else { "!" })).collect();
            let fold_after = match r {
                Err(e) => Err(format!("stuck: {e}")),
                Ok(()) => recover_fold(&store),
            };
            let flush_ok = flush_res.borrow().unwrap_or(false);
            let compact_outcome = comp_res.borrow().clone();
            // cause: what does the final manifest reference that is not in the store, and whose object was it?
            let cause = {
                let img = store.image_now();
                let initial: BTreeSet<String> = build_store(layout).image_now().keys().cloned().collect();
                let flushed_keys: BTreeSet<String> = flushed.iter().map(|u| u.key_name()).collect();
                let owner_of = |key: &str| -> &'static str {
                    if initial.contains(key) {
                        return "compaction-input";
                    }
                    // the last put of that key: a segment holding only flushed keys is the flush's output
                    match store.log().iter().rev().find(|o| o.kind == "put" && o.key == key) {
                        Some(o) => match redis_sim::streaming::segment::SegmentReader::open(&o.put_bytes).ok().and_then(|r| r.read_all().ok()) {
                            Some(ds) if !ds.is_empty() && ds.iter().all(|d| flushed_keys.contains(&d.key)) => "flush-output",
                            Some(_) => "compaction-output",
                            None => "unreadable-put",
                        },
                        None => "never-written",
                    }
                };
                match block_on(ManifestManager::new(store.clone(), PREFIX).load()) {
                    Err(_) => "manifest-unreadable".to_string(),
                    Ok(m) => {
                        let mut missing: BTreeSet<&'static str> = BTreeSet::new();
                        for sref in &m.segments {
                            if !img.contains_key(&sref.key) {
                                missing.insert(owner_of(&sref.key));
                            }
                        }
                        // objects in the store that hold flushed keys but are not listed
                        let listed: BTreeSet<&String> = m.segments.iter().map(|s| &s.key).collect();
                        let unlisted_flush = img.keys().any(|k| k.contains("segment") && !listed.contains(k) && owner_of(k) == "flush-output");
                        if !missing.is_empty() {
                            format!("missing={}", missing.into_iter().collect::<Vec<_>>().join("+"))
                        } else if unlisted_flush {
                            "flush-output-not-listed".to_string()
                        } else {
                            "other".to_string()
                        }
                    }
                }
            };
            Race { cause, fold_after, flush_ok, compact_outcome, ops }
        })
    })
}

/// (b') the compaction worker's wake-ups (`compact_if_needed`, three in a row, at most two inputs per pass, so that a
/// backlog of four segments takes several passes) against one flush. Returns the race and whether the whole flush ran
/// as one block AFTER a pass had published its manifest and before the compactor touched the manifest again -
/// a flush that overlaps no pass at all, which no pass may undo.
fn passes_race_once(layout: &Layout, flushed: &[Upd], ch: &mut Chooser) -> (Race, bool) {
    use vh::stores::Tagged;
    polex::with_runtime(|rt| {
        rt.block_on(async {
            let store = build_store(layout);
            let (fs, cs) = (Tagged(store.clone(), "F"), Tagged(store.clone(), "C"));
            let cfgw = WriteBufferConfig { flush_interval: Duration::from_secs(3600), max_size_bytes: 1 << 20, max_deltas: 1000, backpressure_threshold_bytes: 1 << 24, compression_enabled: false };
            let mut p = StreamingPersistence::with_clock(Arc::new(fs), PREFIX.to_string(), 1, cfgw, SimulatedClock::new(1_000)).await.expect("persistence");
            for u in flushed {
                p.push(u.delta()).unwrap();
            }
            store.clear_log();
            store.set_yield(true);
            let mm = ManifestManager::new(cs.clone(), PREFIX);
            let ccfg = CompactionConfig { target_segment_size: 1 << 30, max_segments: 2, min_segments_to_compact: 2, max_segments_per_compaction: 2, tombstone_ttl: Duration::from_millis(HOUR_MS), compression_enabled: false };
            let mut c = Compactor::with_time_source(Arc::new(cs), PREFIX.to_string(), mm, ccfg, VerifTime::new(0));
            let flush_res = std::rc::Rc::new(std::cell::RefCell::new(None));
            let comp_res = std::rc::Rc::new(std::cell::RefCell::new(String::new()));
            let mut sched = Sched::new();
            let (fr, cr) = (flush_res.clone(), comp_res.clone());
            sched.add("flush", Box::pin(async move { *fr.borrow_mut() = Some(p.flush().await.is_ok()); }), false);
            sched.add(
                "compact",
                Box::pin(async move {
                    let mut out = Vec::new();
                    for _ in 0..3 {
                        out.push(match c.compact_if_needed().await {
                            Ok(Some(r)) => format!("compacted {}", r.segments_removed.len()),
                            Ok(None) => "idle".to_string(),
                            Err(e) => format!("error: {e}"),
                        });
                    }
                    *cr.borrow_mut() = out.join(", ");
                }),
                false,
            );
            let r = sched.run_to_completion(ch, 10_000).await;
            store.set_yield(false);
            let log = store.log();
            let ops: Vec<String> = log.iter().map(|o| format!("{}:{} {}{}", o.actor, o.kind, o.key.rsplit('/').next().unwrap_or(""), if o.ok { "" } else { "!" })).collect();
            let f_idx: Vec<usize> = log.iter().enumerate().filter(|(_, o)| o.actor == "F").map(|(i, _)| i).collect();
            let contiguous = !f_idx.is_empty() && f_idx.last().unwrap() - f_idx[0] + 1 == f_idx.len();
            let after_publish = f_idx.first().map_or(false, |first| {
                log[..*first].iter().rev().find(|o| o.actor == "C" && o.key.contains("manifest")).map_or(false, |o| o.kind == "rename" && o.ok)
            });
            let fold_after = match r {
                Err(e) => Err(format!("stuck: {e}")),
                Ok(()) => recover_fold(&store),
            };
            let flush_ok = flush_res.borrow().unwrap_or(false);
            let compact_outcome = comp_res.borrow().clone();
            (Race { cause: String::new(), fold_after, flush_ok, compact_outcome, ops }, contiguous && after_publish)
        })
    })
}

fn main() {
    let args = cli::parse_args();
    vh::quiet_panics();
    let thorough = args.tier == Tier::Thorough;
    let uni = universe(thorough);
    let parse_layout = |v: &serde_json::Value| -> Layout {
        let pu = |x: &serde_json::Value| -> Upd {
            Upd { key: x[0].as_u64().unwrap() as u8, kind: Kind::ALL[x[1].as_u64().unwrap() as usize], time: x[2].as_u64().unwrap(), replica: x[3].as_u64().unwrap() }
        };
        Layout {
            checkpoint: if v["checkpoint"].is_null() { None } else { Some(v["checkpoint"].as_array().unwrap().iter().map(pu).collect()) },
            segments: v["segments"].as_array().unwrap().iter().map(|s| s.as_array().unwrap().iter().map(pu).collect()).collect(),
        }
    };
    let layout_json = |l: &Layout| -> serde_json::Value {
        let ju = |u: &Upd| json!([u.key, Kind::ALL.iter().position(|k| *k == u.kind).unwrap(), u.time, u.replica]);
        json!({"checkpoint": l.checkpoint.as_ref().map(|c| c.iter().map(ju).collect::<Vec<_>>()), "segments": l.segments.iter().map(|s| s.iter().map(ju).collect::<Vec<_>>()).collect::<Vec<_>>(), "shown": l.show()})
    };
    if let Some(path) = &args.replay {
        let r = vh::report::load_replay(path);
        let layout = parse_layout(&r["layout"]);
        if r["race"] == json!(true) {
            let flushed: Vec<Upd> = parse_layout(&json!({"checkpoint": null, "segments": [r["flushed"].clone()]})).segments[0].clone();
            let schedule: Vec<u32> = r["schedule"].as_array().unwrap().iter().map(|x| x.as_u64().unwrap() as u32).collect();
            if r["passes"] == json!(true) {
                let (race, between) = passes_race_once(&layout, &flushed, &mut polex::replay_prefix(&schedule));
                println!("store ops: {:?}", race.ops);
                println!("flush ok={} compaction wake-ups: {} ; flush ran between passes: {between}", race.flush_ok, race.compact_outcome);
                println!("recovered after: {:?}", race.fold_after.as_ref().map(projection));
                println!("(re-run ./check C13 to judge; replay prints the execution)");
                std::process::exit(0);
            }
            let race = race_once(&layout, &flushed, &mut polex::replay_prefix(&schedule));
            println!("store ops: {:?}", race.ops);
            println!("flush ok={} compaction: {}", race.flush_ok, race.compact_outcome);
            println!("recovered after: {:?}", race.fold_after.as_ref().map(projection));
            println!("(re-run ./check C13 to judge; replay prints the execution)");
            std::process::exit(0);
        }
        let cfg = Cfg {
            clock_ms: r["cfg"]["clock_ms"].as_u64().unwrap(),
            ttl_ms: r["cfg"]["ttl_ms"].as_u64().unwrap(),
            max_records_selected: r["cfg"]["max_records_selected"].as_u64().unwrap() as usize,
            max_per_compaction: r["cfg"]["max_per_compaction"].as_u64().unwrap() as usize,
            passes: r["cfg"]["passes"].as_u64().unwrap_or(1) as usize,
            split: r["cfg"]["split"].as_u64().unwrap_or(0) as usize,
            read_fault: r["cfg"]["read_fault"].as_u64().unwrap_or(0) as usize,
        };
        match check_case(&layout, &cfg) {
            Ok(_) => {
                println!("replay: no violation");
                std::process::exit(0);
            }
            Err((sig, detail)) => {
                println!("{detail}");
                println!("VIOLATION property=C13 replay={} ({sig})", path.display());
                std::process::exit(1);
            }
        }
    }
    let rep = Reporter::new("C13", "exploration", &args);
    let _gag = vh::StderrGag::new();

    // ---------------- (a) layouts ----------------
    let mut sets: Vec<Vec<Upd>> = Vec::new();
    sets.extend(subsets(&uni, 2));
    sets.extend(subsets(&uni, 3));
    if thorough {
        // size 4 over a reduced universe (key 1, replica 1+2, times 1..3, kinds set-a/del/hset-f) + key 2
        let red: Vec<Upd> = uni.iter().copied().filter(|u| u.key == 2 || matches!(u.kind, Kind::SetA | Kind::Tomb | Kind::HashF | Kind::HashDelF)).collect();
        sets.extend(subsets(&red, 4));
    }
    // size 4 (thorough: 5) over a tiny universe, so that every tier has layouts with >= 3 segments of unequal
    // sizes (a segment that is NOT selected lying between two selected ones, selections cut by the per-run maximum)
    let tiny: Vec<Upd> = uni.iter().copied().filter(|u| u.key == 2 || (u.replica == 1 && matches!(u.kind, Kind::SetA | Kind::Tomb))).collect();
    sets.extend(subsets(&tiny, 4));
    if thorough {
        sets.extend(subsets(&tiny, 5));
        // and every set of 4 over the key-1 part of the full universe restricted to times 1..2 (20 updates)
        let mid: Vec<Upd> = uni.iter().copied().filter(|u| u.key == 1 && u.time <= 2).collect();
        sets.extend(subsets(&mid, 4));
    }
    sets.sort();
    sets.dedup();
    sets.retain(|s| jointly_producible(s));
    let usable: Vec<Vec<Upd>> = par::par_map(&sets, |_, s| order_independent_fold(s).map(|_| s.clone())).into_iter().flatten().collect();
    let order_dependent = sets.len() - usable.len();
    let cfgs: Vec<Cfg> = {
        let mut v = Vec::new();
        for (clock_ms, ttl_ms) in [(0, HOUR_MS), (HOUR_MS - 1, HOUR_MS), (HOUR_MS + 10, HOUR_MS), (EPOCH_MS, HOUR_MS), (0, 0), (EPOCH_MS, 0)] {
            for (max_records_selected, max_per_compaction) in [(0usize, 10usize), (2, 10), (0, 2), (TIGHT, 10)] {
                v.push(Cfg { clock_ms, ttl_ms, max_records_selected, max_per_compaction, passes: 1, split: 0, read_fault: 0 });
            }
        }
        // a transient read corruption of the n-th segment the pass reads (the object itself is intact): whatever the pass
        // does with a segment it could not decode, recovery must return the same state afterwards
        for (max_records_selected, max_per_compaction) in [(0usize, 10usize), (0, 2)] {
            for read_fault in 1..=3usize {
                v.push(Cfg { clock_ms: HOUR_MS + 10, ttl_ms: HOUR_MS, max_records_selected, max_per_compaction, passes: 1, split: 0, read_fault });
            }
        }
        // two consecutive passes of one Compactor (what the first pass leaves behind - its output segment and that
        // segment's manifest entry - is the input of the second)
        for (clock_ms, ttl_ms) in [(HOUR_MS + 10, HOUR_MS), (EPOCH_MS, HOUR_MS), (EPOCH_MS, 0)] {
            for (max_records_selected, max_per_compaction) in [(PAIR, 2usize), (0usize, 2), (TIGHT, 10)] {
                v.push(Cfg { clock_ms, ttl_ms, max_records_selected, max_per_compaction, passes: 2, split: 0, read_fault: 0 });
                // flushes between the passes: the first 2 (3) segments before the first pass, the others after it
                v.push(Cfg { clock_ms, ttl_ms, max_records_selected, max_per_compaction, passes: 2, split: 2, read_fault: 0 });
                v.push(Cfg { clock_ms, ttl_ms, max_records_selected, max_per_compaction, passes: 2, split: 3, read_fault: 0 });
            }
        }
        v
    };
    let cases = AtomicU64::new(0);
    let compacted = AtomicU64::new(0);
    let layouts_n = AtomicU64::new(0);
    let two_pass_skipped = AtomicU64::new(0);
    par::par_map(&usable, |_, set| {
        // Two passes merge SUBSETS of the updates first (the first pass sees a prefix of the layout, the second merges
        // its output with others): the ground truth is only usable if every subset of the key's updates has an
        // order-independent merge too - otherwise the case belongs to C07 (type-changing histories), not to compaction.
        let hereditary = (1u32..(1 << set.len())).filter(|m| m.count_ones() >= 2).all(|m| {
            let sub: Vec<Upd> = set.iter().enumerate().filter(|(i, _)| m & (1 << i) != 0).map(|(_, u)| *u).collect();
            order_independent_fold(&sub).is_some()
        });
        for layout in layouts_of(set) {
            layouts_n.fetch_add(1, Ordering::Relaxed);
            for cfg in &cfgs {
                if cfg.split > 0 && layout.segments.len() <= cfg.split {
                    continue; // nothing left to flush between the passes
                }
                if cfg.passes > 1 && !hereditary {
                    two_pass_skipped.fetch_add(1, Ordering::Relaxed);
                    continue;
                }
                cases.fetch_add(1, Ordering::Relaxed);
                match check_case(&layout, cfg) {
                    Ok(c) => {
                        if c {
                            compacted.fetch_add(1, Ordering::Relaxed);
                        }
                    }
                    Err((sig, detail)) => rep.violation(
                        sig,
                        detail,
                        json!({"layout": layout_json(&layout), "cfg": {"clock_ms": cfg.clock_ms, "ttl_ms": cfg.ttl_ms, "max_records_selected": cfg.max_records_selected, "max_per_compaction": cfg.max_per_compaction, "passes": cfg.passes, "split": cfg.split, "read_fault": cfg.read_fault}}),
                    ),
                }
            }
        }
    });

    // ---------------- (a') a segment damaged AT REST, then compaction ----------------
    // One bit of one stored segment object is flipped (every byte position of the first segment, lowest bit) before
    // compact() runs over it. Damage must stay detectable: if recovery reported it before the compaction, recovery after
    // the compaction must report it too, or return exactly the undamaged state - never another state.
    let rest_layouts: Vec<Layout> = usable.iter().flat_map(|set| layouts_of(set).into_iter().filter(|l| l.segments.len() >= 2).take(1)).take(if thorough { 1500 } else { 250 }).collect();
    let rest_cases = AtomicU64::new(0);
    let rest_detected = AtomicU64::new(0);
    par::par_map(&rest_layouts, |_, layout| {
        let clean = match recover_fold(&build_store(layout)) {
            Ok(f) => projection(&f),
            Err(_) => return,
        };
        let cfg = Cfg { clock_ms: 0, ttl_ms: HOUR_MS, max_records_selected: 0, max_per_compaction: 10, passes: 1, split: 0, read_fault: 0 };
        let first_key = format!("{PREFIX}/segments/segment-{:08}.seg", if layout.checkpoint.is_some() { 1 } else { 0 });
        let len = build_store(layout).image_now().get(&first_key).map(|b| b.len()).unwrap_or(0);
        for pos in 0..len {
            let store = build_store(layout);
            let mut img = store.image_now();
            if let Some(b) = img.get_mut(&first_key) {
                b[pos] ^= 1;
            }
            let store = VObjStore::from_image(&img);
            rest_cases.fetch_add(1, Ordering::Relaxed);
            let before = recover_fold(&store).map(|f| projection(&f));
            let mut c = new_compactor(&store, &cfg, layout);
            let outcome = run_compaction(&mut c);
            let after = recover_fold(&store).map(|f| projection(&f));
            if before.is_err() {
                rest_detected.fetch_add(1, Ordering::Relaxed);
            }
            let bad = match (&before, &after) {
                (_, Ok(a)) if *a == clean => false,
                (Err(_), Err(_)) => false,
                (Ok(b), Ok(a)) if a == b => false, // undetectable both times (a don't-care byte)
                (Ok(_), Err(_)) => false,
                _ => true,
            };
            if bad || outcome.starts_with("PANIC") {
                rep.violation(
                    if outcome.starts_with("PANIC") { "damaged-at-rest: compaction-panic".to_string() } else { "damaged-at-rest: compaction turned detectable damage into different data".to_string() },
                    format!("layout {} ; bit 0 of byte {pos} of {first_key} flipped in the store ; recovery before compaction: {:?} ; compaction: {outcome} ; recovery after: {:?} ; the undamaged layout recovers to {:?}", layout.show(), before, after, clean),
                    json!({"damaged_at_rest": true, "layout": layout_json(layout), "pos": pos}),
                );
                break;
            }
        }
    });

    // ---------------- (b) compaction || flush ----------------
    let k = |key: u8, kind: Kind, time: u64| Upd { key, kind, time, replica: 1 };
    let race_layouts: Vec<(Layout, Vec<Upd>)> = {
        let mut v = vec![
            (Layout { checkpoint: None, segments: vec![vec![k(1, Kind::SetA, 1)], vec![k(2, Kind::SetA, 2)]] }, vec![k(3, Kind::SetA, 3)]),
            (Layout { checkpoint: None, segments: vec![vec![k(1, Kind::SetA, 1)], vec![k(1, Kind::SetB, 2)]] }, vec![k(1, Kind::Tomb, 3)]),
        ];
        if thorough {
            v.push((Layout { checkpoint: None, segments: vec![vec![k(1, Kind::SetA, 1)], vec![k(2, Kind::SetA, 2)], vec![k(4, Kind::SetA, 4)]] }, vec![k(3, Kind::SetA, 5), k(1, Kind::SetB, 6)]));
            v.push((Layout { checkpoint: Some(vec![k(5, Kind::SetA, 1)]), segments: vec![vec![k(1, Kind::SetA, 2)], vec![k(2, Kind::SetA, 3)]] }, vec![k(3, Kind::SetA, 4)]));
        }
        v
    };
    let mut race_execs = 0u64;
    let mut race_outcomes: BTreeSet<String> = BTreeSet::new();
    let mut race_exhaustive = true;
    for (layout, flushed) in &race_layouts {
        let before = recover_fold(&build_store(layout)).expect("initial layout recovers");
        let mut expected_with_flush = before.clone();
        for u in flushed {
            fold_into(&mut expected_with_flush, &u.delta());
        }
        let cfg = DfsConfig { deadline: Some(std::time::Instant::now() + Duration::from_secs(if thorough { 300 } else { 20 })), ..Default::default() };
        let stats = polex::explore(&cfg, |ch| {
            let race = race_once(layout, flushed, ch);
            let replay = json!({"race": true, "layout": layout_json(layout), "flushed": layout_json(&Layout { checkpoint: None, segments: vec![flushed.clone()] })["segments"][0], "schedule": ch.schedule()});
            let ctx = format!("layout {} ; concurrent flush of [{}] ; store ops in order: {:?} ; flush ok={} ; compaction: {}", layout.show(), flushed.iter().map(|u| u.show()).collect::<Vec<_>>().join(" "), race.ops, race.flush_ok, race.compact_outcome);
            match &race.fold_after {
                // the listed finding of this name is the one whose missing object is an INPUT of the compaction (the flush's
                // manifest snapshot still lists it); anything else that is missing keeps its own name
                Err(e) => rep.violation(if race.cause == "missing=compaction-input" { "race: recovery-error-after-compaction||flush".to_string() } else { format!("race: recovery-error-after-compaction||flush {}", race.cause) }, format!("{e}; cause {}; {ctx}", race.cause), replay),
                Ok(f) => {
                    let want = if race.flush_ok { &expected_with_flush } else { &before };
                    let (pw, pf) = (projection(want), projection(f));
                    race_outcomes.insert(format!("{:?}|{}|{}", pf, race.flush_ok, race.compact_outcome));
                    // a failed flush may or may not have left its segment published; only loss is a violation
                    let lost: Vec<&String> = pw.keys().filter(|key| pf.get(*key) != pw.get(*key)).collect();
                    if !lost.is_empty() && race.flush_ok {
                        let flushed_keys: BTreeSet<String> = flushed.iter().map(|u| u.key_name()).collect();
                        let kind = if lost.iter().all(|l| flushed_keys.contains(*l)) { "confirmed-flush-lost" } else { "compacted-data-lost" };
                        // listed: the flush's segment exists but compaction's manifest (derived from its initial snapshot)
                        // does not list it / both allocated the same id and one object overwrote the other
                        let refined = match (kind, race.cause.as_str()) {
                            ("confirmed-flush-lost", "flush-output-not-listed") | ("confirmed-flush-lost", "other") | ("compacted-data-lost", _) => format!("race: {kind}"),
                            (k, c) => format!("race: {k} {c}"),
                        };
                        rep.violation(refined, format!("keys {:?}: expected {:?} recovered {:?}; cause {}; {ctx}", lost, pw, pf, race.cause), replay);
                    } else if !race.flush_ok {
                        let pb = projection(&before);
                        let lost_old: Vec<&String> = pb.keys().filter(|key| !flushed.iter().any(|u| &u.key_name() == *key) && pf.get(*key) != pb.get(*key)).collect();
                        if !lost_old.is_empty() {
                            rep.violation("race: compacted-data-lost", format!("keys {:?}: expected at least {:?} recovered {:?}; {ctx}", lost_old, pb, pf), replay);
                        }
                    }
                }
            }
            true
        });
        race_execs += stats.executions;
        if stats.truncated {
            race_exhaustive = false;
        }
    }

    // ---------------- (b') the worker's wake-ups over a backlog || one flush ----------------
    let mut passes_execs = 0u64;
    let mut passes_between = 0u64;
    let mut passes_exhaustive = true;
    {
        let layout = Layout { checkpoint: None, segments: vec![vec![k(1, Kind::SetA, 1)], vec![k(2, Kind::SetA, 2)], vec![k(4, Kind::SetA, 3)], vec![k(5, Kind::SetA, 4)]] };
        let flushed = vec![k(3, Kind::SetA, 9)];
        let before = recover_fold(&build_store(&layout)).expect("initial layout recovers");
        let mut expected = before.clone();
        for u in &flushed {
            fold_into(&mut expected, &u.delta());
        }
        let b = if thorough { 3 } else { 2 };
        let cfg = DfsConfig { budgets: [b, b, u32::MAX, u32::MAX], deadline: Some(std::time::Instant::now() + Duration::from_secs(if thorough { 300 } else { 20 })), ..Default::default() };
        let stats = polex::explore(&cfg, |ch| {
            let (race, between) = passes_race_once(&layout, &flushed, ch);
            if !between {
                return true; // a flush that overlaps a pass: part (b) and its listed findings
            }
            passes_between += 1;
            let replay = json!({"race": true, "passes": true, "layout": layout_json(&layout), "flushed": layout_json(&Layout { checkpoint: None, segments: vec![flushed.clone()] })["segments"][0], "schedule": ch.schedule()});
            let ctx = format!("layout {} ; three compact_if_needed() wake-ups (max 2 inputs per pass) ; one flush of [{}] that ran as one block after a pass had published its manifest ; store ops in order: {:?} ; flush ok={} ; wake-ups: {}", layout.show(), flushed.iter().map(|u| u.show()).collect::<Vec<_>>().join(" "), race.ops, race.flush_ok, race.compact_outcome);
            match &race.fold_after {
                Err(e) => rep.violation("race: flush-between-compaction-passes recovery-error".to_string(), format!("{e}; {ctx}"), replay),
                Ok(f) => {
                    if race.flush_ok && projection(f) != projection(&expected) {
                        rep.violation("race: flush-between-compaction-passes data-lost".to_string(), format!("expected {:?} recovered {:?}; {ctx}", projection(&expected), projection(f)), replay);
                    }
                }
            }
            true
        });
        passes_execs = stats.executions;
        if stats.truncated {
            passes_exhaustive = false;
        }
    }

    let coverage = json!({
        "worker_wakeups_vs_flush": {"executions": passes_execs, "executions_with_the_flush_between_passes": passes_between, "exhaustive_within_bound": passes_exhaustive,
            "rule": "four single-record segments, max_segments 2, at most 2 inputs per pass; three compact_if_needed() calls in a row against one flush, every interleaving of their store operations with at most 2 (thorough 3) preemptions and delays; judged: the executions in which the whole flush ran after a pass had published its manifest and before the compactor read or wrote the manifest again - recovery afterwards must hold the four keys and the flushed one"},
        "evaluations": cases.load(Ordering::Relaxed) + race_execs + passes_execs,
        "distinct_nontrivial": compacted.load(Ordering::Relaxed) + race_outcomes.len() as u64,
        "rule": "(a) every set of 2-3 updates, plus every set of 4 (thorough: 5) over a tiny universe (k1: {SET a, DEL} x time 1..3 x replica 1; two updates of k2) (thorough: also 4 over a reduced universe and 4 over all key-1 updates with times 1..2) from a universe of 38 updates (key k1: {SET a, SET b, DEL, HSET f, HSET g, HDEL f} x logical time 1..3 x replica 1..2; two updates of k2) whose merge is order-independent, placed in every way into >=2 ordered segments (optionally one update in a checkpoint), x 24 configurations (clock in {0, ttl-1, ttl+10, production epoch} x ttl in {1h, 0}; all segments selected / only single-record segments / at most 2 per compaction): recovered state before vs after one real compact(); a case is non-trivial when compaction actually rewrote segments; (b) every interleaving of the store operations of compact() and a concurrent flush() for the listed layouts",
        "update_sets_considered": sets.len(),
        "update_sets_with_order_dependent_merge_excluded": order_dependent,
        "layouts": layouts_n.load(Ordering::Relaxed),
        "two_pass_cases_skipped_because_a_subset_of_the_updates_merges_order_dependently": two_pass_skipped.load(Ordering::Relaxed),
        "layout_config_cases": cases.load(Ordering::Relaxed),
        "cases_where_compaction_rewrote_segments": compacted.load(Ordering::Relaxed),
        "damaged_at_rest_cases": rest_cases.load(Ordering::Relaxed),
        "damaged_at_rest_cases_where_recovery_detected_the_damage_before_compaction": rest_detected.load(Ordering::Relaxed),
        "damaged_at_rest_rule": "for the first layout (>= 2 segments) of up to 250 (thorough 1500) update sets: bit 0 of every byte of the first stored segment object is flipped, compact() (all segments selected) runs, recovery before vs after: detectable damage must stay detectable or the exact undamaged state must come back",
        "race_layouts": race_layouts.len(),
        "race_interleavings_executed": race_execs,
        "race_distinct_outcomes": race_outcomes.len(),
        "race_exhaustive": race_exhaustive,
        "samples": [layout_json(&layouts_of(&usable[usable.len() / 2])[0]), {"race_layout": race_layouts[0].0.show()}],
        "exhaustive": race_exhaustive,
    });
    rep.finish(
        coverage,
        vec![
            "recovered state = checkpoint entries then segment deltas folded with the real ReplicatedValue::merge; compared on value/liveness, hash fields, inner stamps, expiry and outer logical time".into(),
            "only update sets whose merge is independent of merge order are used as ground truth (the others are C07's business)".into(),
            "a tombstone may vanish when its stamp is below now-ttl under the code's own stamp-as-milliseconds convention and nothing older resurfaces".into(),
        ],
    );
}
