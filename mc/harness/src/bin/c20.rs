//! C20 — simulation is reproducible: same seed, same trace, same verdict.
//!
//! Decided by self-composition across processes (DESIGN.md §5.20). For every public DST /
//! simulation entry point of /repo x every preset configuration x seed in [0, S) the harness is run
//! in child processes (this binary re-executed with `--child <harness> <preset> <seed>`), each under
//! an environment e of an OWNED set E, and the canonical serialization of everything observable
//! (operation trace, final state dump (sorted), result fields, verdict) is compared field by field,
//! byte for byte, across all environments; every child additionally runs the harness twice in the
//! same process and both runs are compared.
//!
//! E = 4 hash keys x 2 wall-clock offsets, enforced by the LD_PRELOAD shim /verif/selfcomp/shim.c
//! (getrandom / SYS_getrandom / /dev/urandom answered from VERIF_RANDOM_KEY; realtime clocks shifted
//! by VERIF_CLOCK_OFFSET; ASLR switched off so that the address-derived part of ahash's per-map seed
//! is the same in every child), plus one repetition of e0 in a further process ("process-repeat":
//! identical environment; must be identical, otherwise E does not own the difference).
use redis_sim::redis::{Command, CommandExecutor, RespValue, Value, SDS};
use serde_json::{json, Value as J};
use std::collections::{BTreeMap, BTreeSet, HashMap, HashSet};
use std::path::PathBuf;
use std::process::{Command as Proc, Stdio};
use vh::resp;
use vh::{cli, par, Reporter, Tier};

// =================================================================================================
// Canonical output of one harness run
// =================================================================================================

/// (field name, value). Multi-element values are '\n'-joined elements. Field order is canonical:
/// trace first, then final state, then result fields in declaration order, verdict last.
type Fields = Vec<(String, String)>;

fn put(out: &mut Fields, name: &str, v: impl Into<String>) {
    out.push((name.to_string(), v.into()));
}

macro_rules! dbg_fields {
    ($out:expr, $prefix:expr, $obj:expr, $($f:ident),+ $(,)?) => {
        $( put($out, &format!("{}.{}", $prefix, stringify!($f)), format!("{:?}", $obj.$f)); )+
    };
}

fn sorted_map<K: std::fmt::Debug + Ord + Clone, V: std::fmt::Debug>(m: &HashMap<K, V>) -> String {
    let mut v: Vec<(&K, &V)> = m.iter().collect();
    v.sort_by(|a, b| a.0.cmp(b.0));
    v.iter().map(|(k, v)| format!("{:?}={:?}", k, v)).collect::<Vec<_>>().join("\n")
}

fn lines<T: std::fmt::Debug>(v: &[T]) -> String {
    v.iter().map(|x| format!("{:?}", x)).collect::<Vec<_>>().join("\n")
}

fn esc(b: &[u8]) -> String {
    resp::esc(b)
}

/// Sorted rendering of a keyspace value (unordered collections are sorted: their order is not state).
fn render_value(v: &Value) -> String {
    match v {
        Value::String(s) => format!("string {}", esc(s.as_bytes())),
        Value::List(l) => format!(
            "list [{}]",
            l.range(0, -1).iter().map(|x| esc(x.as_bytes())).collect::<Vec<_>>().join(",")
        ),
        Value::Set(s) => {
            let mut m: Vec<String> = s.members().iter().map(|x| esc(x.as_bytes())).collect();
            m.sort();
            format!("set {{{}}}", m.join(","))
        }
        Value::Hash(h) => {
            let mut m: Vec<String> = h
                .get_all()
                .iter()
                .map(|(f, v)| format!("{}={}", esc(f.as_bytes()), esc(v.as_bytes())))
                .collect();
            m.sort();
            format!("hash {{{}}}", m.join(","))
        }
        Value::SortedSet(z) => format!(
            "zset [{}]",
            z.range(0, -1)
                .iter()
                .map(|(m, s)| format!("{}@{:?}", esc(m.as_bytes()), s))
                .collect::<Vec<_>>()
                .join(",")
        ),
        Value::Null => "null".to_string(),
    }
}

/// Final state of an executor reachable only by shared reference: the data map, sorted by key.
fn dump_data(ex: &CommandExecutor) -> String {
    let mut keys: Vec<&String> = ex.get_data().keys().collect();
    keys.sort();
    keys.iter()
        .map(|k| format!("{} -> {}", esc(k.as_bytes()), render_value(&ex.get_data()[*k])))
        .collect::<Vec<_>>()
        .join("\n")
}

/// Final state of an executor reachable mutably: the visible keyspace (type, sorted value, PTTL).
fn dump_exec(ex: &mut CommandExecutor) -> String {
    let ks = vh::dump::dump_via(|a| match resp::parse(a) {
        Ok(c) => ex.execute(&c),
        Err(e) => RespValue::Error(format!("PARSE {e}").into()),
    });
    ks.iter()
        .map(|(k, d)| format!("{} -> {} {} pttl={}", esc(k), d.ty, d.val, d.pttl))
        .collect::<Vec<_>>()
        .join("\n")
}

fn cmd(s: &str) -> Command {
    resp::parse(&resp::line(s)).unwrap_or_else(|e| panic!("harness script command `{s}` does not parse: {e}"))
}

// =================================================================================================
// Harness table
// =================================================================================================

struct HarnessDef {
    name: &'static str,
    entry: &'static str,
    presets: &'static [&'static str],
    /// seeds per tier (quick, thorough)
    seeds: (u64, u64),
}

const HARNESSES: &[HarnessDef] = &[
    HarnessDef { name: "executor", entry: "redis::ExecutorDSTHarness::new(ExecutorDSTConfig::<preset>(seed)); run(1) x 500", presets: &["new", "calm", "chaos", "string_heavy"], seeds: (8, 64) },
    HarnessDef { name: "list", entry: "redis::ListDSTHarness; run(1) x 1000", presets: &["new", "high_churn", "modify_heavy"], seeds: (8, 64) },
    HarnessDef { name: "set", entry: "redis::SetDSTHarness; run(1) x 1000", presets: &["new", "small_members", "high_churn", "large_members"], seeds: (8, 64) },
    HarnessDef { name: "hash", entry: "redis::HashDSTHarness; run(1) x 1000", presets: &["new", "small_fields", "high_churn"], seeds: (8, 64) },
    HarnessDef { name: "sorted_set", entry: "redis::SortedSetDSTHarness; run(1) x 1000", presets: &["new", "small_keyspace", "large_keyspace"], seeds: (8, 64) },
    HarnessDef { name: "transaction", entry: "redis::TransactionDSTHarness; run(1) x 300", presets: &["new", "high_conflict", "error_heavy"], seeds: (8, 64) },
    HarnessDef { name: "crdt_gcounter", entry: "replication::crdt_dst::GCounterDSTHarness; run(500), sync_all, check_convergence", presets: &["new3", "calm", "moderate", "chaos"], seeds: (8, 64) },
    HarnessDef { name: "crdt_pncounter", entry: "replication::crdt_dst::PNCounterDSTHarness; run(500), sync_all, check_convergence", presets: &["new3", "calm", "moderate", "chaos"], seeds: (8, 64) },
    HarnessDef { name: "crdt_orset", entry: "replication::crdt_dst::ORSetDSTHarness; run(500), sync_all, check_convergence", presets: &["new3", "calm", "moderate", "chaos"], seeds: (8, 64) },
    HarnessDef { name: "crdt_vectorclock", entry: "replication::crdt_dst::VectorClockDSTHarness; run(500), sync_all, check_convergence", presets: &["new3", "calm", "moderate", "chaos"], seeds: (8, 64) },
    HarnessDef { name: "dst_simulation", entry: "simulator::DSTSimulation::with_config(DSTConfig::<preset>(seed)); step() x <=2000 until max_time, finalize() (= run_operations)", presets: &["new", "calm", "chaos"], seeds: (8, 64) },
    HarnessDef { name: "redis_dst", entry: "simulator::dst_integration::RedisDSTSimulation; run(400)", presets: &["zipfian", "zipfian_skew15", "uniform", "zipfian_calm", "zipfian_chaos"], seeds: (8, 64) },
    HarnessDef { name: "multi_node", entry: "simulator::MultiNodeSimulation driven by a fixed script that draws from sim.rng (SET/DEL/GET, gossip rounds, partitions, heal, converge)", presets: &["broadcast3", "broadcast5_lossy", "partitioned5_rf3", "no_anti_entropy3", "broadcast3_sync_limit3"], seeds: (8, 64) },
    HarnessDef { name: "partition", entry: "simulator::partition_tests::run_partition_test with PartitionConfig::<preset>", presets: &["isolate_node", "split_brain", "asymmetric", "ring"], seeds: (8, 64) },
    HarnessDef { name: "scenario", entry: "simulator::ScenarioBuilder / SimulationHarness with a fixed script", presets: &["plain", "buggify", "buggify_eviction"], seeds: (8, 64) },
    HarnessDef { name: "event_sim", entry: "simulator::Simulation (event queue) with a fixed handler: timers, messages, replies", presets: &["default", "drop20", "partitioned"], seeds: (8, 64) },
    HarnessDef { name: "pipeline", entry: "simulator::connection::PipelineSimulator::new(seed)[.with_sizes].run()", presets: &["default", "sizes_3_5_100"], seeds: (8, 64) },
    HarnessDef { name: "connection", entry: "simulator::connection::SimulatedConnection::new(seed) with a pipeline drawn from DeterministicRng(seed)", presets: &["batched", "unbatched", "partial_reads"], seeds: (8, 64) },
    HarnessDef { name: "streaming", entry: "streaming::dst::StreamingDSTHarness::new(StreamingDSTConfig::<preset>(seed)); run(300); check_invariants (current-thread tokio runtime, paused clock)", presets: &["new", "calm", "moderate", "chaos"], seeds: (8, 64) },
    HarnessDef { name: "compaction", entry: "streaming::compaction_dst::CompactionDSTHarness; run(200); check_invariants (current-thread tokio runtime, paused clock)", presets: &["new", "calm", "aggressive", "chaos"], seeds: (8, 64) },
    HarnessDef { name: "streaming_realtime", entry: "as streaming, but on a current-thread tokio runtime with the REAL clock: the simulated store latencies (0.1-100 ms per call) really elapse", presets: &["moderate", "chaos"], seeds: (0, 4) },
    HarnessDef { name: "compaction_realtime", entry: "as compaction, real clock", presets: &["new", "chaos"], seeds: (0, 4) },
    HarnessDef { name: "wal", entry: "streaming::wal_dst::WalDSTHarness::new(seed, WalDSTConfig::<preset>()).run()", presets: &["baseline", "crash_only", "chaos"], seeds: (8, 64) },
];

fn rt() -> tokio::runtime::Runtime {
    tokio::runtime::Builder::new_current_thread()
        .enable_all()
        .start_paused(true)
        .build()
        .expect("tokio runtime")
}

/// Same runtime flavour with the real clock (the store latency sleeps really elapse).
fn rt_real() -> tokio::runtime::Runtime {
    tokio::runtime::Builder::new_current_thread().enable_all().build().expect("tokio runtime")
}

// =================================================================================================
// Harness runners (the only code that touches /repo)
// =================================================================================================

fn run_harness(h: &str, preset: &str, seed: u64) -> Result<Fields, String> {
    let mut o: Fields = Vec::new();
    let bad = || Err(format!("unknown preset {h}/{preset}"));
    let (h, realtime) = match h.strip_suffix("_realtime") {
        Some(b) => (b, true),
        None => (h, false),
    };
    let runtime = || if realtime { rt_real() } else { rt() };
    match h {
        "executor" => {
            use redis_sim::redis::{ExecutorDSTConfig as C, ExecutorDSTHarness as H};
            let cfg = match preset {
                "new" => C::new(seed),
                "calm" => C::calm(seed),
                "chaos" => C::chaos(seed),
                "string_heavy" => C::string_heavy(seed),
                _ => return bad(),
            };
            let mut hn = H::new(cfg);
            let mut trace = Vec::new();
            for _ in 0..500 {
                hn.run(1);
                trace.push(format!("{:?}", hn.result().last_op));
                if !hn.result().invariant_violations.is_empty() {
                    break;
                }
            }
            put(&mut o, "trace", trace.join("\n"));
            put(&mut o, "state", dump_data(hn.executor()));
            let r = hn.result();
            dbg_fields!(&mut o, "result", r, seed, total_operations, string_ops, key_ops, list_ops, set_ops, hash_ops, sorted_set_ops, expiry_ops, last_op);
            put(&mut o, "verdict", format!("success={} violations={:?}", r.is_success(), r.invariant_violations));
        }
        "list" => {
            use redis_sim::redis::{ListDSTConfig as C, ListDSTHarness as H};
            let cfg = match preset {
                "new" => C::new(seed),
                "high_churn" => C::high_churn(seed),
                "modify_heavy" => C::modify_heavy(seed),
                _ => return bad(),
            };
            let mut hn = H::new(cfg);
            let mut trace = Vec::new();
            for _ in 0..1000 {
                hn.run(1);
                trace.push(format!("{:?}", hn.result().last_op));
                if !hn.result().invariant_violations.is_empty() {
                    break;
                }
            }
            put(&mut o, "trace", trace.join("\n"));
            put(&mut o, "state", hn.list().range(0, -1).iter().map(|x| esc(x.as_bytes())).collect::<Vec<_>>().join("\n"));
            let r = hn.result();
            dbg_fields!(&mut o, "result", r, seed, total_operations, lpushes, rpushes, lpops, rpops, lsets, trims, last_op);
            put(&mut o, "verdict", format!("success={} violations={:?}", r.is_success(), r.invariant_violations));
        }
        "set" => {
            use redis_sim::redis::{SetDSTConfig as C, SetDSTHarness as H};
            let cfg = match preset {
                "new" => C::new(seed),
                "small_members" => C::small_members(seed),
                "high_churn" => C::high_churn(seed),
                "large_members" => C::large_members(seed),
                _ => return bad(),
            };
            let mut hn = H::new(cfg);
            let mut trace = Vec::new();
            for _ in 0..1000 {
                hn.run(1);
                trace.push(format!("{:?}", hn.result().last_op));
                if !hn.result().invariant_violations.is_empty() {
                    break;
                }
            }
            put(&mut o, "trace", trace.join("\n"));
            let mut m: Vec<String> = hn.set().members().iter().map(|x| esc(x.as_bytes())).collect();
            m.sort();
            put(&mut o, "state", m.join("\n"));
            let r = hn.result();
            dbg_fields!(&mut o, "result", r, seed, total_operations, adds, removes, add_existed, remove_not_found, last_op);
            put(&mut o, "verdict", format!("success={} violations={:?}", r.is_success(), r.invariant_violations));
        }
        "hash" => {
            use redis_sim::redis::{HashDSTConfig as C, HashDSTHarness as H};
            let cfg = match preset {
                "new" => C::new(seed),
                "small_fields" => C::small_fields(seed),
                "high_churn" => C::high_churn(seed),
                _ => return bad(),
            };
            let mut hn = H::new(cfg);
            let mut trace = Vec::new();
            for _ in 0..1000 {
                hn.run(1);
                trace.push(format!("{:?}", hn.result().last_op));
                if !hn.result().invariant_violations.is_empty() {
                    break;
                }
            }
            put(&mut o, "trace", trace.join("\n"));
            let mut m: Vec<String> = hn.hash().get_all().iter().map(|(f, v)| format!("{}={}", esc(f.as_bytes()), esc(v.as_bytes()))).collect();
            m.sort();
            put(&mut o, "state", m.join("\n"));
            let r = hn.result();
            dbg_fields!(&mut o, "result", r, seed, total_operations, sets, updates, deletes, last_op);
            put(&mut o, "verdict", format!("success={} violations={:?}", r.is_success(), r.invariant_violations));
        }
        "sorted_set" => {
            use redis_sim::redis::{SortedSetDSTConfig as C, SortedSetDSTHarness as H};
            let cfg = match preset {
                "new" => C::new(seed),
                "small_keyspace" => C::small_keyspace(seed),
                "large_keyspace" => C::large_keyspace(seed),
                _ => return bad(),
            };
            let mut hn = H::new(cfg);
            let mut trace = Vec::new();
            for _ in 0..1000 {
                hn.run(1);
                trace.push(format!("{:?}", hn.result().last_op));
                if !hn.result().invariant_violations.is_empty() {
                    break;
                }
            }
            put(&mut o, "trace", trace.join("\n"));
            put(&mut o, "state", hn.sorted_set().range(0, -1).iter().map(|(m, s)| format!("{}@{:?}", esc(m.as_bytes()), s)).collect::<Vec<_>>().join("\n"));
            let r = hn.result();
            dbg_fields!(&mut o, "result", r, seed, total_operations, adds, updates, removes, last_op);
            put(&mut o, "verdict", format!("success={} violations={:?}", r.is_success(), r.invariant_violations));
        }
        "transaction" => {
            use redis_sim::redis::transaction_dst::{TransactionDSTConfig as C, TransactionDSTHarness as H};
            let cfg = match preset {
                "new" => C::new(seed),
                "high_conflict" => C::high_conflict(seed),
                "error_heavy" => C::error_heavy(seed),
                _ => return bad(),
            };
            let mut hn = H::new(cfg);
            let mut trace = Vec::new();
            for _ in 0..300 {
                hn.run(1);
                trace.push(format!("{:?}", hn.result().last_op));
                if !hn.result().invariant_violations.is_empty() {
                    break;
                }
            }
            put(&mut o, "trace", trace.join("\n"));
            let r = hn.result();
            dbg_fields!(&mut o, "result", r, seed, total_operations, watch_no_conflict, watch_conflict, simple_exec, discards, error_scenarios, unwatch_scenarios, last_op);
            put(&mut o, "verdict", format!("success={} violations={:?}", r.is_success(), r.invariant_violations));
        }
        "crdt_gcounter" | "crdt_pncounter" | "crdt_orset" | "crdt_vectorclock" => {
            use redis_sim::replication::crdt_dst::*;
            let cfg = match preset {
                "new3" => CRDTDSTConfig::new(seed, 3),
                "calm" => CRDTDSTConfig::calm(seed),
                "moderate" => CRDTDSTConfig::moderate(seed),
                "chaos" => CRDTDSTConfig::chaos(seed),
                _ => return bad(),
            };
            let ops = cfg.max_operations;
            macro_rules! go {
                ($t:ident) => {{
                    let mut hn = $t::new(cfg);
                    hn.run(ops);
                    hn.sync_all();
                    hn.check_convergence();
                    hn.into_result()
                }};
            }
            let r = match h {
                "crdt_gcounter" => go!(GCounterDSTHarness),
                "crdt_pncounter" => go!(PNCounterDSTHarness),
                "crdt_orset" => go!(ORSetDSTHarness),
                _ => go!(VectorClockDSTHarness),
            };
            // no operation trace and no replica state is exposed by these harnesses
            dbg_fields!(&mut o, "result", r, seed, total_operations);
            put(&mut o, "result.ops_per_replica", sorted_map(&r.ops_per_replica));
            dbg_fields!(&mut o, "result", r, syncs_performed, messages_dropped, converged);
            put(&mut o, "verdict", format!("success={} violations={:?}", r.is_success(), r.invariant_violations));
        }
        "dst_simulation" => {
            use redis_sim::simulator::{DSTConfig, DSTSimulation, HostId};
            let cfg = match preset {
                "new" => DSTConfig::new(seed),
                "calm" => DSTConfig::calm(seed),
                "chaos" => DSTConfig::chaos(seed),
                _ => return bad(),
            };
            let nodes = cfg.node_count;
            let max_time = cfg.max_time_ms;
            let mut sim = DSTSimulation::with_config(cfg);
            after_construct();
            let mut trace = Vec::new();
            // body of DSTSimulation::run_operations(2000), observing after every step
            for _ in 0..2000 {
                sim.step();
                let st: Vec<String> = (0..nodes).map(|i| format!("{:?}", sim.crash_simulator().get_state(HostId(i)))).collect();
                trace.push(format!("t={} {}", sim.current_time().0, st.join(" ")));
                if sim.current_time().0 >= max_time {
                    break;
                }
            }
            let r = sim.finalize().clone();
            put(&mut o, "trace", trace.join("\n"));
            let cs = sim.crash_simulator().stats().clone();
            put(
                &mut o,
                "state",
                format!(
                    "crash_stats total_crashes={} total_recoveries={} state_loss={} avg_recovery_ms={:?}\ncrashes_by_reason:\n{}",
                    cs.total_crashes,
                    cs.total_recoveries,
                    cs.total_state_loss_events,
                    cs.average_recovery_time_ms,
                    sorted_map(&cs.crashes_by_reason)
                ),
            );
            sim_result_fields(&mut o, &r);
        }
        "redis_dst" => {
            use redis_sim::buggify::FaultConfig;
            use redis_sim::simulator::dst_integration::RedisDSTSimulation as S;
            let mut sim = match preset {
                "zipfian" => S::new(seed, 5),
                // the same key space as the default preset with another skew
                "zipfian_skew15" => S::with_key_distribution(seed, 5, redis_sim::simulator::dst_integration::KeyDistribution::Zipfian { num_keys: 1000, skew: 1.5 }),
                "uniform" => S::new_uniform(seed, 5, 100),
                "zipfian_calm" => S::new(seed, 5).with_faults(FaultConfig::calm()),
                "zipfian_chaos" => S::new(seed, 5).with_faults(FaultConfig::chaos()),
                _ => return bad(),
            };
            after_construct();
            let r = sim.run(400).clone();
            put(&mut o, "trace", lines(&r.operation_history));
            put(&mut o, "state", format!("{:?} convergence={}", sim.stats(), sim.check_convergence()));
            sim_result_fields(&mut o, &r);
        }
        "multi_node" => {
            use redis_sim::simulator::MultiNodeSimulation as M;
            let mut sim = match preset {
                "broadcast3" => M::new(3, seed),
                "broadcast5_lossy" => M::new(5, seed).with_packet_loss(0.2).with_message_delay(1, 50),
                "partitioned5_rf3" => M::new_partitioned(5, 3, seed),
                "no_anti_entropy3" => M::new_without_anti_entropy(3, seed),
                // a per-exchange key limit below the number of divergent keys: WHICH keys an exchange carries must be a
                // function of the seed too
                "broadcast3_sync_limit3" => {
                    let mut m = M::new(3, seed);
                    for node in m.nodes.iter_mut() {
                        node.anti_entropy.config.max_keys_per_sync = 3;
                    }
                    m
                }
                _ => return bad(),
            };
            let n = sim.nodes.len();
            let heal_all = |sim: &mut M| {
                let mut ps: Vec<(usize, usize)> = sim.partitions.iter().copied().collect();
                ps.sort();
                for (a, b) in ps {
                    sim.heal_partition(a, b);
                }
            };
            for step in 0..240usize {
                let node = sim.rng.gen_range(0, n as u64) as usize;
                let key = format!("k{}", sim.rng.gen_range(0, 12));
                let roll = sim.rng.gen_range(0, 100);
                let c = if roll < 60 {
                    Command::set(key, SDS::from_str(&format!("v{step}")))
                } else if roll < 75 {
                    Command::del(key)
                } else {
                    Command::Get(key)
                };
                sim.execute(step % 4, node, c);
                let dt = sim.rng.gen_range(1, 8);
                sim.advance_time_ms(dt);
                if step % 3 == 2 {
                    sim.gossip_round();
                }
                if step % 40 == 10 {
                    let a = sim.rng.gen_range(0, n as u64) as usize;
                    let b = sim.rng.gen_range(0, n as u64) as usize;
                    if a != b {
                        sim.partition(a, b);
                    }
                }
                if step % 40 == 30 {
                    heal_all(&mut sim);
                }
            }
            heal_all(&mut sim);
            sim.converge(30);
            put(&mut o, "trace", lines(&sim.history));
            let mut st = Vec::new();
            st.push(format!("time={:?} queue={} anti_entropy_syncs={}", sim.current_time, sim.message_queue.len(), sim.anti_entropy_syncs));
            for i in 0..n {
                let mut keys: Vec<String> = sim.nodes[i].replica_state.replicated_keys.keys().cloned().collect();
                keys.sort();
                for k in keys {
                    let rv = &sim.nodes[i].replica_state.replicated_keys[&k];
                    st.push(format!(
                        "node{i} replicated {k} = {:?} tombstone={} ts={:?} expiry={:?} vc={}",
                        sim.nodes[i].get_replicated_value(&k),
                        rv.is_tombstone(),
                        rv.timestamp,
                        rv.expiry_ms,
                        rv.vector_clock.is_some()
                    ));
                }
                for l in dump_exec(&mut sim.nodes[i].executor).lines() {
                    st.push(format!("node{i} keyspace {l}"));
                }
            }
            put(&mut o, "state", st.join("\n"));
            let conv: Vec<String> = (0..12).map(|k| format!("k{k}:{}", sim.check_key_convergence(&format!("k{k}")))).collect();
            put(&mut o, "verdict", format!("converged {}", conv.join(" ")));
        }
        "partition" => {
            use redis_sim::simulator::partition_tests::{run_partition_test, PartitionConfig as P};
            let n = 5;
            let cfg = match preset {
                "isolate_node" => P::isolate_node(0, n),
                "split_brain" => P::split_brain(vec![0, 1], vec![2, 3, 4]),
                "asymmetric" => P::asymmetric(0, 1),
                "ring" => P::ring(n),
                _ => return bad(),
            };
            // the writes of run_partition_test_batch plus a second key
            let during = vec![(0, "key1", "value_from_0"), (n - 1, "key1", "value_from_last"), (1, "key2", "other")];
            let after = vec![(0, "key1", "final_value"), (2, "key2", "other_final")];
            let r = run_partition_test(preset, n, seed, cfg, during, after, 50);
            dbg_fields!(&mut o, "result", r, test_name, partition_config, writes_during_partition, writes_after_heal, convergence_rounds, final_values);
            put(&mut o, "verdict", format!("converged={} linearizable={}", r.converged, r.linearizable));
        }
        "scenario" => {
            use redis_sim::simulator::ScenarioBuilder;
            let mut b = ScenarioBuilder::new(seed).with_start_epoch(1_700_000_000);
            if preset != "plain" {
                b = b.with_buggify(0.3);
            }
            let script: &[(u64, usize, &str)] = &[
                (0, 0, "SET a 1"),
                (5, 1, "SET b hello EX 1"),
                (10, 0, "INCR a"),
                (20, 2, "LPUSH l x y z"),
                (30, 1, "LRANGE l 0 -1"),
                (40, 0, "ZADD z 1 one 2 two 3 three"),
                (50, 2, "ZRANGE z 0 -1 WITHSCORES"),
                (60, 1, "HSET h f v"),
                (70, 0, "HGET h f"),
                (80, 2, "EXPIRE a 2"),
                (90, 1, "TTL a"),
                (400, 0, "PTTL b"),
                (900, 2, "GET b"),
                (1100, 1, "GET b"),
                (1200, 0, "SADD s m1 m2 m3"),
                (1300, 2, "SCARD s"),
                (1400, 1, "APPEND c abc"),
                (1500, 0, "STRLEN c"),
                (2500, 2, "GET a"),
                (2600, 1, "EXISTS a b c"),
                (2700, 0, "DBSIZE"),
                (2800, 2, "RPOP l"),
                (2900, 1, "LLEN l"),
                (3000, 0, "ZSCORE z two"),
                // scripts that draw random numbers: the simulation seeds Lua's generator from its own clock
                (3100, 1, "EVAL return\\x20math.random(1000000) 0"),
                (3200, 2, "EVAL redis.call('SET','r',math.random(1000000))\\x20return\\x20redis.call('GET','r') 0"),
                (3300, 0, "GET r"),
            ];
            for (t, c, s) in script {
                b = b.at_time(*t).client(*c, cmd(s));
            }
            let hn = match preset {
                "plain" | "buggify" => b.run(),
                "buggify_eviction" => b.run_with_eviction(100),
                _ => return bad(),
            };
            put(&mut o, "trace", lines(hn.history()));
            put(&mut o, "state", format!("time={:?}", hn.current_time()));
        }
        "event_sim" => {
            use redis_sim::simulator::{Duration as D, Simulation, SimulationConfig, VirtualTime};
            use redis_sim::simulator::{EventType, HostId};
            let mut sim = Simulation::new(SimulationConfig { seed, max_time: VirtualTime::from_millis(1500), simulation_start_epoch: 0 });
            let hosts: Vec<HostId> = (0..4).map(|i| sim.add_host(format!("h{i}"))).collect();
            match preset {
                "default" => {}
                "drop20" => sim.set_network_drop_rate(0.2),
                "partitioned" => sim.partition_hosts(hosts[0], hosts[1]),
                _ => return bad(),
            }
            let mut trace: Vec<String> = Vec::new();
            sim.run(|s, ev| {
                trace.push(format!("{:?}", ev));
                let me = ev.host_id;
                match &ev.event_type {
                    EventType::HostStart => {
                        s.schedule_timer(me, D::from_millis(10 + 3 * me.0 as u64));
                    }
                    EventType::Timer(_) => {
                        for h in &hosts {
                            if *h != me {
                                s.send_message(me, *h, vec![0, me.0 as u8]);
                            }
                        }
                        let d = s.rng().gen_range(20, 120);
                        s.schedule_timer(me, D::from_millis(d));
                    }
                    EventType::NetworkMessage(m) => {
                        if m.payload[0] < 2 {
                            s.send_message(m.to, m.from, vec![m.payload[0] + 1, m.payload[1]]);
                        }
                    }
                }
            });
            put(&mut o, "state", format!("time={:?} events={}", sim.current_time(), trace.len()));
            o.insert(0, ("trace".to_string(), trace.join("\n")));
        }
        "pipeline" => {
            use redis_sim::simulator::connection::PipelineSimulator as P;
            let mut p = match preset {
                "default" => P::new(seed),
                "sizes_3_5_100" => P::new(seed).with_sizes(vec![3, 5, 100]),
                _ => return bad(),
            };
            p.run();
            put(&mut o, "trace", lines(&p.results));
            put(&mut o, "result.summary", p.summary());
            put(&mut o, "verdict", format!("all_correct={}", p.results.iter().all(|r| r.all_responses_correct)));
        }
        "connection" => {
            use redis_sim::simulator::connection::SimulatedConnection as S;
            use redis_sim::simulator::DeterministicRng;
            let mut c = match preset {
                "batched" => S::new(seed),
                "unbatched" => S::new(seed).with_unbatched_flush(),
                "partial_reads" => S::new(seed).with_partial_reads(0.5),
                _ => return bad(),
            };
            let mut rng = DeterministicRng::new(seed);
            let mut script = Vec::new();
            for i in 0..40 {
                let k = rng.gen_range(0, 6);
                script.push(match rng.gen_range(0, 6) {
                    0 => cmd(&format!("SET k{k} v{i}")),
                    1 => cmd(&format!("GET k{k}")),
                    2 => cmd(&format!("INCR n{k}")),
                    3 => cmd(&format!("RPUSH l{k} e{i}")),
                    4 => cmd(&format!("LRANGE l{k} 0 -1")),
                    _ => cmd(&format!("APPEND k{k} x")),
                });
            }
            c.send_pipeline(script);
            let replies = if preset == "partial_reads" { c.process_with_partial_arrivals(3) } else { c.process() };
            put(&mut o, "trace", lines(c.history()));
            put(&mut o, "result.replies", lines(&replies));
            put(&mut o, "result.flush_count", c.flush_count().to_string());
            put(&mut o, "result.bytes_per_flush", format!("{:?}", c.bytes_per_flush()));
            put(&mut o, "result.commands_executed", c.commands_executed().to_string());
        }
        "streaming" => {
            use redis_sim::streaming::dst::{StreamingDSTConfig as C, StreamingDSTHarness as H};
            let cfg = match preset {
                "new" => C::new(seed),
                "calm" => C::calm(seed),
                "moderate" => C::moderate(seed),
                "chaos" => C::chaos(seed),
                _ => return bad(),
            };
            let r = runtime().block_on(async {
                let mut hn = H::new(cfg).await;
                hn.run(300).await;
                hn.check_invariants().await;
                hn.into_result()
            });
            put(&mut o, "trace", lines(&r.history));
            dbg_fields!(&mut o, "result", r, seed, total_operations, successful_operations, failed_operations, flushes, crashes, store_stats);
            put(&mut o, "verdict", format!("success={} violations={:?}", r.is_success(), r.invariant_violations));
        }
        "compaction" => {
            use redis_sim::streaming::compaction_dst::{CompactionDSTConfig as C, CompactionDSTHarness as H};
            let cfg = match preset {
                "new" => C::new(seed),
                "calm" => C::calm(seed),
                "aggressive" => C::aggressive(seed),
                "chaos" => C::chaos(seed),
                _ => return bad(),
            };
            let r = runtime().block_on(async {
                let mut hn = H::new(cfg).await;
                hn.run(200).await;
                hn.check_invariants().await;
                hn.into_result()
            });
            put(&mut o, "trace", lines(&r.history));
            dbg_fields!(&mut o, "result", r, seed, total_operations, successful_writes, successful_flushes, successful_compactions, failed_operations, skipped_operations, store_stats);
            put(&mut o, "verdict", format!("success={} violations={:?}", r.is_success(), r.invariant_violations));
        }
        "wal" => {
            use redis_sim::streaming::wal_dst::{WalDSTConfig as C, WalDSTHarness as H};
            let cfg = match preset {
                "baseline" => C::baseline(),
                "crash_only" => C::crash_only(),
                "chaos" => C::chaos(),
                _ => return bad(),
            };
            let r = H::new(seed, cfg).run();
            // no operation trace is exposed; the counters are all there is
            dbg_fields!(&mut o, "result", r, seed, total_writes, acknowledged_writes, failed_writes, recovered_entries, missing_after_recovery, store_stats);
            put(&mut o, "verdict", format!("passed={} error={:?}", r.passed, r.error_message));
        }
        _ => return Err(format!("unknown harness {h}")),
    }
    Ok(o)
}

fn sim_result_fields(o: &mut Fields, r: &redis_sim::simulator::SimulationResult) {
    dbg_fields!(o, "result", r, seed, total_time_ms, total_operations);
    put(o, "result.operations_by_type", sorted_map(&r.operations_by_type));
    dbg_fields!(o, "result", r, crashes, recoveries);
    put(o, "result.buggify_stats.checks", sorted_map(&r.buggify_stats.checks));
    put(o, "result.buggify_stats.triggers", sorted_map(&r.buggify_stats.triggers));
    put(o, "verdict", format!("success={} linearizable={} converged={} errors={:?}", r.is_success(), r.linearizable, r.converged, r.errors));
}

// =================================================================================================
// Child side
// =================================================================================================

extern "C" {
    fn alarm(seconds: u32) -> u32;
    fn dlsym(handle: *mut std::ffi::c_void, name: *const std::ffi::c_char) -> *mut std::ffi::c_void;
}

fn shim_stats() -> Option<[u64; 4]> {
    // RTLD_DEFAULT = NULL on glibc
    let p = unsafe { dlsym(std::ptr::null_mut(), c"verif_shim_stats".as_ptr()) };
    if p.is_null() {
        return None;
    }
    let f: extern "C" fn(*mut u64) = unsafe { std::mem::transmute(p) };
    let mut out = [0u64; 4];
    f(out.as_mut_ptr());
    Some(out)
}

fn wire_esc(s: &str) -> String {
    s.replace('\\', "\\\\").replace('\n', "\\n").replace('\t', "\\t").replace('\r', "\\r")
}

fn wire_unesc(s: &str) -> String {
    let mut out = String::with_capacity(s.len());
    let mut it = s.chars();
    while let Some(c) = it.next() {
        if c == '\\' {
            match it.next() {
                Some('n') => out.push('\n'),
                Some('t') => out.push('\t'),
                Some('r') => out.push('\r'),
                Some('\\') => out.push('\\'),
                Some(o) => {
                    out.push('\\');
                    out.push(o)
                }
                None => out.push('\\'),
            }
        } else {
            out.push(c);
        }
    }
    out
}

thread_local! {
    /// an older, still living simulation object; dropped by `after_construct` as soon as the run under observation has
    /// built its own
    static BYSTANDER: std::cell::RefCell<Option<Box<dyn std::any::Any>>> = std::cell::RefCell::new(None);
}

fn after_construct() {
    BYSTANDER.with(|b| drop(b.borrow_mut().take()));
}

/// An instance of the same simulation family with ANOTHER preset and seed, built but not run.
fn make_bystander(h: &str, preset: &str, seed: u64) -> Option<Box<dyn std::any::Any>> {
    match h {
        "dst_simulation" => {
            use redis_sim::simulator::{DSTConfig, DSTSimulation};
            let cfg = if preset == "chaos" { DSTConfig::calm(seed + 1000) } else { DSTConfig::chaos(seed + 1000) };
            Some(Box::new(DSTSimulation::with_config(cfg)))
        }
        "redis_dst" => {
            use redis_sim::buggify::FaultConfig;
            use redis_sim::simulator::dst_integration::RedisDSTSimulation as S;
            let f = if preset == "zipfian_chaos" { FaultConfig::calm() } else { FaultConfig::chaos() };
            Some(Box::new(S::new(seed + 1000, 5).with_faults(f)))
        }
        _ => None,
    }
}

fn run_caught(h: &str, p: &str, seed: u64) -> Fields {
    match std::panic::catch_unwind(|| run_harness(h, p, seed)) {
        Ok(Ok(f)) => f,
        Ok(Err(e)) => {
            eprintln!("{e}");
            std::process::exit(3);
        }
        // a panic of the code under check is an observable outcome like any other
        Err(pl) => vec![("panic".to_string(), vh::panic_text(&pl))],
    }
}

fn emit(tag: &str, f: &Fields) {
    use std::io::Write;
    let so = std::io::stdout();
    let mut so = so.lock();
    for (k, v) in f {
        let _ = writeln!(so, "{tag}\t{k}\t{}", wire_esc(v));
    }
}

fn meta_lines() {
    let st = shim_stats();
    println!("M\tshim_loaded\t{}", std::env::var("VERIF_SHIM_LOADED").unwrap_or_else(|_| "0".into()));
    println!("M\taslr\t{}", std::env::var("VERIF_SHIM_ASLR").unwrap_or_else(|_| "unknown".into()));
    if let Some(s) = st {
        println!("M\tgetrandom_calls\t{}", s[0]);
        println!("M\tgetrandom_bytes\t{}", s[1]);
        println!("M\tclock_reads_shifted\t{}", s[2]);
        println!("M\turandom_opens\t{}", s[3]);
    }
}

fn child_main(a: &[String]) -> ! {
    unsafe { alarm(300) };
    vh::quiet_panics();
    let (h, p) = (a[0].as_str(), a[1].as_str());
    let seed: u64 = a[2].parse().unwrap_or_else(|_| std::process::exit(3));
    if std::env::var("VERIF_TRACE").as_deref() == Ok("1") {
        // a developer replaying a seed with logging switched on: a TRACE-level subscriber whose output is discarded
        let _ = tracing_subscriber::fmt().with_max_level(tracing::Level::TRACE).with_writer(std::io::sink).try_init();
    }
    // "pre" mode (a process of its own): a complete run of ANOTHER preset of the same harness family happens first in
    // this fresh process; what it leaves behind (caches, counters, thread-locals) must not change the run that follows
    if a.get(3).map(|x| x == "pre").unwrap_or(false) {
        if let Some(def) = HARNESSES.iter().find(|d| d.name == h) {
            if def.presets.len() > 1 {
                let i = def.presets.iter().position(|x| *x == p).unwrap_or(0);
                let other = def.presets[(i + 1) % def.presets.len()];
                let _ = run_caught(h, other, seed);
                let r4 = run_caught(h, p, seed);
                emit("R4", &r4);
            }
        }
        meta_lines();
        println!("END");
        std::process::exit(0);
    }
    let r1 = run_caught(h, p, seed);
    emit("R1", &r1);
    let r2 = run_caught(h, p, seed);
    emit("R2", &r2);
    if let Some(older) = make_bystander(h, p, seed) {
        BYSTANDER.with(|b| *b.borrow_mut() = Some(older));
        let r3 = run_caught(h, p, seed);
        BYSTANDER.with(|b| b.borrow_mut().take());
        emit("R3", &r3);
    }
    meta_lines();
    println!("END");
    std::process::exit(0);
}

/// Shows that the shim owns what it claims to own: iteration orders of std and ahash maps, the
/// wall clock, addresses.
fn probe_main() -> ! {
    unsafe { alarm(60) };
    let mut f: Fields = Vec::new();
    let m: HashMap<u32, u32> = (0..12).map(|i| (i, i)).collect();
    put(&mut f, "std_hashmap_order", format!("{:?}", m.keys().collect::<Vec<_>>()));
    let s: HashSet<String> = (0..12).map(|i| format!("m{i}")).collect();
    put(&mut f, "std_hashset_order", format!("{:?}", s.iter().collect::<Vec<_>>()));
    let a: ahash::AHashSet<String> = (0..12).map(|i| format!("m{i}")).collect();
    put(&mut f, "ahash_set_order", format!("{:?}", a.iter().collect::<Vec<_>>()));
    let a2: ahash::AHashSet<String> = (0..12).map(|i| format!("m{i}")).collect();
    put(&mut f, "ahash_set_order_second_map", format!("{:?}", a2.iter().collect::<Vec<_>>()));
    let now = std::time::SystemTime::now().duration_since(std::time::UNIX_EPOCH).map(|d| d.as_secs()).unwrap_or(0);
    put(&mut f, "realtime_day", (now / 86400).to_string());
    static ANCHOR: u8 = 0;
    let b = Box::new(0u8);
    put(&mut f, "addr_static", format!("{:p}", &ANCHOR));
    put(&mut f, "addr_heap", format!("{:p}", &*b));
    // observation only: replies whose order is unspecified by Redis follow the map order
    let mut ex = CommandExecutor::new();
    ex.execute(&cmd("SADD s a b c d e f g h"));
    ex.execute(&cmd("HSET h a 1 b 2 c 3 d 4 e 5"));
    ex.execute(&cmd("MSET k1 1 k2 2 k3 3 k4 4 k5 5"));
    put(&mut f, "executor_smembers", resp::show(&ex.execute(&cmd("SMEMBERS s"))));
    put(&mut f, "executor_hgetall", resp::show(&ex.execute(&cmd("HGETALL h"))));
    put(&mut f, "executor_spop", resp::show(&ex.execute(&cmd("SPOP s"))));
    put(&mut f, "executor_randomkey", resp::show(&ex.execute(&cmd("RANDOMKEY"))));
    emit("R1", &f);
    emit("R2", &f);
    meta_lines();
    println!("END");
    std::process::exit(0);
}

// =================================================================================================
// Parent side
// =================================================================================================

const KEYS: [&str; 4] = ["00000000000000a1", "3c6ef372fe94f82b", "a54ff53a5f1d36f1", "510e527fade682d1"];
const OFFSETS: [&str; 2] = ["000000", "259200"]; // 0 and +3 days, equal length (same stack layout)
/// clock speed that goes with each offset: the shifted environments also run every wall/monotonic clock 40x faster
/// (elapsed' = 40 * elapsed), so a harness whose trace depends on how much real time passed differs between them
const SCALES: [&str; 2] = ["001", "040"];
/// what else differs between the two clock environments (see run_child)
const ENV_VARS: [(&str, [&str; 2]); 7] = [
    ("RUST_LOG", ["error", "trace"]),
    ("RUST_BACKTRACE", ["0", "1"]),
    ("RAYON_NUM_THREADS", ["2", "7"]),
    ("TOKIO_WORKER_THREADS", ["2", "7"]),
    ("TZ", ["UTC+0", "UTC-9"]),
    ("HOME", ["/root", "/tmp/"]),
    // "1": the child installs a TRACE-level tracing subscriber (output discarded) before it runs the harness
    ("VERIF_TRACE", ["0", "1"]),
];
const ENV_DIRS: [&str; 2] = ["/", "/tmp"];

#[derive(Clone, Debug, PartialEq, Eq)]
struct Env {
    key: usize,
    off: usize,
    /// true for the repetition of e0 in another process
    repeat: bool,
}

impl Env {
    fn label(&self) -> String {
        format!("key={} clock_offset_s={} clock_speed=x{}{}", KEYS[self.key], OFFSETS[self.off].trim_start_matches('0').parse::<u64>().unwrap_or(0), SCALES[self.off].trim_start_matches('0'), if self.repeat { " (repeat)" } else { "" })
    }
    fn to_json(&self) -> J {
        json!({"key": self.key, "off": self.off, "repeat": self.repeat})
    }
    fn from_json(v: &J) -> Env {
        Env { key: v["key"].as_u64().unwrap_or(0) as usize % 4, off: v["off"].as_u64().unwrap_or(0) as usize % 2, repeat: v["repeat"].as_bool().unwrap_or(false) }
    }
}

fn envs() -> Vec<Env> {
    let mut v = Vec::new();
    for k in 0..KEYS.len() {
        for o in 0..OFFSETS.len() {
            v.push(Env { key: k, off: o, repeat: false });
        }
    }
    v.push(Env { key: 0, off: 0, repeat: true });
    v
}

struct ChildOut {
    r1: Fields,
    r2: Fields,
    /// third run in the same process, started while an older instance of the same simulation family (another preset)
    /// is still alive; the older one is dropped right after the new one was built (`sim = Sim::new(..)` over a live sim)
    r3: Fields,
    /// fourth run in the same process, right after a complete run of the next preset of the same harness family
    r4: Fields,
    meta: BTreeMap<String, String>,
}

fn machinery(msg: &str) -> ! {
    eprintln!("MACHINERY-FAILURE property=C20 {msg}");
    std::process::exit(2);
}

fn shim_path() -> PathBuf {
    let root = vh::report::verif_root();
    let dir = if root.join("selfcomp/shim.c").exists() { root.join("selfcomp") } else { PathBuf::from("/verif/selfcomp") };
    let so = dir.join("shim.so");
    let stale = match (std::fs::metadata(&so), std::fs::metadata(dir.join("shim.c"))) {
        (Ok(a), Ok(b)) => match (a.modified(), b.modified()) {
            (Ok(ma), Ok(mb)) => ma < mb,
            _ => false,
        },
        (Err(_), _) => true,
        _ => false,
    };
    if stale {
        let st = Proc::new(dir.join("setup.sh")).stdout(Stdio::null()).status();
        if !matches!(st, Ok(s) if s.success()) || !so.exists() {
            machinery(&format!("cannot build {} (gcc missing?)", so.display()));
        }
    }
    so
}

fn run_child(shim: &PathBuf, args: &[String], env: &Env) -> ChildOut {
    let exe = std::env::current_exe().unwrap_or_else(|e| machinery(&format!("current_exe: {e}")));
    // the two clock environments also differ in everything else a process inherits: logging / thread-pool / time-zone
    // variables (values of equal length, so the stack layout stays the same), the working directory and the CPUs it
    // may run on (std::thread::available_parallelism follows the affinity mask)
    // environment 1 runs on 3 CPUs, environment 0 on all of them (both through taskset, CPU lists of equal length, so
    // that the two process images are laid out identically); without taskset or with < 4 CPUs: no affinity dimension
    let ncpu = std::thread::available_parallelism().map(|n| n.get()).unwrap_or(1);
    let mut cmd = if ncpu >= 4 && std::path::Path::new("/usr/bin/taskset").exists() {
        let last = (ncpu - 1).to_string();
        let cpus = if env.off == 1 { format!("0-{:0w$}", 2, w = last.len()) } else { format!("0-{last}") };
        let mut c = Proc::new("/usr/bin/taskset");
        c.args(["-c", &cpus]).arg(&exe);
        c
    } else {
        Proc::new(&exe)
    };
    let out = cmd
        .args(args)
        .env_clear()
        .env("LD_PRELOAD", shim)
        .env("VERIF_RANDOM_KEY", KEYS[env.key])
        .env("VERIF_CLOCK_OFFSET", OFFSETS[env.off])
        .env("VERIF_CLOCK_SCALE", SCALES[env.off])
        .env("VERIF_NO_ASLR", "1")
        .envs(ENV_VARS.iter().map(|(k, v)| (*k, v[env.off])))
        .current_dir(ENV_DIRS[env.off])
        .stdin(Stdio::null())
        .output()
        .unwrap_or_else(|e| machinery(&format!("cannot spawn child: {e}")));
    let text = String::from_utf8_lossy(&out.stdout);
    if !out.status.success() || !text.ends_with("END\n") {
        machinery(&format!(
            "child {:?} under [{}] ended with {:?} without a complete report; stderr: {}",
            args,
            env.label(),
            out.status,
            String::from_utf8_lossy(&out.stderr).chars().take(600).collect::<String>()
        ));
    }
    let mut c = ChildOut { r1: Vec::new(), r2: Vec::new(), r3: Vec::new(), r4: Vec::new(), meta: BTreeMap::new() };
    for l in text.lines() {
        let mut it = l.splitn(3, '\t');
        let (tag, k, v) = (it.next().unwrap_or(""), it.next().unwrap_or(""), it.next().unwrap_or(""));
        match tag {
            "R1" => c.r1.push((k.to_string(), wire_unesc(v))),
            "R2" => c.r2.push((k.to_string(), wire_unesc(v))),
            "R3" => c.r3.push((k.to_string(), wire_unesc(v))),
            "R4" => c.r4.push((k.to_string(), wire_unesc(v))),
            "M" => {
                c.meta.insert(k.to_string(), v.to_string());
            }
            _ => {}
        }
    }
    if c.meta.get("shim_loaded").map(|s| s.as_str()) != Some("1") {
        machinery("the LD_PRELOAD shim was not active in a child");
    }
    c
}

fn get<'a>(f: &'a Fields, name: &str) -> Option<&'a str> {
    f.iter().find(|(k, _)| k == name).map(|(_, v)| v.as_str())
}

/// Human-readable first difference of two field values (element = line).
fn first_diff(a: Option<&str>, b: Option<&str>) -> String {
    let (a, b) = match (a, b) {
        (Some(a), Some(b)) => (a, b),
        (a, b) => return format!("field present: {} vs {}", a.is_some(), b.is_some()),
    };
    let (la, lb): (Vec<&str>, Vec<&str>) = (a.lines().collect(), b.lines().collect());
    for i in 0..la.len().max(lb.len()) {
        let (x, y) = (la.get(i).copied().unwrap_or("<absent>"), lb.get(i).copied().unwrap_or("<absent>"));
        if x != y {
            let cut = |s: &str| s.chars().take(300).collect::<String>();
            return format!("element #{i} of {}/{}: `{}` vs `{}`", la.len(), lb.len(), cut(x), cut(y));
        }
    }
    "values differ only in line terminators".to_string()
}

#[derive(Clone)]
struct Case {
    h: &'static str,
    p: &'static str,
    seed: u64,
}

#[derive(Clone, Debug)]
struct Finding {
    dim: &'static str,
    field: String,
    all_fields: Vec<String>,
    a: Env,
    b: Env,
    /// run index on side b (2 for rerun, else 1)
    run_b: u8,
    diff: String,
}

struct CaseReport {
    findings: Vec<Finding>,
    children: u64,
    ops: bool,
    digest: u64,
    getrandom_calls_min: u64,
    clock_reads: u64,
    aslr_off: bool,
}

fn fnv(s: &str, mut h: u64) -> u64 {
    for b in s.bytes() {
        h ^= b as u64;
        h = h.wrapping_mul(0x100000001b3);
    }
    h
}

/// Field names in canonical order (order of first appearance over all outputs).
fn field_order(outs: &[(Env, ChildOut)]) -> Vec<String> {
    let mut names: Vec<String> = Vec::new();
    for (_, c) in outs {
        for f in [&c.r1, &c.r2] {
            for (k, _) in f {
                if !names.contains(k) {
                    names.push(k.clone());
                }
            }
        }
    }
    names
}

fn compare(outs: &[(Env, ChildOut)]) -> Vec<Finding> {
    let names = field_order(outs);
    let find = |k: usize, o: usize, rep: bool| outs.iter().find(|(e, _)| e.key == k && e.off == o && e.repeat == rep);
    // per dimension: list of (field, witness pair)
    let mut per_dim: BTreeMap<&'static str, Vec<(String, Env, Env, u8)>> = BTreeMap::new();
    // process-repeat: identical environment, other process. If anything differs there, E does not own
    // this case's nondeterminism and differences between environments cannot be attributed to a
    // dimension of E: hash-key / clock are then not reported for the case.
    let mut uncontrolled = false;
    if let (Some((e0, c0)), Some((er, cr))) = (find(0, 0, false), find(0, 0, true)) {
        for f in &names {
            if get(&c0.r1, f) != get(&cr.r1, f) {
                uncontrolled = true;
                per_dim.entry("process-repeat").or_default().push((f.clone(), e0.clone(), er.clone(), 1));
            }
        }
    }
    for f in &names {
        if !uncontrolled {
            // hash-key: same clock offset, different key
            'hk: for o in 0..OFFSETS.len() {
                for k1 in 0..KEYS.len() {
                    for k2 in (k1 + 1)..KEYS.len() {
                        if let (Some((ea, ca)), Some((eb, cb))) = (find(k1, o, false), find(k2, o, false)) {
                            if get(&ca.r1, f) != get(&cb.r1, f) {
                                per_dim.entry("hash-key").or_default().push((f.clone(), ea.clone(), eb.clone(), 1));
                                break 'hk;
                            }
                        }
                    }
                }
            }
            // clock: same key, different offset
            for k in 0..KEYS.len() {
                if let (Some((ea, ca)), Some((eb, cb))) = (find(k, 0, false), find(k, 1, false)) {
                    if get(&ca.r1, f) != get(&cb.r1, f) {
                        per_dim.entry("clock+env").or_default().push((f.clone(), ea.clone(), eb.clone(), 1));
                        break;
                    }
                }
            }
        }
        // rerun: second run in the same process
        for (e, c) in outs {
            if get(&c.r1, f) != get(&c.r2, f) {
                per_dim.entry("rerun").or_default().push((f.clone(), e.clone(), e.clone(), 2));
                break;
            }
        }
        // predecessor: fourth run, after a complete run of another preset
        for (e, c) in outs {
            if !c.r4.is_empty() && get(&c.r1, f) != get(&c.r4, f) {
                per_dim.entry("after-another-preset").or_default().push((f.clone(), e.clone(), e.clone(), 4));
                break;
            }
        }
        // overlapping lifetimes: third run, started next to a living older instance of another preset
        for (e, c) in outs {
            if !c.r3.is_empty() && get(&c.r1, f) != get(&c.r3, f) {
                per_dim.entry("overlapping-lifetimes").or_default().push((f.clone(), e.clone(), e.clone(), 3));
                break;
            }
        }
    }
    let mut out = Vec::new();
    for (dim, v) in per_dim {
        let (field, a, b, run_b) = v[0].clone();
        let ca = &outs.iter().find(|(e, _)| *e == a).unwrap().1;
        let cb = &outs.iter().find(|(e, _)| *e == b).unwrap().1;
        let vb = if run_b == 4 { get(&cb.r4, &field) } else if run_b == 3 { get(&cb.r3, &field) } else if run_b == 2 { get(&cb.r2, &field) } else { get(&cb.r1, &field) };
        out.push(Finding {
            dim,
            diff: first_diff(get(&ca.r1, &field), vb),
            field,
            all_fields: v.iter().map(|x| x.0.clone()).collect(),
            a,
            b,
            run_b,
        });
    }
    out
}

fn run_case(shim: &PathBuf, c: &Case, es: &[Env]) -> CaseReport {
    let args = vec!["--child".to_string(), c.h.to_string(), c.p.to_string(), c.seed.to_string()];
    let mut outs: Vec<(Env, ChildOut)> = es.iter().map(|e| (e.clone(), run_child(shim, &args, e))).collect();
    // one more process in the first environment: the same run right after a complete run of another preset
    {
        let mut pre_args = args.clone();
        pre_args.push("pre".to_string());
        let pre = run_child(shim, &pre_args, &es[0]);
        outs[0].1.r4 = pre.r4;
    }
    let findings = compare(&outs);
    let c0 = &outs[0].1;
    let mut digest = 0xcbf29ce484222325u64;
    for (k, v) in &c0.r1 {
        if k != "result.seed" {
            digest = fnv(v, fnv(k, digest));
        }
    }
    let m = |c: &ChildOut, k: &str| c.meta.get(k).and_then(|s| s.parse::<u64>().ok()).unwrap_or(0);
    CaseReport {
        findings,
        children: outs.len() as u64,
        // non-trivial: the run did something observable (a non-empty trace, or a non-zero operation counter)
        ops: get(&c0.r1, "trace").map(|t| !t.is_empty()).unwrap_or(false)
            || c0.r1.iter().any(|(k, v)| (k.ends_with("total_operations") || k.ends_with("total_writes")) && v != "0"),
        digest,
        getrandom_calls_min: outs.iter().map(|(_, c)| m(c, "getrandom_calls")).min().unwrap_or(0),
        clock_reads: outs.iter().map(|(_, c)| m(c, "clock_reads_shifted")).sum(),
        aslr_off: outs.iter().all(|(_, c)| c.meta.get("aslr").map(|s| s == "off").unwrap_or(false)),
    }
}

fn signature(c: &Case, f: &Finding) -> String {
    format!("nondeterministic {}/{} {} {}", c.h, c.p, f.dim, f.field)
}

fn replay_json(c: &Case, f: &Finding) -> J {
    json!({"harness": c.h, "preset": c.p, "seed": c.seed, "dimension": f.dim, "field": f.field,
           "env_a": f.a.to_json(), "env_b": f.b.to_json(), "run_b": f.run_b,
           "how": "c20 --child <harness> <preset> <seed> under LD_PRELOAD=/verif/selfcomp/shim.so VERIF_NO_ASLR=1 VERIF_RANDOM_KEY=<key> VERIF_CLOCK_OFFSET=<off> VERIF_CLOCK_SCALE=<1|40>; compare field of run R1 in env_a with run R<run_b> in env_b"})
}

/// Verifies on every run that the shim owns what E claims. Returns evidence JSON.
fn verify_shim(shim: &PathBuf) -> J {
    let args = vec!["--probe".to_string()];
    let es = envs();
    let outs: Vec<(Env, ChildOut)> = es.iter().map(|e| (e.clone(), run_child(shim, &args, e))).collect();
    let val = |k: usize, o: usize, rep: bool, f: &str| -> String {
        outs.iter().find(|(e, _)| e.key == k && e.off == o && e.repeat == rep).and_then(|(_, c)| get(&c.r1, f)).unwrap_or("").to_string()
    };
    let mut problems: Vec<String> = Vec::new();
    let aslr_off = outs.iter().all(|(_, c)| c.meta.get("aslr").map(|s| s == "off").unwrap_or(false));
    for f in ["std_hashmap_order", "std_hashset_order", "ahash_set_order", "ahash_set_order_second_map"] {
        let distinct: BTreeSet<String> = (0..KEYS.len()).map(|k| val(k, 0, false, f)).collect();
        if distinct.len() != KEYS.len() {
            problems.push(format!("{f}: only {} distinct orders under {} keys", distinct.len(), KEYS.len()));
        }
        for k in 0..KEYS.len() {
            if val(k, 0, false, f) != val(k, 1, false, f) {
                problems.push(format!("{f}: differs between clock offsets under the same key {k}"));
            }
        }
        if val(0, 0, false, f) != val(0, 0, true, f) {
            problems.push(format!("{f}: differs between two processes with the same key (key does not determine the order; ASLR off = {aslr_off})"));
        }
    }
    for k in 0..KEYS.len() {
        let (d0, d1) = (val(k, 0, false, "realtime_day").parse::<i64>().unwrap_or(0), val(k, 1, false, "realtime_day").parse::<i64>().unwrap_or(0));
        if d1 - d0 != 3 {
            problems.push(format!("SystemTime::now() day differs by {} instead of 3 between the clock offsets", d1 - d0));
        }
    }
    for f in ["addr_static", "addr_heap"] {
        let distinct: BTreeSet<String> = outs.iter().map(|(_, c)| get(&c.r1, f).unwrap_or("").to_string()).collect();
        if distinct.len() != 1 {
            problems.push(format!("{f}: {} distinct addresses over the environments (ASLR not off)", distinct.len()));
        }
    }
    if !problems.is_empty() {
        machinery(&format!("the LD_PRELOAD shim does not own the environment: {}", problems.join("; ")));
    }
    let unordered: BTreeMap<String, bool> = ["executor_smembers", "executor_hgetall", "executor_spop", "executor_randomkey"]
        .iter()
        .map(|f| (f.to_string(), (0..KEYS.len()).map(|k| val(k, 0, false, f)).collect::<BTreeSet<_>>().len() > 1))
        .collect();
    json!({
        "verified": true,
        "checks": "under the 4 keys the iteration orders of std HashMap<u32,u32>, std HashSet<String>, ahash AHashSet<String> (first and second map of the process) over 12 elements are 4 pairwise different orders; identical across the 2 clock offsets and in a second process with the same key; SystemTime::now() differs by exactly 3 days between the offsets; address of a static and of a heap box identical in all 9 children (ASLR off)",
        "sample": {
            "std_hashmap_order key0": val(0, 0, false, "std_hashmap_order"),
            "std_hashmap_order key0 (other process)": val(0, 0, true, "std_hashmap_order"),
            "std_hashmap_order key1": val(1, 0, false, "std_hashmap_order"),
            "ahash_set_order key0": val(0, 0, false, "ahash_set_order"),
            "ahash_set_order key1": val(1, 0, false, "ahash_set_order"),
            "realtime_day offset0/offset1": format!("{}/{}", val(0, 0, false, "realtime_day"), val(0, 1, false, "realtime_day")),
            "getrandom calls served in probe": outs[0].1.meta.get("getrandom_calls"),
        },
        "observation_not_a_violation": {
            "what": "CommandExecutor replies whose order/choice Redis leaves unspecified follow the ahash map order, i.e. vary with the hash key (true = varied over the 4 keys); no built-in harness puts them into a trace unsorted",
            "varies_with_hash_key": unordered,
        },
    })
}

fn main() {
    let argv: Vec<String> = std::env::args().collect();
    if argv.len() >= 5 && argv[1] == "--child" {
        child_main(&argv[2..]);
    }
    if argv.len() >= 2 && argv[1] == "--probe" {
        probe_main();
    }
    let args = cli::parse_args();
    vh::quiet_panics();
    let shim = shim_path();

    if let Some(path) = &args.replay {
        let r = vh::report::load_replay(path);
        let (h, p, seed) = (r["harness"].as_str().unwrap_or(""), r["preset"].as_str().unwrap_or(""), r["seed"].as_u64().unwrap_or(0));
        let field = r["field"].as_str().unwrap_or("").to_string();
        let (ea, eb) = (Env::from_json(&r["env_a"]), Env::from_json(&r["env_b"]));
        let run_b = r["run_b"].as_u64().unwrap_or(1);
        let cargs = vec!["--child".to_string(), h.to_string(), p.to_string(), seed.to_string()];
        let ca = run_child(&shim, &cargs, &ea);
        let cb = run_child(&shim, &cargs, &eb);
        let va = get(&ca.r1, &field);
        let vb = if run_b == 4 { get(&cb.r4, &field) } else if run_b == 3 { get(&cb.r3, &field) } else if run_b == 2 { get(&cb.r2, &field) } else { get(&cb.r1, &field) };
        println!("{h}/{p} seed {seed}: field `{field}` of run 1 under [{}] vs run {run_b} under [{}]", ea.label(), eb.label());
        if va != vb {
            println!("{}", first_diff(va, vb));
            println!("VIOLATION property=C20 replay={} (nondeterministic {h}/{p} {} {field})", path.display(), r["dimension"].as_str().unwrap_or("?"));
            std::process::exit(1);
        }
        println!("replay: identical");
        std::process::exit(0);
    }

    let rep = Reporter::new("C20", "exploration", &args);
    let shim_evidence = verify_shim(&shim);

    let only = args.flag("--only").map(|s| s.to_string());
    let seeds_override = args.flag("--seeds").and_then(|s| s.parse::<u64>().ok());
    let mut cases: Vec<Case> = Vec::new();
    for hd in HARNESSES {
        if let Some(o) = &only {
            if hd.name != o {
                continue;
            }
        }
        let s = seeds_override.unwrap_or(if args.tier == Tier::Quick { hd.seeds.0 } else { hd.seeds.1 });
        for p in hd.presets {
            for seed in 0..s {
                cases.push(Case { h: hd.name, p, seed });
            }
        }
    }
    // Slow (real-clock) cases first and one per work unit (par_map chunks by len/(8n): a stage of
    // <= 128 items has chunk 1), then the fast bulk. VERIF_SEED only rotates the visiting order.
    let (mut slow, mut fast): (Vec<Case>, Vec<Case>) = cases.into_iter().partition(|c| c.h.ends_with("_realtime"));
    for v in [&mut slow, &mut fast] {
        if !v.is_empty() {
            let r = (args.seed as usize) % v.len();
            v.rotate_left(r);
        }
    }
    let es = envs();
    let workers = par::workers().min(16);
    let mut reports = Vec::new();
    for stage in slow.chunks(128) {
        reports.extend(par::par_map_n(workers, stage, |_, c| run_case(&shim, c, &es)));
    }
    reports.extend(par::par_map_n(workers, &fast, |_, c| run_case(&shim, c, &es)));
    let cases: Vec<Case> = slow.into_iter().chain(fast).collect();

    let mut children = 0u64;
    let mut nontrivial: BTreeSet<(String, String, u64)> = BTreeSet::new();
    let mut per_harness: BTreeMap<String, (u64, u64, u64, u64, BTreeSet<u64>)> = BTreeMap::new();
    let mut aslr_off = true;
    let mut violating_cases = 0u64;
    for (c, r) in cases.iter().zip(reports.iter()) {
        children += r.children;
        aslr_off &= r.aslr_off;
        if r.ops {
            nontrivial.insert((c.h.to_string(), c.p.to_string(), r.digest));
        }
        let e = per_harness.entry(c.h.to_string()).or_insert((0, u64::MAX, 0, 0, BTreeSet::new()));
        e.0 += 1;
        e.1 = e.1.min(r.getrandom_calls_min);
        e.2 += r.clock_reads;
        e.4.insert(r.digest);
        if !r.findings.is_empty() {
            violating_cases += 1;
            e.3 += 1;
        }
        for f in &r.findings {
            let detail = format!(
                "{}/{} seed {}: field `{}` differs in dimension {} between [{}] run 1 and [{}] run {}: {}; all fields differing in this dimension for this seed: {:?}",
                c.h, c.p, c.seed, f.field, f.dim, f.a.label(), f.b.label(), f.run_b, f.diff, f.all_fields
            );
            rep.violation(signature(c, f), detail, replay_json(c, f));
        }
    }
    if !aslr_off {
        rep.note("ASLR could not be switched off in the children: the address-derived part of ahash seeds was not owned in this run");
    }
    let harness_table: Vec<J> = HARNESSES
        .iter()
        .filter(|hd| per_harness.contains_key(hd.name))
        .map(|hd| {
            let e = &per_harness[hd.name];
            json!({"harness": hd.name, "entry": hd.entry, "presets": hd.presets,
                   "seeds_per_preset": e.0 / hd.presets.len() as u64, "cases": e.0,
                   "distinct_outputs_in_e0": e.4.len(),
                   "min_getrandom_calls_served_per_child": e.1,
                   "realtime_clock_reads_shifted_total": e.2,
                   "cases_with_a_difference": e.3})
        })
        .collect();
    let samples: Vec<J> = cases
        .iter()
        .step_by((cases.len() / 5).max(1))
        .take(5)
        .map(|c| json!(format!("{}/{} seed {} under {} environments + same-process rerun", c.h, c.p, c.seed, es.len())))
        .collect();
    let coverage = json!({
        "evaluations": children * 2,
        "distinct_nontrivial": nontrivial.len(),
        "rule": "every (harness entry point, preset configuration, seed in [0,S)) is executed in 9 child processes (4 hash keys x 2 wall-clock offsets, plus a repetition of e0), twice per process; evaluations = harness executions compared (children x 2). Every field (trace, sorted final state, result fields, verdict) is compared byte for byte along 17 comparisons per case that connect all 9 outputs (all 6 key pairs under each of the 2 offsets, both offsets under each of the 4 keys, e0 against its repetition); equality is transitive, so these decide all 36 environment pairs and attribute a difference to the dimension that produces it; plus run 1 against run 2 inside each of the 9 processes. A case is non-trivial when its run executed operations (non-empty trace or non-zero operation counter); distinct_nontrivial counts the distinct canonical outputs (seed field excluded) among non-trivial cases in e0, i.e. how many genuinely different simulations were compared",
        "cases": cases.len(),
        "child_processes": children,
        "environments": es.iter().map(|e| e.label()).collect::<Vec<_>>(),
        "environment_pairs_per_case": es.len() * (es.len() - 1) / 2,
        "cases_with_a_difference": violating_cases,
        "harnesses": harness_table,
        "shim_verification": shim_evidence,
        "stripped_fields": [],
        "stripped_fields_note": "nothing is stripped: no result struct of the covered harnesses carries a wall-clock duration or an address (checked field by field in the sources: all time fields are VirtualTime / Lamport / simulated ms); HashMap-typed result fields (CRDTDSTResult.ops_per_replica, SimulationResult.operations_by_type, BuggifyStats.checks/triggers, CrashStats.crashes_by_reason) are rendered sorted by key because a map has no order to reproduce",
        "samples": samples,
        "exhaustive": true,
        "partial_run_filter": only.clone().map(J::from).unwrap_or(J::Null),
        "seeds_bound": if args.tier == Tier::Quick { "S=8 for every harness and preset; the real-clock variants of streaming/compaction are thorough-only" } else { "S=64 for every harness and preset; real-clock variants streaming_realtime/compaction_realtime: 4 seeds x 2 presets (about 13 s per child)" },
    });
    rep.finish(
        coverage,
        vec![
            "E is owned through /verif/selfcomp/shim.so (verified at the start of every run, see coverage.shim_verification): getrandom/SYS_getrandom//dev/urandom answered from VERIF_RANDOM_KEY, realtime clocks shifted by VERIF_CLOCK_OFFSET and, in the shifted environments, every wall/monotonic clock sped up 40x by VERIF_CLOCK_SCALE (elapsed-time dependence), ASLR off; the shifted environments also get different RUST_LOG / RUST_BACKTRACE / RAYON_NUM_THREADS / TOKIO_WORKER_THREADS / TZ / HOME values, another working directory, a 3-CPU affinity mask instead of 16 CPUs, and run with a TRACE-level tracing subscriber installed (output discarded). The hash-key dimension is 4 chosen keys, not all iteration orders a map can take; seeds >= S are outside the bound".into(),
            "ahash (runtime-rng) mixes into every RandomState, besides the 64 getrandom bytes (owned), a counter advanced by the address of a heap box and started at the address of a static: with ASLR off and an empty environment these addresses are the same in all children (verified), so they are fixed, not enumerated; the same-process second run does see advanced ahash counters and std RandomState keys (k0+1 per map). Orders of ahash maps are therefore a function of (key, binary layout): reproducible for a given build of this binary, possibly different after a rebuild; orders of std maps depend on the key only".into(),
            "monotonic clocks are not shifted (std::time::Instant exposes differences only; shifting breaks absolute-deadline futex waits); the rate of time is not varied, so a decision on elapsed real time (none found in the harness paths: WriteBuffer/StreamingPersistence::should_flush is never called by the DST harnesses) would not be exercised".into(),
            "the async harnesses (streaming, compaction) run on a current-thread tokio runtime with the clock paused (their store latency is a real tokio::time::sleep of up to 100 ms per call; paused time auto-advances); thread scheduling is therefore not a dimension. Fewer operations than the presets' max_operations (300 / 200)".into(),
            "harnesses that only exist as toolkits (MultiNodeSimulation, ScenarioBuilder/SimulationHarness, Simulation event queue, SimulatedConnection) are driven by fixed scripts of this check that draw only from the simulation's own seeded rng and use only commands whose replies Redis orders; the scripts are part of the trusted base".into(),
            "not covered: security::acl_dst (compiled only with feature `acl`, which needs sha2, absent from /verif/mc/Cargo.lock and it would change AclManager for every other check); feature `simulation` is off as in the harness build (with it, SimulatedConnection::send_command/process draw from ProductionRng, i.e. OS randomness)".into(),
            "harnesses are stepped with run(1) x N where an operation trace is only exposed as last_op; run(n) is the same loop (read in the sources: no prologue/epilogue besides ExecutorDSTHarness re-setting the unchanged current time)".into(),
        ],
    );
}
