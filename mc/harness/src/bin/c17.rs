//! C17 — a command that fails changes nothing; a read-only command changes nothing.
//! Exhaustive over (reachable keyspace state, command instance) pairs on the real executor.
use redis_sim::redis::{Command, CommandExecutor, RespValue};
use redis_sim::simulator::VirtualTime;
use serde_json::json;
use std::collections::{BTreeMap, BTreeSet};
use vh::cmdgen::{self, Profile};
use vh::dump::{self, Keyspace};
use vh::resp::{self, Argv};
use vh::{cli, par, Reporter, Tier};

const NOW_MS: u64 = 5_000;

fn seed_alphabet() -> Vec<Argv> {
    let mut v = Vec::new();
    for k in ["k1", "k2"] {
        for t in [
            "SET {k} a",
            "SET {k} \"\"",
            "SET {k} 10",
            "SET {k} 9223372036854775807",
            "SET {k} -9223372036854775808",
            "SET {k} a PX 100000",
            // one millisecond from its deadline: whatever moves the executor's clock, however little, removes it
            "SET {k} a PX 1",
            "SET {k} 1.5",
            // a float close to the largest finite one: an increment can push it over
            "SET {k} 1.7e308",
            "RPUSH {k} a",
            "RPUSH {k} a b",
            "SADD {k} a",
            "SADD {k} a b",
            "HSET {k} a 1",
            "HSET {k} a x b 9223372036854775807",
            "ZADD {k} 1 a",
            "ZADD {k} 1 a 2 b",
            "EXPIRE {k} 100",
        ] {
            v.push(resp::line(&t.replace("{k}", k)));
        }
    }
    v
}

fn exec_argv(ex: &mut CommandExecutor, a: &Argv) -> RespValue {
    match resp::parse(a) {
        Ok(cmd) => {
            ex.set_time(VirtualTime::from_millis(NOW_MS));
            ex.execute(&cmd)
        }
        Err(e) => RespValue::Error(format!("PARSE {e}").into()),
    }
}

fn build(seed: &[Argv]) -> CommandExecutor {
    let mut ex = CommandExecutor::new();
    for a in seed {
        exec_argv(&mut ex, a);
    }
    ex
}

fn snapshot(ex: &mut CommandExecutor) -> Keyspace {
    dump::dump_via(|a| exec_argv(ex, a))
}

struct CaseResult {
    executed: bool,
    checked: bool,
    changed: bool,
}

/// Run one (state, instance) pair. Returns what happened; reports a violation if any.
fn run_case(
    rep: Option<&Reporter>,
    seed: &[Argv],
    before: &Keyspace,
    ex: &mut CommandExecutor,
    inst: &Argv,
) -> (CaseResult, Option<(String, String)>) {
    let cmd = match resp::parse(inst) {
        Ok(c) => c,
        Err(_) => {
            return (
                CaseResult {
                    executed: false,
                    checked: false,
                    changed: false,
                },
                None,
            )
        }
    };
    ex.set_time(VirtualTime::from_millis(NOW_MS));
    let reply = match std::panic::catch_unwind(std::panic::AssertUnwindSafe(|| ex.execute(&cmd))) {
        Ok(r) => r,
        Err(_) => {
            let sig = format!("panic {}", cmd.name());
            let detail = format!("state after [{}]: {} panicked", show_seed(seed), resp::show_argv(inst));
            if let Some(r) = rep {
                r.violation(sig.clone(), detail.clone(), replay_json(seed, inst));
            }
            *ex = build(seed);
            return (
                CaseResult {
                    executed: true,
                    checked: true,
                    changed: true,
                },
                Some((sig, detail)),
            );
        }
    };
    // transactional state is connection state, not keyspace: leave MULTI mode again
    if matches!(cmd, Command::Multi) {
        ex.execute(&Command::Discard);
    }
    let after = snapshot(ex);
    let must_not_change = resp::is_err(&reply) || cmd.is_read_only();
    let d = dump::diff(before, &after);
    let mut viol = None;
    if must_not_change {
        if let Some((kind, desc)) = &d {
            let reason = if resp::is_err(&reply) { "error-reply" } else { "read-only" };
            // which argument position names the key that changed (canonical, value independent)
            let changed_key: Vec<u8> = desc.split(' ').nth(1).map(resp::unescape).unwrap_or_default();
            let pos = inst.iter().position(|t| *t == changed_key).map(|p| format!("arg{p}")).unwrap_or_else(|| "other-key".into());
            let what = if kind == "ttl" { "ttl" } else { "content" };
            let sig = format!(
                "{} {} reply={} changed={}:{}",
                reason,
                cmd.name(),
                resp::kind(&reply),
                pos,
                what
            );
            let detail = format!(
                "state after [{}] = {{{}}}; command `{}` replied {} yet keyspace changed: {}",
                show_seed(seed),
                dump::show_keyspace(before),
                resp::show_argv(inst),
                resp::show(&reply),
                desc
            );
            if let Some(r) = rep {
                r.violation(sig.clone(), detail.clone(), replay_json(seed, inst));
            }
            viol = Some((sig, detail));
        }
    }
    let changed = d.is_some();
    if changed {
        *ex = build(seed);
    }
    (
        CaseResult {
            executed: true,
            checked: must_not_change,
            changed,
        },
        viol,
    )
}

fn show_seed(seed: &[Argv]) -> String {
    seed.iter().map(resp::show_argv).collect::<Vec<_>>().join("; ")
}

fn replay_json(seed: &[Argv], inst: &Argv) -> serde_json::Value {
    json!({
        "seed_ops": seed.iter().map(resp::argv_json).collect::<Vec<_>>(),
        "now_ms": NOW_MS,
        "command": resp::argv_json(inst),
    })
}

vh::use_jemalloc!();

fn main() {
    let args = cli::parse_args();
    vh::quiet_panics();
    if let Some(path) = &args.replay {
        let r = vh::report::load_replay(path);
        let seed: Vec<Argv> = r["seed_ops"].as_array().map(|a| a.iter().map(resp::argv_from_json).collect()).unwrap_or_default();
        let inst = resp::argv_from_json(&r["command"]);
        let mut ex = build(&seed);
        let before = snapshot(&mut ex);
        println!("state: {}", dump::show_keyspace(&before));
        let (_, v) = run_case(None, &seed, &before, &mut ex, &inst);
        match v {
            Some((sig, detail)) => {
                println!("{detail}");
                println!("VIOLATION property=C17 replay={} ({sig})", path.display());
                std::process::exit(1);
            }
            None => {
                println!("replay: no violation");
                std::process::exit(0);
            }
        }
    }
    let rep = Reporter::new("C17", "exploration", &args);

    // 1. reachable keyspace states (depth <= 2 over the seeding alphabet), deduplicated by dump
    let alpha = seed_alphabet();
    let depth = 2;
    let mut states: BTreeMap<String, Vec<Argv>> = BTreeMap::new();
    let mut frontier: Vec<Vec<Argv>> = vec![vec![]];
    states.insert("<empty>".into(), vec![]);
    for _ in 0..depth {
        let mut next = Vec::new();
        for s in &frontier {
            for a in &alpha {
                let mut h = s.clone();
                h.push(a.clone());
                let mut ex = build(&h);
                let key = dump::show_keyspace(&snapshot(&mut ex));
                if !states.contains_key(&key) {
                    states.insert(key, h.clone());
                    next.push(h);
                }
            }
        }
        frontier = next;
    }
    let mut state_list: Vec<Vec<Argv>> = states.values().cloned().collect();
    state_list.sort_by_key(|s| (s.len(), s.clone()));
    if args.tier == Tier::Quick {
        // quick: empty, all single-step states, two-step states whose two ops touch different keys, and every value
        // of every type with a TTL on it (second op = EXPIRE of the same key)
        state_list.retain(|s| s.len() < 2 || s[0][1] != s[1][1] || s[1][0] == b"EXPIRE");
    }

    // 1b. configuration states: every numeric server parameter (as listed by CONFIG GET *) set to 1, alone and in
    // front of every single-step seed of key k1 - a limit read from the configuration can turn an ordinary
    // command into a failing one
    let config_params: Vec<String> = {
        let mut ex = CommandExecutor::new();
        let r = exec_argv(&mut ex, &resp::line("CONFIG GET *"));
        let flat = dump::bulk_items(&r).unwrap_or_default();
        flat.chunks(2)
            .filter(|c| c.len() == 2 && String::from_utf8_lossy(&c[1]).parse::<i64>().is_ok())
            .map(|c| String::from_utf8_lossy(&c[0]).to_string())
            .collect()
    };
    let k1_seeds: Vec<Vec<Argv>> = std::iter::once(vec![]).chain(alpha.iter().filter(|a| a[1] == b"k1").map(|a| vec![a.clone()])).collect();
    let mut config_states = 0usize;
    for p in &config_params {
        for tail in &k1_seeds {
            let mut st = vec![resp::line(&format!("CONFIG SET {p} 1"))];
            st.extend(tail.iter().cloned());
            state_list.push(st);
            config_states += 1;
        }
    }

    // 1c. a value of every type WITH a TTL on one key next to a value of every type on the other key (three seeding
    // ops): a two-key command that fails on the second key must leave the first key's deadline alone too
    let mut ttl_pair_states = 0usize;
    for (a, b) in [("k1", "k2"), ("k2", "k1")] {
        for sa in alpha.iter().filter(|x| x[1] == a.as_bytes() && x[0] != b"EXPIRE") {
            for sb in alpha.iter().filter(|x| x[1] == b.as_bytes() && x[0] != b"EXPIRE") {
                state_list.push(vec![sa.clone(), resp::line(&format!("EXPIRE {a} 100")), sb.clone()]);
                ttl_pair_states += 1;
            }
        }
    }

    // 2. command instances
    let instances = cmdgen::all_instances(if args.tier == Tier::Thorough { Profile::Rich } else { Profile::Small });

    // 3. every pair
    let results = par::par_map(&state_list, |_, seed| {
        let mut ex = build(seed);
        let before = snapshot(&mut ex);
        let (mut executed, mut checked, mut changed, mut parsed_err) = (0u64, 0u64, 0u64, 0u64);
        let mut names_checked: BTreeSet<String> = BTreeSet::new();
        for inst in &instances {
            let (r, _) = run_case(Some(&rep), seed, &before, &mut ex, inst);
            if r.executed {
                executed += 1;
            } else {
                parsed_err += 1;
            }
            if r.checked {
                checked += 1;
                names_checked.insert(String::from_utf8_lossy(&inst[0]).to_uppercase());
            }
            if r.changed {
                changed += 1;
            }
        }
        (executed, checked, changed, parsed_err, names_checked)
    });
    let mut executed = 0;
    let mut checked = 0;
    let mut changed = 0;
    let mut parse_err = 0;
    let mut names: BTreeSet<String> = BTreeSet::new();
    for (e, c, ch, p, n) in results {
        executed += e;
        checked += c;
        changed += ch;
        parse_err += p;
        names.extend(n);
    }
    let samples: Vec<serde_json::Value> = state_list
        .iter()
        .step_by((state_list.len() / 4).max(1))
        .take(4)
        .zip(instances.iter().step_by((instances.len() / 4).max(1)))
        .map(|(s, i)| json!({"state_ops": show_seed(s), "command": resp::show_argv(i)}))
        .collect();
    let coverage = json!({
        "evaluations": executed,
        "distinct_nontrivial": checked,
        "rule": "every pair (keyspace state reachable in <=2 seeding ops over both keys and all five types, with/without TTL, integers at i64 limits) x (command instance from the template product over the full command set incl. stubs, two-key commands and single-call EVAL scripts); a pair is non-trivial (counted in distinct_nontrivial) when the command parsed and replied with an error or is classified is_read_only(), i.e. the oracle 'visible keyspace unchanged' was actually evaluated; all pairs are distinct by construction",
        "states": state_list.len(),
        "states_with_a_configuration_parameter_set_to_1": config_states,
        "states_with_a_ttl_value_on_one_key_and_a_value_on_the_other": ttl_pair_states,
        "command_instances": instances.len(),
        "pairs": state_list.len() as u64 * instances.len() as u64,
        "pairs_rejected_by_parser": parse_err,
        "pairs_executed": executed,
        "pairs_where_oracle_applied": checked,
        "pairs_where_keyspace_changed": changed,
        "command_names_with_oracle_applied": names.len(),
        "samples": samples,
        "exhaustive": true,
    });
    rep.finish(
        coverage,
        vec![
            "visible keyspace = KEYS */TYPE/full value/PTTL observed through the command interface at a fixed instant".into(),
            "multi-statement scripts that fail after a write are excluded (Redis does not roll those back either)".into(),
            "executor driven as on the simulation path: set_time(now) then execute".into(),
        ],
    );
}
