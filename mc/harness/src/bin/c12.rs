//! C12 — streaming persistence is crash-consistent at every step and loses nothing confirmed.
//! CRASHX: workloads of push/flush/compact on the real StreamingPersistence + Compactor over a
//! logging object store x fault plans x every crash prefix of the store-operation log, recovered
//! with the real RecoveryManager.
use redis_sim::redis::SDS;
use redis_sim::replication::lattice::{LamportClock, ReplicaId};
use redis_sim::replication::state::{ReplicatedValue, ReplicationDelta};
use redis_sim::streaming::{
    CompactionConfig, Compactor, ManifestManager, RecoveryManager, SimulatedClock, StreamingPersistence, WriteBuffer, WriteBufferConfig,
};
use serde_json::json;
use std::collections::BTreeSet;
use std::sync::atomic::{AtomicU64, Ordering};
use std::sync::Arc;
use std::time::Duration;
use vh::shardsys::VerifTime;
use vh::stores::{ObjFault, ObjImage, ObjOp, VObjStore};
use vh::{cli, par, Reporter, Tier};

vh::use_jemalloc!();

const PREFIX: &str = "p";

fn delta(n: usize) -> ReplicationDelta {
    let r = ReplicaId::new(1);
    let clock = LamportClock { time: 100 + n as u64, replica_id: r };
    ReplicationDelta::new(format!("key{n:03}"), ReplicatedValue::with_value(SDS::from_str(&format!("v{n}")), clock), r)
}

fn block_on<F: std::future::Future>(f: F) -> F::Output {
    futures::executor::block_on(f)
}

fn key_class(k: &str) -> &'static str {
    if k.ends_with("manifest.json.tmp") {
        "manifest-tmp"
    } else if k.ends_with("manifest.json") {
        "manifest"
    } else if k.contains("segment") {
        "segment"
    } else {
        "other"
    }
}

#[derive(Clone, Debug)]
struct Case {
    workload: Vec<char>, // P push next delta, F flush, C compact
    faults: Vec<(usize, ObjFault)>,
}

impl Case {
    fn json(&self) -> serde_json::Value {
        json!({"workload": self.workload.iter().collect::<String>(), "faults": self.faults.iter().map(|(i, f)| json!([i, f.name()])).collect::<Vec<_>>()})
    }
}

struct Run {
    log: Vec<ObjOp>,
    store: VObjStore,
    /// (log length when the flush returned Ok, keys it confirmed)
    confirmed: Vec<(usize, Vec<String>)>,
    violations: Vec<(String, String)>,
}

fn fault_desc(log: &[ObjOp]) -> String {
    let f: Vec<String> = log.iter().filter(|o| o.fault.is_some()).map(|o| format!("{}@{}:{}", o.fault.unwrap().name(), o.kind, key_class(&o.key))).collect();
    if f.is_empty() {
        "none".into()
    } else {
        f.join("+")
    }
}

fn run_case(case: &Case) -> Run {
    let store = VObjStore::new();
    store.set_plan(&case.faults);
    let clock = SimulatedClock::new(1_000);
    let cfg = WriteBufferConfig { flush_interval: Duration::from_secs(3600), max_size_bytes: 1 << 20, max_deltas: 1000, backpressure_threshold_bytes: 1 << 24, compression_enabled: false };
    let mut violations = Vec::new();
    let mut confirmed = Vec::new();
    let mut p = match block_on(StreamingPersistence::with_clock(Arc::new(store.clone()), PREFIX.to_string(), 1, cfg, clock)) {
        Ok(p) => p,
        Err(_) => {
            // initial manifest load faulted: nothing was accepted, nothing to check
            return Run { log: store.log(), store, confirmed, violations };
        }
    };
    let mut next = 0usize;
    let mut compactor = None;
    let mut pending: Vec<String> = Vec::new(); // accepted, not yet confirmed
    for op in &case.workload {
        match op {
            'P' => {
                let d = delta(next);
                next += 1;
                if p.push(d.clone()).is_ok() {
                    pending.push(d.key);
                }
            }
            'F' => {
                store.set_actor("flush");
                let r = block_on(p.flush());
                match r {
                    Ok(_) => {
                        if !pending.is_empty() {
                            confirmed.push((store.log_len(), std::mem::take(&mut pending)));
                        }
                    }
                    Err(e) => {
                        // the process keeps running: the accepted updates must still be pending
                        if p.pending_count() < pending.len() {
                            violations.push((
                                format!("buffer-discarded-by-failed-flush fault={}", fault_desc(&store.log())),
                                format!("flush failed ({e}) and pending_count() = {} although {} accepted updates {:?} were never flushed successfully", p.pending_count(), pending.len(), pending),
                            ));
                            // they are gone for good; do not report the same loss again at the next flush
                            pending.clear();
                        }
                    }
                }
            }
            'C' => {
                store.set_actor("compact");
                // ONE compactor for the whole run, as the compaction worker keeps it between its ticks
                // (whatever it remembers from a failed pass is there at the next one)
                let c = compactor.get_or_insert_with(|| {
                    let mm = ManifestManager::new(store.clone(), PREFIX);
                    let ccfg = CompactionConfig { target_segment_size: 1 << 20, max_segments: 2, min_segments_to_compact: 2, max_segments_per_compaction: 10, tombstone_ttl: Duration::from_secs(3600), compression_enabled: false };
                    Compactor::with_time_source(Arc::new(store.clone()), PREFIX.to_string(), mm, ccfg, VerifTime::new(5_000))
                });
                let _ = block_on(c.compact());
            }
            _ => unreachable!(),
        }
    }
    Run { log: store.log(), store, confirmed, violations }
}

fn recovered_keys(img: &ObjImage) -> Result<BTreeSet<String>, String> {
    let st = VObjStore::from_image(img);
    let rm = RecoveryManager::new(st, PREFIX, 1);
    let r = std::panic::catch_unwind(std::panic::AssertUnwindSafe(|| block_on(rm.recover()))).map_err(|p| format!("recovery panicked: {}", vh::panic_text(&p)))?;
    let rs = r.map_err(|e| format!("recovery failed: {e}"))?;
    let mut keys: BTreeSet<String> = rs.deltas.iter().map(|d| d.key.clone()).collect();
    if let Some(cp) = &rs.checkpoint_state {
        keys.extend(cp.keys().cloned());
    }
    Ok(keys)
}

fn judge(case: &Case, run: &Run, images: &AtomicU64) -> Vec<(String, String)> {
    let mut v = run.violations.clone();
    let base = ObjImage::new();
    let fd = fault_desc(&run.log);
    let describe = |i: usize| {
        let ops: Vec<String> = run.log.iter().take(i).map(|o| format!("{}:{}{}", o.kind, key_class(&o.key), if o.ok { "" } else { "!" })).collect();
        format!("workload {} faults {:?}; store ops before the crash: [{}]", case.workload.iter().collect::<String>(), case.faults, ops.join(" "))
    };
    for i in 0..=run.log.len() {
        let mut variants: Vec<(String, ObjImage)> = vec![("".into(), run.store.image_after(&base, i))];
        // crash inside a put that would have succeeded: object absent (= prefix image) or truncated
        if let Some(op) = run.log.get(i) {
            if op.kind == "put" && op.ok {
                let mut img = run.store.image_after(&base, i);
                img.insert(op.key.clone(), op.put_bytes[..op.put_bytes.len() / 2].to_vec());
                variants.push((format!(" torn-put:{}", key_class(&op.key)), img));
            }
        }
        for (vname, img) in variants {
            images.fetch_add(1, Ordering::Relaxed);
            let during = run.log.get(i).map(|o| o.actor.clone()).unwrap_or_else(|| "end".into());
            match recovered_keys(&img) {
                Err(e) => {
                    v.push((format!("recovery-error during={during}{vname} fault={fd}"), format!("crash after {i} store ops{vname}: {e}; {}", describe(i))));
                    return v;
                }
                Ok(keys) => {
                    for (at, ks) in &run.confirmed {
                        if *at <= i {
                            if let Some(lost) = ks.iter().find(|k| !keys.contains(*k)) {
                                v.push((
                                    format!("confirmed-update-lost during={during}{vname} fault={fd}"),
                                    format!("crash after {i} store ops{vname}: update {lost} of a flush that returned Ok after {at} ops is not recovered (recovered {:?}); {}", keys, describe(i)),
                                ));
                                return v;
                            }
                        }
                    }
                }
            }
        }
    }
    v
}

/// WriteBuffer (the simpler buffer used by the flush worker): a failed flush must not discard.
fn write_buffer_cases(rep: &Reporter) -> u64 {
    let mut n = 0;
    for pushes in 1..=3usize {
        for fault_at in 0..2usize {
            let store = VObjStore::new();
            store.set_plan(&[(fault_at, ObjFault::Fail)]);
            let cfg = WriteBufferConfig { flush_interval: Duration::from_secs(3600), max_size_bytes: 1 << 20, max_deltas: 1000, backpressure_threshold_bytes: 1 << 24, compression_enabled: false };
            let wb = WriteBuffer::new(Arc::new(store.clone()), "wb".to_string(), cfg);
            for i in 0..pushes {
                let _ = wb.push(delta(i));
            }
            let r1 = block_on(wb.flush());
            n += 1;
            if r1.is_err() && wb.pending_count() < pushes {
                rep.violation(
                    "write-buffer-discarded-by-failed-flush",
                    format!("WriteBuffer: {pushes} pushes, flush failed ({}) and pending_count() = {}", r1.err().map(|e| e.to_string()).unwrap_or_default(), wb.pending_count()),
                    json!({"write_buffer": true, "pushes": pushes, "fault_at": fault_at}),
                );
            }
        }
    }
    n
}

// ---------------------------------------------------------------------------------------------
// overlapping flushes of one WriteBuffer (flush takes &self: the flush worker and an explicit flush may overlap)
// ---------------------------------------------------------------------------------------------

/// task programs: 'P' push the next fresh update, 'F' flush
const WB_PROGRAMS: &[(&str, &str)] = &[("F", "PF"), ("FF", "PF"), ("FFPF", "PF"), ("FPF", "PFPF"), ("FF", "PFF")];

struct WbRace {
    stuck: Option<String>,
    pushed: Vec<String>,
    in_store: BTreeSet<String>,
    still_pending: usize,
    ops: Vec<String>,
    flush_results: Vec<String>,
}

fn wb_race_once(prog: usize, fault: Option<(usize, ObjFault)>, ch: &mut vh::polex::Chooser) -> WbRace {
    use std::cell::RefCell;
    use std::rc::Rc;
    vh::polex::with_runtime(|rt| {
        rt.block_on(async {
            let store = VObjStore::new();
            let cfg = WriteBufferConfig { flush_interval: Duration::from_secs(3600), max_size_bytes: 1 << 20, max_deltas: 1000, backpressure_threshold_bytes: 1 << 24, compression_enabled: false };
            let wb = Arc::new(WriteBuffer::new(Arc::new(store.clone()), "wb".to_string(), cfg));
            let counter = Rc::new(RefCell::new(0usize));
            let pushed: Rc<RefCell<Vec<String>>> = Rc::new(RefCell::new(Vec::new()));
            let results: Rc<RefCell<Vec<String>>> = Rc::new(RefCell::new(Vec::new()));
            // one update is in the buffer before the tasks start
            {
                let d = delta(0);
                pushed.borrow_mut().push(d.key.clone());
                wb.push(d).unwrap();
                *counter.borrow_mut() = 1;
            }
            if let Some(f) = fault {
                store.set_plan(&[f]);
            }
            store.set_yield(true);
            let mut sched = vh::polex::Sched::new();
            let (pa, pb) = WB_PROGRAMS[prog];
            for (name, program) in [("A", pa), ("B", pb)] {
                let (wb, counter, pushed, results) = (wb.clone(), counter.clone(), pushed.clone(), results.clone());
                let program: Vec<char> = program.chars().collect();
                sched.add(
                    name,
                    Box::pin(async move {
                        for op in program {
                            if op == 'P' {
                                let n = {
                                    let mut c = counter.borrow_mut();
                                    *c += 1;
                                    *c - 1
                                };
                                let d = delta(n);
                                if wb.push(d.clone()).is_ok() {
                                    pushed.borrow_mut().push(d.key);
                                }
                            } else {
                                let r = wb.flush().await;
                                results.borrow_mut().push(format!("{name}:{}", match &r { Ok(Some(k)) => format!("ok {}", k.rsplit('/').next().unwrap_or("")), Ok(None) => "ok empty".to_string(), Err(_) => "failed".to_string() }));
                            }
                        }
                    }),
                    false,
                );
            }
            let r = sched.run_to_completion(ch, 10_000).await;
            store.set_yield(false);
            store.set_plan(&[]);
            // the process keeps running: flush what is still pending (no faults any more)
            let mut guard = 0;
            while wb.pending_count() > 0 && guard < 4 {
                let _ = wb.flush().await;
                guard += 1;
            }
            let mut in_store = BTreeSet::new();
            for (k, bytes) in store.image_now() {
                if let Ok(rd) = redis_sim::streaming::segment::SegmentReader::open(&bytes) {
                    if let Ok(ds) = rd.read_all() {
                        in_store.extend(ds.into_iter().map(|d| d.key));
                    }
                }
                let _ = k;
            }
            let ops: Vec<String> = store.log().iter().map(|o| format!("{}:{}{}", o.kind, o.key.rsplit('/').next().unwrap_or(""), if o.ok { "" } else { "!" })).collect();
            let out = WbRace { stuck: r.err(), pushed: pushed.borrow().clone(), in_store, still_pending: wb.pending_count(), ops, flush_results: results.borrow().clone() };
            out
        })
    })
}

/// All interleavings of the two tasks' store operations x (no fault | one failing or truncating put at call index 0..3).
fn write_buffer_races(rep: &Reporter, thorough: bool) -> (u64, u64, bool) {
    let mut execs = 0u64;
    let mut outcomes: BTreeSet<String> = BTreeSet::new();
    let mut exhaustive = true;
    let mut plans: Vec<Option<(usize, ObjFault)>> = vec![None];
    for i in 0..if thorough { 6 } else { 4 } {
        plans.push(Some((i, ObjFault::Fail)));
        plans.push(Some((i, ObjFault::TruncatedPut)));
    }
    for prog in 0..WB_PROGRAMS.len() {
        for plan in &plans {
            let cfg = vh::polex::DfsConfig { deadline: Some(std::time::Instant::now() + Duration::from_secs(if thorough { 120 } else { 10 })), ..Default::default() };
            let stats = vh::polex::explore(&cfg, |ch| {
                let race = wb_race_once(prog, *plan, ch);
                execs += 1;
                let replay = json!({"wb_race": true, "program": prog, "fault": plan.map(|(i, f)| json!([i, f.name()])), "schedule": ch.schedule()});
                let ctx = format!("tasks A=[{}] B=[{}] on one WriteBuffer holding one update, fault {:?}; flushes: {:?}; store ops: {:?}", WB_PROGRAMS[prog].0, WB_PROGRAMS[prog].1, plan.map(|(i, f)| format!("{}@call{}", f.name(), i)), race.flush_results, race.ops);
                if let Some(e) = &race.stuck {
                    rep.violation("write-buffer race: stuck".to_string(), format!("{e}; {ctx}"), replay);
                    return true;
                }
                outcomes.insert(format!("{:?}|{:?}", race.flush_results, race.in_store));
                let lost: Vec<&String> = race.pushed.iter().filter(|k| !race.in_store.contains(*k)).collect();
                if !lost.is_empty() {
                    rep.violation(
                        format!("write-buffer race: accepted-update-lost fault={}", plan.map(|(_, f)| f.name()).unwrap_or("none")),
                        format!("updates {:?} were accepted by push() and are neither in any stored segment nor pending (pending_count() = {}) after every flush completed and a final fault-free flush; {ctx}", lost, race.still_pending),
                        replay,
                    );
                }
                true
            });
            if stats.truncated {
                exhaustive = false;
            }
        }
    }
    (execs, outcomes.len() as u64, exhaustive)
}

// ---------------------------------------------------------------------------------------------
// the whole wiring: node -> delta sink -> bridge task -> persistence actor -> store; shutdown; recovery into a new node
// ---------------------------------------------------------------------------------------------

/// What the node is asked to do before the graceful shutdown (keys k0.. are distinct unless said otherwise).
const WIRING_WORKLOADS: &[(&str, usize)] = &[
    ("distinct-sets", 1), ("distinct-sets", 2), ("distinct-sets", 9), ("distinct-sets", 10), ("distinct-sets", 11), ("distinct-sets", 25),
    ("distinct-sets", 99), ("distinct-sets", 100), ("distinct-sets", 101), ("distinct-sets", 257), ("distinct-sets", 1000),
    ("overwrites", 30), ("set-del-hset-mix", 40), ("counters", 35),
];

fn wiring_commands(kind: &str, n: usize) -> Vec<String> {
    (0..n)
        .map(|i| match kind {
            "distinct-sets" => format!("SET k{i} v{i}"),
            "overwrites" => format!("SET k{} v{i}", i % 4),
            "counters" => format!("INCRBY n{} {}", i % 3, i + 1),
            _ => match i % 5 {
                0 => format!("SET k{} v{i}", i % 7),
                1 => format!("HSET h{} f{} x{i}", i % 3, i % 4),
                2 => format!("DEL k{}", (i + 3) % 7),
                3 => format!("HDEL h{} f{}", i % 3, (i + 1) % 4),
                _ => format!("APPEND k{} z", i % 7),
            },
        })
        .collect()
}

/// Err((signature, detail)) when the node rebuilt from the store after a graceful shutdown does not hold (or serve)
/// what the first node held.
fn wiring_case(kind: &str, n: usize, max_deltas: usize, flush_interval_ms: u64) -> Result<u64, (String, String)> {
    let store = Arc::new(VObjStore::new());
    wiring_case_on(store.clone(), "", kind, n, max_deltas, flush_interval_ms)?;
    Ok(store.log_len() as u64)
}

/// The same with ONE transient store failure while the node is still running (store call `fault_at`, counted from the
/// start; only indices below the number of calls a fault-free run makes before its shutdown begins are used): the failed
/// flush must put its updates back, later flushes and the final one succeed, so nothing accepted may be missing.
fn wiring_case_faulted(kind: &str, n: usize, max_deltas: usize, fault_at: usize) -> Result<u64, (String, String)> {
    let store = Arc::new(VObjStore::new());
    store.set_plan(&[(fault_at, ObjFault::Fail)]);
    wiring_case_on(store.clone(), &format!(" [store call #{fault_at} fails once]"), kind, n, max_deltas, 3_600_000).map_err(|(sig, d)| (format!("{sig} after-one-transient-store-failure"), d))?;
    Ok(store.log_len() as u64)
}

thread_local! {
    /// number of store operations logged when the graceful shutdown of the last wiring case began
    static CALLS_BEFORE_SHUTDOWN: std::cell::Cell<usize> = std::cell::Cell::new(0);
    /// ... and when start_workers had returned (a failure before that means the process never came up)
    static CALLS_AFTER_START: std::cell::Cell<usize> = std::cell::Cell::new(0);
}

/// how many operations a store has seen (0 for stores that do not count)
trait StoreCalls {
    fn calls_made(&self) -> usize;
}
impl StoreCalls for VObjStore {
    fn calls_made(&self) -> usize {
        self.calls()
    }
}
impl StoreCalls for redis_sim::streaming::LocalFsObjectStore {
    fn calls_made(&self) -> usize {
        0
    }
}

/// the same over the repository's local-filesystem object store in a scratch directory (removed afterwards)
/// Operations of the store-contract part. Objects of two lengths under one key (an overwrite must replace the object,
/// whichever is longer), a second key, deletion, rename in both directions.
const STORE_OPS: &[&str] = &["put a LONG", "put a SHORT", "put b MID", "delete a", "rename a b", "rename b a", "put tmp LONG", "rename tmp a"];

thread_local! {
    static PLAIN_RT: tokio::runtime::Runtime = tokio::runtime::Builder::new_current_thread().enable_all().build().unwrap();
}

fn block_on_plain<F: std::future::Future>(f: F) -> F::Output {
    PLAIN_RT.with(|rt| rt.block_on(f))
}

/// What a client of the store can see: every object's bytes (get), existence, size (head), and the listing.
fn store_view<S: redis_sim::streaming::ObjectStore>(s: &S) -> String {
    block_on_plain(async {
        let mut out = String::new();
        for k in ["p/a", "p/b", "p/tmp"] {
            let g = s.get(k).await.map(|b| format!("{}:{}", b.len(), b.iter().map(|x| *x as u64).sum::<u64>())).unwrap_or_else(|e| format!("err({:?})", e.kind()));
            let e = s.exists(k).await.map(|b| b.to_string()).unwrap_or_else(|_| "err".into());
            let h = s.head(k).await.map(|m| m.size_bytes.to_string()).unwrap_or_else(|e| format!("err({:?})", e.kind()));
            out.push_str(&format!("{k}: get={g} exists={e} head={h}; "));
        }
        let mut names: Vec<String> = s.list("p/", None).await.map(|l| l.objects.iter().map(|o| format!("{}:{}", o.key, o.size_bytes)).collect()).unwrap_or_else(|_| vec!["list-err".into()]);
        names.sort();
        out.push_str(&format!("list={names:?}"));
        out
    })
}

fn store_apply<S: redis_sim::streaming::ObjectStore>(s: &S, op: &str) -> String {
    let t: Vec<&str> = op.split(' ').collect();
    let body = |w: &str| -> Vec<u8> {
        match w {
            "LONG" => (0..4096u32).map(|i| (i % 251) as u8).collect(),
            "MID" => (0..700u32).map(|i| (i % 13 + 1) as u8).collect(),
            _ => b"short-object".to_vec(),
        }
    };
    block_on_plain(async {
        let r = match t[0] {
            "put" => s.put(&format!("p/{}", t[1]), &body(t[2])).await,
            "delete" => s.delete(&format!("p/{}", t[1])).await,
            _ => s.rename(&format!("p/{}", t[1]), &format!("p/{}", t[2])).await,
        };
        match r {
            Ok(()) => "ok".to_string(),
            Err(e) => format!("err({:?})", e.kind()),
        }
    })
}

/// One sequence of store operations on the repository's LocalFsObjectStore (scratch directory), on its InMemoryObjectStore
/// and on the harness's logging store: after every operation all three must show the same objects. The recovery and
/// crash-consistency arguments of this check are made on the in-memory stores; this is what ties them to the store a server
/// on a local disk uses.
fn store_contract_case(seq: &[usize]) -> Result<(), (String, String)> {
    static SERIAL: AtomicU64 = AtomicU64::new(0);
    let dir = std::env::temp_dir().join(format!("verif-c12-store-{}-{}", std::process::id(), SERIAL.fetch_add(1, Ordering::Relaxed)));
    let _ = std::fs::remove_dir_all(&dir);
    std::fs::create_dir_all(&dir).map_err(|e| ("harness: scratch directory".to_string(), e.to_string()))?;
    let local = redis_sim::streaming::LocalFsObjectStore::new(dir.clone());
    let mem = redis_sim::streaming::InMemoryObjectStore::new();
    let model = VObjStore::new();
    let mut done: Vec<&str> = Vec::new();
    let mut res = Ok(());
    for o in seq {
        let op = STORE_OPS[*o];
        let (rl, rm, rv) = (store_apply(&local, op), store_apply(&mem, op), store_apply(&model, op));
        done.push(op);
        let (vl, vm, vv) = (store_view(&local), store_view(&mem), store_view(&model));
        let kinds: Vec<&str> = done.iter().map(|d| d.split(' ').next().unwrap()).collect();
        if rl != rm || vl != vm {
            res = Err((
                format!("store-contract: local-filesystem store differs from the in-memory store after={}", kinds[kinds.len().saturating_sub(2)..].join("+")),
                format!("[{}]: the last operation replied {rl} on LocalFsObjectStore and {rm} on InMemoryObjectStore; visible afterwards: local-fs {{{vl}}} in-memory {{{vm}}}", done.join("; ")),
            ));
            break;
        }
        if rv != rm || vv != vm {
            res = Err((
                format!("store-contract: harness store differs from the in-memory store after={}", kinds[kinds.len().saturating_sub(2)..].join("+")),
                format!("[{}]: the last operation replied {rv} on the harness's logging store and {rm} on InMemoryObjectStore; visible afterwards: harness {{{vv}}} in-memory {{{vm}}}", done.join("; ")),
            ));
            break;
        }
    }
    let _ = std::fs::remove_dir_all(&dir);
    res
}

fn wiring_case_local_fs(kind: &str, n: usize, max_deltas: usize, flush_interval_ms: u64) -> Result<u64, (String, String)> {
    static SERIAL: AtomicU64 = AtomicU64::new(0);
    let dir = std::env::temp_dir().join(format!("verif-c12-{}-{}", std::process::id(), SERIAL.fetch_add(1, Ordering::Relaxed)));
    let _ = std::fs::remove_dir_all(&dir);
    std::fs::create_dir_all(&dir).map_err(|e| ("harness: scratch directory".to_string(), e.to_string()))?;
    let store = Arc::new(redis_sim::streaming::LocalFsObjectStore::new(dir.clone()));
    let r = wiring_case_on(store, " [local filesystem store]", kind, n, max_deltas, flush_interval_ms);
    let _ = std::fs::remove_dir_all(&dir);
    r.map(|_| 0).map_err(|(sig, d)| (format!("{sig} local-fs"), d))
}

fn wiring_case_on<S: redis_sim::streaming::ObjectStore + Clone + Send + Sync + 'static + StoreCalls>(store: Arc<S>, store_label: &str, kind: &str, n: usize, max_deltas: usize, flush_interval_ms: u64) -> Result<(), (String, String)> {
    let store_for_calls = store.clone();
    let calls_so_far = move || store_for_calls.calls_made();
    use redis_sim::production::ReplicatedShardedState;
    use redis_sim::replication::ReplicationConfig;
    use redis_sim::streaming::{StreamingConfig, StreamingIntegration};
    let rt = tokio::runtime::Builder::new_current_thread().enable_time().start_paused(true).build().unwrap();
    rt.block_on(async {
        let mut cfg = StreamingConfig::test();
        cfg.prefix = PREFIX.to_string();
        cfg.write_buffer.max_deltas = max_deltas;
        cfg.write_buffer.flush_interval = Duration::from_millis(flush_interval_ms);
        cfg.compaction.max_segments = 0; // the compaction worker is C13's subject
        let desc = format!("{n} commands ({kind}) through the delta sink, write buffer max_deltas={max_deltas} flush_interval={flush_interval_ms}ms, graceful shutdown, recovery into a new node{store_label}");
        let repl = ReplicationConfig { enabled: true, replica_id: 1, ..Default::default() };
        let integ = StreamingIntegration::with_store(store.clone(), cfg.clone(), 1);
        let mut node = ReplicatedShardedState::new(repl.clone());
        let (handles, sender) = integ.start_workers().await.map_err(|e| ("wiring: start_workers failed".to_string(), format!("{desc}: {e}")))?;
        node.set_delta_sink(sender);
        CALLS_AFTER_START.with(|c| c.set(calls_so_far()));
        for c in wiring_commands(kind, n) {
            let cmd = vh::resp::parse(&vh::resp::line(&c)).expect("workload parses");
            let _ = node.execute(cmd).await;
            // let the bridge and the actor run now and then, as they would next to a stream of commands
            tokio::task::yield_now().await;
        }
        let want: std::collections::BTreeMap<String, String> = node.snapshot_state().await.iter().map(|(k, v)| (k.clone(), vh::persist_kit::project(v))).collect();
        node.clear_delta_sink();
        // give the bridge and the actor the time they would have had (virtual time: the clock is paused and auto-advances)
        tokio::time::sleep(Duration::from_millis(50)).await;
        CALLS_BEFORE_SHUTDOWN.with(|c| c.set(calls_so_far()));
        handles.shutdown().await;
        // a new process: new node, recovery through the same integration object API
        let node2 = ReplicatedShardedState::new(repl);
        let integ2 = StreamingIntegration::with_store(store.clone(), cfg, 1);
        integ2.recover(&node2).await.map_err(|e| ("wiring: recovery failed".to_string(), format!("{desc}: {e}")))?;
        let got: std::collections::BTreeMap<String, String> = node2.snapshot_state().await.iter().map(|(k, v)| (k.clone(), vh::persist_kit::project(v))).collect();
        if got != want {
            let k = want.keys().chain(got.keys()).find(|k| want.get(*k) != got.get(*k)).unwrap();
            let missing = want.keys().filter(|k| !got.contains_key(*k)).count();
            return Err((
                format!("wiring: state-after-restart!=state-before-shutdown {}", if missing > 0 { "keys-missing" } else { "values-differ" }),
                format!("{desc}: key {k}: before the shutdown the node held {:?}, the recovered node holds {:?} ({missing} of {} keys missing)", want.get(k), got.get(k), want.len()),
            ));
        }
        // what clients read must agree too
        for k in want.keys().take(12) {
            let cmd = |c: &str| vh::resp::parse(&vh::resp::line(&format!("{c} {k}"))).unwrap();
            let (t1, t2) = (node.execute(cmd("TYPE")).await, node2.execute(cmd("TYPE")).await);
            if vh::resp::show(&t1) != vh::resp::show(&t2) {
                return Err(("wiring: reads-after-restart-differ".to_string(), format!("{desc}: TYPE {k} was {} and is {} after the restart", vh::resp::show(&t1), vh::resp::show(&t2))));
            }
        }
        Ok(())
    })
}

fn main() {
    let args = cli::parse_args();
    vh::quiet_panics();
    if let Some(path) = &args.replay {
        let r = vh::report::load_replay(path);
        if r["store_contract"] == json!(true) {
            let seq: Vec<usize> = r["ops"].as_array().unwrap().iter().map(|o| STORE_OPS.iter().position(|x| *x == o.as_str().unwrap()).unwrap()).collect();
            match store_contract_case(&seq) {
                Err((sig, detail)) => {
                    println!("{detail}");
                    println!("VIOLATION property=C12 replay={} ({sig})", path.display());
                    std::process::exit(1);
                }
                Ok(_) => {
                    println!("replay: no violation");
                    std::process::exit(0);
                }
            }
        }
        if r["wiring"] == json!(true) {
            if let Some(fa) = r["fault_at"].as_u64() {
                match wiring_case_faulted(r["kind"].as_str().unwrap(), r["n"].as_u64().unwrap() as usize, r["max_deltas"].as_u64().unwrap() as usize, fa as usize) {
                    Err((sig, detail)) => {
                        println!("{detail}");
                        println!("VIOLATION property=C12 replay={} ({sig})", path.display());
                        std::process::exit(1);
                    }
                    Ok(_) => {
                        println!("replay: no violation");
                        std::process::exit(0);
                    }
                }
            }
            let f = if r["local_fs"] == json!(true) { wiring_case_local_fs } else { wiring_case };
            match f(r["kind"].as_str().unwrap(), r["n"].as_u64().unwrap() as usize, r["max_deltas"].as_u64().unwrap() as usize, r["flush_interval_ms"].as_u64().unwrap()) {
                Err((sig, detail)) => {
                    println!("{detail}");
                    println!("VIOLATION property=C12 replay={} ({sig})", path.display());
                    std::process::exit(1);
                }
                Ok(_) => {
                    println!("replay: no violation");
                    std::process::exit(0);
                }
            }
        }
        if r["wb_race"] == json!(true) {
            let prog = r["program"].as_u64().unwrap() as usize;
            let fault = if r["fault"].is_null() { None } else { Some((r["fault"][0].as_u64().unwrap() as usize, if r["fault"][1] == "fail" { ObjFault::Fail } else { ObjFault::TruncatedPut })) };
            let schedule: Vec<u32> = r["schedule"].as_array().unwrap().iter().map(|x| x.as_u64().unwrap() as u32).collect();
            let race = wb_race_once(prog, fault, &mut vh::polex::replay_prefix(&schedule));
            println!("flushes: {:?}", race.flush_results);
            println!("store ops: {:?}", race.ops);
            println!("accepted: {:?}", race.pushed);
            println!("in stored segments after a final flush: {:?} (still pending: {})", race.in_store, race.still_pending);
            let lost: Vec<&String> = race.pushed.iter().filter(|k| !race.in_store.contains(*k)).collect();
            if !lost.is_empty() || race.stuck.is_some() {
                println!("VIOLATION property=C12 replay={} (write-buffer race: lost {:?} {:?})", path.display(), lost, race.stuck);
                std::process::exit(1);
            }
            println!("replay: no violation");
            std::process::exit(0);
        }
        if r["write_buffer"] == json!(true) {
            let rep = Reporter::new("C12", "fault_enumeration", &args);
            write_buffer_cases(&rep);
            let n = rep.violation_count();
            println!("write-buffer cases: {n} violating signatures");
            std::process::exit(if n > 0 { 1 } else { 0 });
        }
        let case = Case {
            workload: r["workload"].as_str().unwrap().chars().collect(),
            faults: r["faults"].as_array().unwrap().iter().map(|f| (f[0].as_u64().unwrap() as usize, if f[1] == "fail" { ObjFault::Fail } else if f[1] == "corrupt-read" { ObjFault::CorruptRead } else { ObjFault::TruncatedPut })).collect(),
        };
        let run = run_case(&case);
        for (i, o) in run.log.iter().enumerate() {
            println!("op[{i}] {} {} ok={} fault={:?} by {}", o.kind, o.key, o.ok, o.fault.map(|f| f.name()), o.actor);
        }
        println!("confirmed flushes: {:?}", run.confirmed);
        let v = judge(&case, &run, &AtomicU64::new(0));
        if v.is_empty() {
            println!("replay: no violation");
            std::process::exit(0);
        }
        for (s, d) in &v {
            println!("{s}: {d}");
        }
        println!("VIOLATION property=C12 replay={}", path.display());
        std::process::exit(1);
    }
    let rep = Reporter::new("C12", "fault_enumeration", &args);
    let _gag = vh::StderrGag::new();
    let thorough = args.tier == Tier::Thorough;
    let max_len = if thorough { 11 } else { 10 };
    let mut workloads: Vec<Vec<char>> = Vec::new();
    let mut cur: Vec<Vec<char>> = vec![vec![]];
    for _ in 0..max_len {
        cur = cur.iter().flat_map(|w| ['P', 'F', 'C'].iter().map(move |c| { let mut x = w.clone(); x.push(*c); x })).collect();
        workloads.extend(cur.iter().cloned());
    }
    // only workloads that flush at least once can confirm or lose anything
    workloads.retain(|w| w.contains(&'F') && w.contains(&'P'));
    let mut cases: Vec<Case> = Vec::new();
    for w in &workloads {
        let base = Case { workload: w.clone(), faults: vec![] };
        let run = run_case(&base);
        cases.push(base);
        let k = run.log.len();
        let puts: BTreeSet<usize> = run.log.iter().enumerate().filter(|(_, o)| o.kind == "put").map(|(i, _)| i).collect();
        let gets: BTreeSet<usize> = run.log.iter().enumerate().filter(|(_, o)| o.kind == "get" && o.ok).map(|(i, _)| i).collect();
        let mut singles: Vec<(usize, ObjFault)> = Vec::new();
        for i in 0..k {
            singles.push((i, ObjFault::Fail));
            if puts.contains(&i) {
                singles.push((i, ObjFault::TruncatedPut));
            }
            if gets.contains(&i) {
                singles.push((i, ObjFault::CorruptRead));
            }
        }
        for s in &singles {
            cases.push(Case { workload: w.clone(), faults: vec![*s] });
        }
        // bursts: 2 or 3 consecutive store calls fail (a store that stays unavailable for a moment; a bounded retry
        // loop gives up exactly here)
        for i in 0..k {
            for len in 2..=3usize {
                cases.push(Case { workload: w.clone(), faults: (i..i + len).map(|j| (j, ObjFault::Fail)).collect() });
            }
        }
        if w.len() <= if thorough { 7 } else { 5 } {
            for (a, s1) in singles.iter().enumerate() {
                for s2 in &singles[a + 1..] {
                    if s2.0 > s1.0 {
                        cases.push(Case { workload: w.clone(), faults: vec![*s1, (s2.0, ObjFault::Fail)] });
                    }
                }
            }
        }
    }
    let images = AtomicU64::new(0);
    let faults_hit = AtomicU64::new(0);
    let distinct = std::sync::Mutex::new(BTreeSet::<u64>::new());
    par::par_map(&cases, |_, case| {
        let run = run_case(case);
        if run.log.iter().any(|o| o.fault.is_some()) {
            faults_hit.fetch_add(1, Ordering::Relaxed);
        }
        let key: String = run.log.iter().map(|o| format!("{}{}{};", o.kind, o.key, o.ok)).collect();
        distinct.lock().unwrap().insert(vh::seqx::fp128(&key) as u64);
        for (sig, detail) in judge(case, &run, &images) {
            rep.violation(sig, detail, case.json());
        }
    });
    let wb = write_buffer_cases(&rep);
    let (wb_race_execs, wb_race_outcomes, wb_race_exhaustive) = write_buffer_races(&rep, thorough);
    // the whole wiring
    let wiring_items: Vec<(usize, usize, u64)> = (0..WIRING_WORKLOADS.len()).flat_map(|w| [(w, 10usize, 0u64), (w, 10, 3_600_000), (w, 100, 3_600_000), (w, 100_000, 3_600_000)]).collect();
    let wiring_ops = AtomicU64::new(0);
    // ... with one transient store failure at every call index before the shutdown
    let mut faulted_cases = 0u64;
    for (kind, n, md) in [("distinct-sets", 25usize, 10usize), ("set-del-hset-mix", 40, 10), ("distinct-sets", 101, 100)] {
        let _ = wiring_case(kind, n, md, 3_600_000);
        let k = CALLS_BEFORE_SHUTDOWN.with(|c| c.get());
        let k0 = CALLS_AFTER_START.with(|c| c.get());
        let idx: Vec<usize> = (k0..k).collect();
        let seen = std::sync::Mutex::new(BTreeSet::new());
        par::par_map(&idx, |_, i| match std::panic::catch_unwind(|| wiring_case_faulted(kind, n, md, *i)) {
            Ok(Ok(_)) => {}
            Ok(Err((sig, detail))) => {
                if seen.lock().unwrap().insert(sig.clone()) {
                    rep.violation(sig, detail, json!({"wiring": true, "kind": kind, "n": n, "max_deltas": md, "fault_at": i}));
                }
            }
            Err(p) => rep.violation("wiring: panic after-one-transient-store-failure".to_string(), vh::panic_text(&p), json!({"wiring": true, "kind": kind, "n": n, "max_deltas": md, "fault_at": i})),
        });
        faulted_cases += (k - k0.min(k)) as u64;
    }
    // the stores themselves: every sequence of <= 3 (thorough 4) operations on the local-filesystem store, the in-memory
    // store and the harness store, compared after every step
    let store_seqs: Vec<Vec<usize>> = {
        let mut out: Vec<Vec<usize>> = Vec::new();
        let mut cur: Vec<Vec<usize>> = vec![vec![]];
        for _ in 0..(if thorough { 4 } else { 3 }) {
            cur = cur.iter().flat_map(|s| (0..STORE_OPS.len()).map(move |o| { let mut x = s.clone(); x.push(o); x })).collect();
            out.extend(cur.iter().cloned());
        }
        out
    };
    {
        let seen = std::sync::Mutex::new(BTreeSet::new());
        par::par_map(&store_seqs, |_, seq| {
            if let Err((sig, detail)) = store_contract_case(seq) {
                if seen.lock().unwrap().insert(sig.clone()) {
                    rep.violation(sig, detail, json!({"store_contract": true, "ops": seq.iter().map(|o| STORE_OPS[*o]).collect::<Vec<_>>()}));
                }
            }
        });
    }
    // ... and a few of them over the repository's local-filesystem store
    let local_fs_items: Vec<(&str, usize, usize, u64)> = vec![("distinct-sets", 1, 10, 0), ("distinct-sets", 25, 10, 3_600_000), ("set-del-hset-mix", 40, 10, 3_600_000), ("distinct-sets", 101, 100, 3_600_000)];
    for (kind, n, md, fi) in &local_fs_items {
        match std::panic::catch_unwind(|| wiring_case_local_fs(kind, *n, *md, *fi)) {
            Ok(Ok(_)) => {}
            Ok(Err((sig, detail))) => rep.violation(sig, detail, json!({"wiring": true, "local_fs": true, "kind": kind, "n": n, "max_deltas": md, "flush_interval_ms": fi})),
            Err(p) => rep.violation("wiring: panic local-fs".to_string(), vh::panic_text(&p), json!({"wiring": true, "local_fs": true, "kind": kind, "n": n, "max_deltas": md, "flush_interval_ms": fi})),
        }
    }
    {
        let seen = std::sync::Mutex::new(BTreeSet::new());
        par::par_map(&wiring_items, |_, (w, md, fi)| {
            let (kind, n) = WIRING_WORKLOADS[*w];
            match std::panic::catch_unwind(|| wiring_case(kind, n, *md, *fi)) {
                Ok(Ok(ops)) => {
                    wiring_ops.fetch_add(ops, Ordering::Relaxed);
                }
                Ok(Err((sig, detail))) => {
                    if seen.lock().unwrap().insert(sig.clone()) {
                        rep.violation(sig, detail, json!({"wiring": true, "kind": kind, "n": n, "max_deltas": md, "flush_interval_ms": fi}));
                    }
                }
                Err(p) => rep.violation("wiring: panic".to_string(), vh::panic_text(&p), json!({"wiring": true, "kind": kind, "n": n, "max_deltas": md, "flush_interval_ms": fi})),
            }
        });
    }
    let coverage = json!({
        "evaluations": cases.len() as u64 + wb,
        "distinct_nontrivial": distinct.lock().unwrap().len(),
        "rule": "workload = every sequence of <=10 (thorough 11) operations over {push a fresh update, flush, compact} containing a push and a flush; fault plan = none, every single store-call index x {transient failure; for puts also truncated object + error; for gets also a successful read with one flipped byte} plus bursts of 2-3 consecutive failing calls, plus all ordered pairs of faults for workloads of <=5 (thorough 7) ops; each case runs the real StreamingPersistence/Compactor to the end with the process staying up; then EVERY prefix of the store-operation log (plus the torn-put variant of each successful put) is recovered with the real RecoveryManager; distinct_nontrivial = distinct store-operation histories",
        "workloads": workloads.len(),
        "cases": cases.len(),
        "cases_in_which_a_fault_fired": faults_hit.load(Ordering::Relaxed),
        "crash_images_recovered": images.load(Ordering::Relaxed),
        "write_buffer_cases": wb,
        "store_contract": {"operation_sequences": store_seqs.len(), "operations": STORE_OPS,
            "rule": "every sequence of <=3 (thorough 4) operations over {put of a 4 KiB / 12-byte object under one key, put of another key, delete, rename either way, put + rename of a temporary object} on the repository's LocalFsObjectStore (scratch directory), its InMemoryObjectStore and the harness's logging store; after every operation the reply and everything a client can see (get, exists, head, list) must agree between the three"},
        "whole_wiring": {"cases": wiring_items.len(), "cases_with_one_transient_store_failure_before_shutdown": faulted_cases, "cases_over_the_local_filesystem_store": local_fs_items.len(), "store_operations": wiring_ops.load(Ordering::Relaxed),
            "rule": "a real ReplicatedShardedState with the delta sink of StreamingIntegration::start_workers (bridge task, persistence actor, StreamingPersistence over the logging store; compaction worker off) executes 1 .. 1000 commands (distinct SETs at counts around the buffer limits, overwrites, a SET/DEL/HSET/HDEL/APPEND mix, counters) under four write-buffer configurations (max_deltas 10 with flush interval 0, 10, 100, 100000 with a one-hour interval); after WorkerHandles::shutdown() a new node recovers through StreamingIntegration::recover: its replication state must equal the first node's, and TYPE of the keys must agree"},
        "write_buffer_overlapping_flushes": {"schedules_explored": wb_race_execs, "distinct_outcomes": wb_race_outcomes, "all_schedules_of_every_case_explored": wb_race_exhaustive,
            "programs": WB_PROGRAMS.iter().map(|(a, b)| format!("A=[{a}] B=[{b}]")).collect::<Vec<_>>(),
            "rule": "two tasks run their programs (P = push a fresh update, F = flush) on ONE WriteBuffer that already holds an update; the store yields before every operation, so every interleaving of the tasks' store calls is a schedule; fault plan = none, or the put with call index 0..3 (thorough 0..5) fails / leaves a truncated object; when both tasks are done the process keeps running: pending updates are flushed without faults; every update push() accepted must then be in some stored segment"},
        "samples": [cases[1].json(), cases[cases.len() / 2].json()],
        "exhaustive": true,
    });
    rep.finish(
        coverage,
        vec![
            "object-store operations are atomic (as in the repo's in-memory/S3 stores); a crash inside a put leaves the object absent or truncated".into(),
            "updates have distinct keys, so 'recovered' is membership of the key in the recovered deltas/checkpoint".into(),
            "compaction runs with a 1 h tombstone TTL and a fixed clock (its own equivalence is C13)".into(),
        ],
    );
}
