//! C06 — replicas converge: once updates are delivered, all replicas answer reads alike.
//! Explicit-state BFS over real ReplicatedShardActors: client commands on any node, delivery of the
//! resulting deltas in any order, duplication, anti-entropy style full-state sync; convergence and
//! "served value = replication state" checked on the real nodes.
use redis_sim::production::{ReplicatedShardActor, ReplicatedShardHandle};
use redis_sim::replication::lattice::ReplicaId;
use redis_sim::replication::state::ReplicationDelta;
use redis_sim::replication::ConsistencyLevel;
use serde_json::json;
use std::collections::{BTreeMap, BTreeSet};
use std::time::{Duration, Instant};
use vh::persist_kit::{client_view, project};
use vh::resp::{self, Argv};
use vh::seqx::Bfs;
use vh::{cli, Reporter, Tier};

vh::use_jemalloc!();

#[path = "c06_cluster/mod.rs"]
mod cluster;

const OPS: &[&str] = &[
    "SET k a", "SET k b", "SET k c NX", "SET k d XX", "SET k e EX 100", "SET k f GET", "DEL k", "INCR k", "INCRBY k 5", "APPEND k x", "GETSET k g",
    "HSET k f a", "HSET k f b g c", "HDEL k f", "HINCRBY k n 1", "SET k 1", "DEL k j", "SET j z",
    "SET k h NX GET", "SET k i XX GET", "SET k m KEEPTTL", "SET k p XX EX 100",
    // the remaining commands of the replicated set (every command record_mutation_post_execute knows is in the alphabet)
    "DECR k", "DECRBY k 2",
    // an expiry below one second (whatever materialises a remote value must not round it to "no time at all")
    "SET k q PX 500",
];
const MAX_DELTAS: usize = 4;

#[derive(Clone, Debug, PartialEq, Eq)]
enum Ev {
    Client(usize, usize),    // node, op
    Deliver(usize, usize),   // delta index, node
    Redeliver(usize, usize), // delta index, node
    Sync(usize, usize),      // from, to
    /// node `.0` loses its whole state (a fresh actor with the same replica id) and is brought back by a full-state
    /// sync from peer `.1` before it serves clients again
    RestartSync(usize, usize),
}

fn alphabet(nodes: usize, ops: &[usize], with_restart: bool) -> Vec<Ev> {
    let mut v = Vec::new();
    for n in 0..nodes {
        for o in ops {
            v.push(Ev::Client(n, *o));
        }
    }
    for m in 0..MAX_DELTAS {
        for n in 0..nodes {
            v.push(Ev::Deliver(m, n));
        }
    }
    for m in 0..MAX_DELTAS {
        for n in 0..nodes {
            v.push(Ev::Redeliver(m, n));
        }
    }
    for i in 0..nodes {
        for j in 0..nodes {
            if i != j {
                v.push(Ev::Sync(i, j));
            }
        }
    }
    for i in 0..nodes {
        for j in 0..nodes {
            if i != j && with_restart {
                v.push(Ev::RestartSync(i, j));
            }
        }
    }
    v
}

fn show_ev(e: &Ev) -> String {
    match e {
        Ev::Client(n, o) => format!("node{n}: {}", OPS[*o]),
        Ev::Deliver(m, n) => format!("deliver delta#{m} to node{n}"),
        Ev::Redeliver(m, n) => format!("redeliver delta#{m} to node{n}"),
        Ev::Sync(i, j) => format!("sync node{i} -> node{j}"),
        Ev::RestartSync(n, i) => format!("node{n} restarts empty and resyncs from node{i}"),
    }
}

struct World {
    nodes: Vec<ReplicatedShardHandle>,
    /// produced deltas: (origin, delta, op index)
    deltas: Vec<(usize, ReplicationDelta, usize)>,
    /// which delta ids each node has incorporated
    knows: Vec<BTreeSet<usize>>,
    delivered: BTreeSet<(usize, usize)>,
    redelivered: BTreeSet<(usize, usize)>,
    synced: BTreeSet<(usize, usize)>,
    restarted: BTreeSet<usize>,
    client_ops: usize,
    produced_nothing: Vec<String>,
    /// per produced delta: the origin's complete replicated value of that key right after the write
    ideal: Vec<redis_sim::replication::state::ReplicatedValue>,
    /// per node: what its replication state must be if it is exactly the merge (real ReplicatedValue::merge,
    /// local.merge(incoming), in the order the node incorporated them) of everything it has incorporated
    model: Vec<BTreeMap<String, redis_sim::replication::state::ReplicatedValue>>,
}

thread_local! {
    /// consistency level of the nodes the worlds of this thread are built with (set per configuration)
    static CAUSAL: std::cell::Cell<bool> = std::cell::Cell::new(false);
    static RT: tokio::runtime::Runtime = tokio::runtime::Builder::new_current_thread().enable_time().build().unwrap();
}

fn level() -> ConsistencyLevel {
    if CAUSAL.with(|c| c.get()) {
        ConsistencyLevel::Causal
    } else {
        ConsistencyLevel::Eventual
    }
}

impl World {
    fn new(n: usize) -> Self {
        World {
            nodes: (0..n).map(|i| ReplicatedShardActor::spawn(ReplicaId::new(i as u64 + 1), level(), 0)).collect(),
            deltas: Vec::new(),
            knows: vec![BTreeSet::new(); n],
            delivered: BTreeSet::new(),
            redelivered: BTreeSet::new(),
            synced: BTreeSet::new(),
            restarted: BTreeSet::new(),
            client_ops: 0,
            produced_nothing: Vec::new(),
            ideal: Vec::new(),
            model: vec![BTreeMap::new(); n],
        }
    }

    fn enabled(&self, e: &Ev, max_ops: usize) -> bool {
        match e {
            Ev::Client(_, _) => self.client_ops < max_ops && self.deltas.len() < MAX_DELTAS,
            Ev::Deliver(m, n) => *m < self.deltas.len() && self.deltas[*m].0 != *n && !self.delivered.contains(&(*m, *n)),
            Ev::Redeliver(m, n) => self.delivered.contains(&(*m, *n)) && !self.redelivered.contains(&(*m, *n)),
            Ev::Sync(i, j) => !self.synced.contains(&(*i, *j)) && !self.deltas.is_empty(),
            // one restart per history; the peer it resyncs from must hold every update the restarting node ever issued
            // (a node that comes back knowing less than it once said has no way not to reuse a stamp — persistence, C08, is
            // what prevents that in a deployment)
            Ev::RestartSync(n, i) => {
                self.restarted.is_empty()
                    && !self.knows[*n].is_empty()
                    && self.deltas.iter().enumerate().all(|(m, (origin, _, _))| origin != n || self.knows[*i].contains(&m))
            }
        }
    }

    async fn apply(&mut self, e: &Ev) {
        match e {
            Ev::Client(n, o) => {
                let cmd = resp::parse(&resp::line(OPS[*o])).expect("op parses");
                let (_reply, delta) = self.nodes[*n].execute(cmd).await;
                self.client_ops += 1;
                // the writing node's own replication state is the ground truth for its own writes
                let snap = self.nodes[*n].get_snapshot().await;
                self.model[*n] = snap.iter().map(|(k, v)| (k.clone(), v.clone())).collect();
                match delta {
                    Some(d) => {
                        let id = self.deltas.len();
                        self.ideal.push(snap.get(&d.key).cloned().unwrap_or_else(|| d.value.clone()));
                        self.deltas.push((*n, d, *o));
                        self.knows[*n].insert(id);
                    }
                    None => self.produced_nothing.push(format!("node{n}:{}", OPS[*o])),
                }
            }
            Ev::Deliver(m, n) | Ev::Redeliver(m, n) => {
                self.nodes[*n].apply_remote_delta(self.deltas[*m].1.clone());
                let _ = self.nodes[*n].get_snapshot().await; // processed
                {
                    let key = self.deltas[*m].1.key.clone();
                    let inc = self.ideal[*m].clone();
                    let merged = match self.model[*n].remove(&key) {
                        Some(local) => local.merge(&inc),
                        None => inc,
                    };
                    self.model[*n].insert(key, merged);
                }
                if matches!(e, Ev::Deliver(..)) {
                    self.delivered.insert((*m, *n));
                } else {
                    self.redelivered.insert((*m, *n));
                }
                self.knows[*n].insert(*m);
            }
            Ev::RestartSync(n, i) => {
                self.nodes[*n] = ReplicatedShardActor::spawn(ReplicaId::new(*n as u64 + 1), level(), 0);
                self.knows[*n].clear();
                self.model[*n].clear();
                self.restarted.insert(*n);
                let snap = self.nodes[*i].get_snapshot().await;
                let mut items: Vec<(String, redis_sim::replication::state::ReplicatedValue)> = snap.into_iter().collect();
                items.sort_by(|a, b| a.0.cmp(&b.0));
                for (k, v) in items {
                    self.nodes[*n].apply_remote_delta(ReplicationDelta::new(k, v, ReplicaId::new(*i as u64 + 1)));
                }
                let _ = self.nodes[*n].get_snapshot().await;
                self.model[*n] = self.model[*i].clone();
                let src = self.knows[*i].clone();
                // what the restarted node had received and the peer has not must be deliverable again
                self.delivered.retain(|(m, node)| node != n || src.contains(m));
                self.redelivered.retain(|(m, node)| node != n || src.contains(m));
                self.knows[*n] = src;
            }
            Ev::Sync(i, j) => {
                let snap = self.nodes[*i].get_snapshot().await;
                let mut items: Vec<(String, redis_sim::replication::state::ReplicatedValue)> = snap.into_iter().collect();
                items.sort_by(|a, b| a.0.cmp(&b.0));
                for (k, v) in items {
                    self.nodes[*j].apply_remote_delta(ReplicationDelta::new(k, v, ReplicaId::new(*i as u64 + 1)));
                }
                let _ = self.nodes[*j].get_snapshot().await;
                {
                    let src: Vec<(String, redis_sim::replication::state::ReplicatedValue)> = self.model[*i].iter().map(|(k, v)| (k.clone(), v.clone())).collect();
                    for (k, v) in src {
                        let merged = match self.model[*j].remove(&k) {
                            Some(local) => local.merge(&v),
                            None => v,
                        };
                        self.model[*j].insert(k, merged);
                    }
                }
                self.synced.insert((*i, *j));
                let src = self.knows[*i].clone();
                self.knows[*j].extend(src);
            }
        }
    }

    /// what a client reads on node n (keys k and j)
    async fn reads(&self, n: usize) -> BTreeMap<String, String> {
        let mut out = BTreeMap::new();
        for key in ["k", "j"] {
            let ty = resp::show(&self.nodes[n].execute(resp::parse(&resp::argv(&["TYPE", key])).unwrap()).await.0);
            let v = match ty.as_str() {
                "+none" => continue,
                "+string" => {
                    let g = self.nodes[n].execute(resp::parse(&resp::argv(&["GET", key])).unwrap()).await.0;
                    match g {
                        redis_sim::redis::RespValue::BulkString(Some(b)) => format!("string:{}", String::from_utf8_lossy(&b)),
                        o => format!("string:?{}", resp::show(&o)),
                    }
                }
                "+hash" => {
                    let r = self.nodes[n].execute(resp::parse(&resp::argv(&["HGETALL", key])).unwrap()).await.0;
                    let flat = vh::dump::bulk_items(&r).unwrap_or_default();
                    let mut p: Vec<String> = flat.chunks(2).map(|c| format!("{}={}", String::from_utf8_lossy(&c[0]), String::from_utf8_lossy(&c[1]))).collect();
                    p.sort();
                    format!("hash:{{{}}}", p.join(","))
                }
                other => other.to_string(),
            };
            let ttl = resp::show(&self.nodes[n].execute(resp::parse(&resp::argv(&["PTTL", key])).unwrap()).await.0);
            out.insert(key.to_string(), format!("{v} ttl{ttl}"));
        }
        out
    }

    async fn snapshot_views(&self, n: usize) -> (BTreeMap<String, String>, BTreeMap<String, String>) {
        let snap = self.nodes[n].get_snapshot().await;
        let mut views = BTreeMap::new();
        let mut projs = BTreeMap::new();
        for (k, v) in &snap {
            projs.insert(k.clone(), project(v));
            let cv = client_view(v);
            if cv != "absent" {
                let ttl = match v.expiry_ms {
                    Some(ms) => format!(":{}", ms),
                    None => ":-1".to_string(),
                };
                views.insert(k.clone(), format!("{cv} ttl{ttl}"));
            }
        }
        (views, projs)
    }
}

fn permute(idx: &mut Vec<usize>, k: usize, f: &mut dyn FnMut(&[usize])) {
    if k + 1 >= idx.len() {
        f(idx);
        return;
    }
    for i in k..idx.len() {
        idx.swap(k, i);
        permute(idx, k + 1, f);
        idx.swap(k, i);
    }
}

fn multi_del(evs: &[Ev]) -> bool {
    evs.iter().any(|e| matches!(e, Ev::Client(_, o) if OPS[*o] == "DEL k j"))
}

fn op_names(evs: &[Ev]) -> String {
    let mut names: Vec<String> = evs
        .iter()
        .filter_map(|e| match e {
            Ev::Client(_, o) => Some(OPS[*o].split(' ').next().unwrap().to_string() + &OPS[*o].split(' ').skip(3).map(|x| format!("-{x}")).collect::<String>()),
            _ => None,
        })
        .collect();
    names.sort();
    names.dedup();
    names.join("+")
}

/// Replay history + event; Ok(fingerprint) | Err(violation) | disabled (None)
static CAUSAL_CONFIG: std::sync::atomic::AtomicBool = std::sync::atomic::AtomicBool::new(false);

fn run(nodes: usize, max_ops: usize, alpha: &[Ev], hist: &[u16], ev: u16) -> Option<Result<String, (String, String)>> {
    CAUSAL.with(|c| c.set(CAUSAL_CONFIG.load(std::sync::atomic::Ordering::Relaxed)));
    RT.with(|rt| {
        rt.block_on(async {
            let mut w = World::new(nodes);
            for h in hist {
                w.apply(&alpha[*h as usize]).await;
            }
            let e = &alpha[ev as usize];
            if !w.enabled(e, max_ops) {
                return None;
            }
            w.apply(e).await;
            let evs: Vec<Ev> = hist.iter().map(|h| alpha[*h as usize].clone()).chain(std::iter::once(e.clone())).collect();
            let trace = evs.iter().map(show_ev).collect::<Vec<_>>().join(" ; ");
            // invariant in every state: what a node serves equals what its replication state says
            let mut fp = String::new();
            let mut all_reads = Vec::new();
            for n in 0..nodes {
                let reads = w.reads(n).await;
                let (views, projs) = w.snapshot_views(n).await;
                if reads != views {
                    let k = reads.keys().chain(views.keys()).find(|k| reads.get(*k) != views.get(*k)).unwrap().clone();
                    let cls = |o: Option<&String>| o.map(|s| s.split(|c| c == ':' || c == ' ').next().unwrap_or("?").to_string()).unwrap_or_else(|| "nothing".into());
                    let ttl_only = reads.get(&k).map(|s| s.split(" ttl").next()) == views.get(&k).map(|s| s.split(" ttl").next());
                    return Some(Err((
                        format!("serves!=replication-state {} ops={}", if ttl_only { "ttl".to_string() } else { format!("state={} served={}", cls(views.get(&k)), cls(reads.get(&k))) }, op_names(&evs)),
                        format!("[{trace}]: node{n} key {k}: clients read {:?} but the node's replication state says {:?}", reads.get(&k), views.get(&k)),
                    )));
                }
                // the node's replication state must be exactly the merge of what it has incorporated
                let want: BTreeMap<String, String> = w.model[n].iter().map(|(k, v)| (k.clone(), project(v))).collect();
                if projs != want {
                    let k = projs.keys().chain(want.keys()).find(|k| projs.get(*k) != want.get(*k)).unwrap().clone();
                    return Some(Err((
                        format!("replication-state!=merge-of-incorporated-updates ops={}", op_names(&evs)),
                        format!("[{trace}]: node{n} key {k}: replication state is {:?}, but merging (real ReplicatedValue::merge, in the order the node incorporated them) the writers' complete values of everything this node has incorporated gives {:?}", projs.get(&k), want.get(&k)),
                    )));
                }
                fp.push_str(&format!("n{n}:{:?}|{:?};", projs, reads));
                all_reads.push(reads);
            }
            // convergence once every node has incorporated every delta
            let all: BTreeSet<usize> = (0..w.deltas.len()).collect();
            if !w.deltas.is_empty() && w.knows.iter().all(|k| *k == all) {
                for n in 1..nodes {
                    if all_reads[n] != all_reads[0] {
                        let k = all_reads[0].keys().chain(all_reads[n].keys()).find(|k| all_reads[0].get(*k) != all_reads[n].get(*k)).unwrap().clone();
                        // Cause classification: if the merge of this key's deltas depends on the order in which
                        // they are merged (C07's subject: e.g. a hash, a register tombstone and a hash again), the
                        // divergence is that of the merge function, and is named by the CRDT kinds involved
                        // rather than by the commands that produced them.
                        let vals: Vec<&redis_sim::replication::state::ReplicatedValue> = w.deltas.iter().filter(|(_, d, _)| d.key == k).map(|(_, d, _)| &d.value).collect();
                        let order_dependent = {
                            let mut outs = BTreeSet::new();
                            let mut idx: Vec<usize> = (0..vals.len()).collect();
                            permute(&mut idx, 0, &mut |p: &[usize]| {
                                let mut acc = vals[p[0]].clone();
                                for i in &p[1..] {
                                    acc = acc.merge(vals[*i]);
                                }
                                outs.insert(project(&acc));
                            });
                            outs.len() > 1
                        };
                        // ... but only if every PAIR of them still merges to the same value both ways: a merge that is not
                        // even commutative is a different defect than the listed regrouping one and keeps its own name
                        let not_commutative = (0..vals.len()).any(|i| (i + 1..vals.len()).any(|j| project(&vals[i].merge(vals[j])) != project(&vals[j].merge(vals[i]))));
                        let kinds = {
                            let mut ks: Vec<&str> = vals.iter().map(|v| if v.crdt.type_name() == "lww" || v.crdt.type_name() == "string" { "Lww" } else { v.crdt.type_name() }).collect();
                            ks.sort();
                            ks.dedup();
                            ks.join("+")
                        };
                        return Some(Err((
                            if multi_del(&evs) { "diverged after-multi-key-DEL".to_string() } else if not_commutative { format!("diverged merge-not-commutative kinds={kinds}") } else if order_dependent { format!("diverged merge-order-dependent kinds={kinds}") } else { format!("diverged ops={}", op_names(&evs)) },
                            format!("[{trace}]: every delta has reached every node, yet node0 reads {:?} and node{n} reads {:?} for key {k}", all_reads[0].get(&k), all_reads[n].get(&k)),
                        )));
                    }
                }
                // plain string histories: the agreed value is the one carrying the greatest stamp
                let plain = w.deltas.iter().all(|(_, _, o)| matches!(OPS[*o], "SET k a" | "SET k b" | "SET k 1"));
                if plain {
                    let best = w.deltas.iter().max_by_key(|(_, d, _)| (d.value.timestamp.time, d.value.timestamp.replica_id.0)).unwrap();
                    let want = format!("{} ttl:-1", client_view(&best.1.value));
                    if all_reads[0].get("k") != Some(&want) {
                        return Some(Err((
                            if multi_del(&evs) { "max-stamp-does-not-win after-multi-key-DEL".to_string() } else { "max-stamp-does-not-win".to_string() },
                            format!("[{trace}]: agreed value {:?}, but the write with the greatest stamp is {}", all_reads[0].get("k"), project(&best.1.value)),
                        )));
                    }
                }
            }
            fp.push_str(&format!("ops{};", w.client_ops));
            for (i, (origin, d, _)) in w.deltas.iter().enumerate() {
                fp.push_str(&format!("d{i}@{origin}:{}:{};", d.key, project(&d.value)));
            }
            fp.push_str(&format!("del{:?}red{:?}syn{:?}kn{:?}rs{:?}", w.delivered, w.redelivered, w.synced, w.knows, w.restarted));
            Some(Ok(fp))
        })
    })
}


// ---------------------------------------------------------------------------------------------
// command-set sweep: what a node serves after ONE command of the full command set vs its own replication state
// ---------------------------------------------------------------------------------------------

const SWEEP_SEEDS: &[(&str, &[&str])] = &[
    ("none", &[]),
    ("string", &["SET k 10"]),
    ("string+ttl", &["SET k 10 EX 100"]),
    ("hash", &["HSET k a 1 b 2"]),
];

fn sweep_instances() -> Vec<Argv> {
    vh::cmdgen::all_instances(vh::cmdgen::Profile::Routing)
        .into_iter()
        .filter(|a| !a.is_empty())
        .map(|a| a.into_iter().map(|t| if t == b"k1" { b"k".to_vec() } else if t == b"k2" { b"j".to_vec() } else { t }).collect::<Argv>())
        .filter(|a| resp::parse(a).is_ok())
        // MULTI/EXEC/DISCARD/WATCH/UNWATCH are connection-level commands (the handler never forwards them to a shard)
        .filter(|a| !matches!(String::from_utf8_lossy(&a[0]).to_ascii_uppercase().as_str(), "MULTI" | "EXEC" | "DISCARD" | "WATCH" | "UNWATCH"))
        .collect()
}

/// Err((signature, detail)) when node 0 serves something else than its replication state says after `seed; inst`.
fn sweep_case(seed: usize, inst: &Argv) -> Result<(), (String, String)> {
    RT.with(|rt| {
        rt.block_on(async {
            let w = World::new(1);
            for s in SWEEP_SEEDS[seed].1 {
                let _ = w.nodes[0].execute(resp::parse(&resp::line(s)).expect("seed parses")).await;
            }
            let (reply, _) = w.nodes[0].execute(resp::parse(inst).expect("filtered")).await;
            let reads = w.reads(0).await;
            let (views, _) = w.snapshot_views(0).await;
            if reads == views {
                return Ok(());
            }
            let k = reads.keys().chain(views.keys()).find(|k| reads.get(*k) != views.get(*k)).unwrap().clone();
            let mut name = String::from_utf8_lossy(&inst[0]).to_ascii_uppercase();
            if matches!(name.as_str(), "SCRIPT" | "OBJECT" | "DEBUG" | "CONFIG" | "CLIENT") && inst.len() > 1 {
                name = format!("{name} {}", String::from_utf8_lossy(&inst[1]).to_ascii_uppercase());
            }
            Err((
                format!("serves!=replication-state after-one-command {name}"),
                format!("key k holds {} ; `{}` (reply {}) on a replicated node: clients read {:?} for key {k} but the node's replication state says {:?}", SWEEP_SEEDS[seed].0, resp::show_argv(inst), resp::show(&reply).chars().take(80).collect::<String>(), reads.get(&k), views.get(&k)),
            ))
        })
    })
}

fn main() {
    let args = cli::parse_args();
    vh::quiet_panics();
    let thorough = args.tier == Tier::Thorough;
    // (nodes, client ops, op subset, depth)
    let all_ops: Vec<usize> = (0..OPS.len()).collect();
    let core_ops: Vec<usize> = vec![0, 1, 2, 4, 6, 9, 11, 13];
    let configs: Vec<(usize, usize, Vec<usize>, usize)> = if thorough {
        // last configuration: 4 client writes over {HSET one field, HINCRBY another, DEL}: a delta can meet a register of
        // the other type whose stamp lies between two hash writes of one node
        vec![(2, 3, all_ops.clone(), 9), (3, 2, all_ops.clone(), 8), (3, 3, core_ops.clone(), 9), (2, 4, vec![11, 13, 14], 9), (2, 4, vec![11, 14, 6], 8)]
    } else {
        // the third configuration (8 core operations) is the one that carries the restart-and-resync event in the quick tier
        // the second-to-last configuration: 4 client writes over {HSET a field, HDEL it, HINCRBY another field}: a hash that
        // is emptied and written again while the other node still ships the field alive
        vec![(2, 2, all_ops.clone(), 7), (2, 3, core_ops.clone(), 6), (2, 4, vec![11, 13, 14], 8), (2, 2, core_ops.clone(), 7)]
    };
    // the last configuration of each tier is run a second time on nodes with ConsistencyLevel::Causal (vector clocks)
    let causal_from = configs.len();
    let configs: Vec<(usize, usize, Vec<usize>, usize)> = configs.iter().cloned().chain(std::iter::once(if thorough { (2, 3, all_ops.clone(), 8) } else { (2, 2, core_ops.clone(), 7) })).collect();
    if let Some(path) = &args.replay {
        let r = vh::report::load_replay(path);
        if r["sweep"] == json!(true) {
            let inst: Argv = r["command"].as_array().unwrap().iter().map(|t| resp::unescape(t.as_str().unwrap())).collect();
            let seed = SWEEP_SEEDS.iter().position(|x| x.0 == r["key_holds"].as_str().unwrap()).unwrap();
            match sweep_case(seed, &inst) {
                Err((sig, detail)) => {
                    println!("{detail}");
                    println!("VIOLATION property=C06 replay={} ({sig})", path.display());
                    std::process::exit(1);
                }
                Ok(()) => {
                    println!("replay: no violation");
                    std::process::exit(0);
                }
            }
        }
        if r["cluster_sweep"] == json!(true) {
            let inst: Argv = r["command"].as_array().unwrap().iter().map(|t| resp::unescape(t.as_str().unwrap())).collect();
            let seed = cluster::SWEEP_SEEDS.iter().position(|x| x.0 == r["key_holds"].as_str().unwrap()).unwrap();
            match RT.with(|rt| rt.block_on(cluster::sweep_case(seed, &inst))).violation {
                Some((sig, detail)) => {
                    println!("{detail}");
                    println!("VIOLATION property=C06 replay={} ({sig})", path.display());
                    std::process::exit(1);
                }
                None => {
                    println!("replay: no violation");
                    std::process::exit(0);
                }
            }
        }
        if r["simulated_cluster"] == json!(true) {
            let nodes = r["nodes"].as_u64().unwrap() as usize;
            let ops: Vec<usize> = r["ops"].as_array().unwrap().iter().map(|x| x.as_u64().unwrap() as usize).collect();
            let alpha = cluster::sim::alphabet(nodes, &ops);
            let hist: Vec<u16> = r["history"].as_array().unwrap().iter().map(|x| x.as_u64().unwrap() as u16).collect();
            let b = cluster::sim::Bounds { max_writes: r["max_writes"].as_u64().unwrap() as usize, max_partitions: r["max_partitions"].as_u64().unwrap() as usize };
            match cluster::sim::run(nodes, r["rf"].as_u64().unwrap() as usize, &b, &alpha, &hist, r["event"].as_u64().unwrap() as u16) {
                Some(Err((sig, detail))) => {
                    println!("{detail}");
                    println!("VIOLATION property=C06 replay={} ({sig})", path.display());
                    std::process::exit(1);
                }
                other => {
                    println!("replay: no violation ({})", if other.is_none() { "event disabled" } else { "ok" });
                    std::process::exit(0);
                }
            }
        }
        if r["cluster"] == json!(true) {
            let nodes = r["nodes"].as_u64().unwrap() as usize;
            let ops: Vec<usize> = r["ops"].as_array().unwrap().iter().map(|x| x.as_u64().unwrap() as usize).collect();
            let alpha = cluster::alphabet(nodes, &ops, r["max_msgs"].as_u64().unwrap() as usize);
            let hist: Vec<u16> = r["history"].as_array().unwrap().iter().map(|x| x.as_u64().unwrap() as u16).collect();
            let ev = r["event"].as_u64().unwrap() as u16;
            let mode = cluster::Mode::parse(r["mode"].as_str().unwrap());
            match RT.with(|rt| rt.block_on(cluster::run(mode, nodes, r["rf"].as_u64().unwrap() as usize, r["max_ops"].as_u64().unwrap() as usize, &alpha, &hist, ev))) {
                Some(Err((sig, detail))) => {
                    println!("{detail}");
                    println!("VIOLATION property=C06 replay={} ({sig})", path.display());
                    std::process::exit(1);
                }
                other => {
                    println!("replay: no violation ({})", if other.is_none() { "event disabled" } else { "ok" });
                    std::process::exit(0);
                }
            }
        }
        let nodes = r["nodes"].as_u64().unwrap() as usize;
        let ops: Vec<usize> = r["ops"].as_array().unwrap().iter().map(|x| x.as_u64().unwrap() as usize).collect();
        CAUSAL_CONFIG.store(r["causal"].as_bool().unwrap_or(false), std::sync::atomic::Ordering::Relaxed);
        let mut alpha = alphabet(nodes, &ops, r["with_restart"].as_bool().unwrap_or(false));
        if ops.as_slice() == [11, 13, 14] {
            alpha.retain(|e| !matches!(e, Ev::Client(1, 11) | Ev::Client(1, 13)));
        }
        let hist: Vec<u16> = r["history"].as_array().unwrap().iter().map(|x| x.as_u64().unwrap() as u16).collect();
        let ev = r["event"].as_u64().unwrap() as u16;
        match run(nodes, r["max_ops"].as_u64().unwrap() as usize, &alpha, &hist, ev) {
            Some(Err((sig, detail))) => {
                println!("{detail}");
                println!("VIOLATION property=C06 replay={} ({sig})", path.display());
                std::process::exit(1);
            }
            other => {
                println!("replay: no violation ({})", if other.is_none() { "event disabled" } else { "ok" });
                std::process::exit(0);
            }
        }
    }
    let rep = Reporter::new("C06", "model_checking", &args);
    let mut reports = Vec::new();
    let (mut states, mut transitions) = (0u64, 0u64);
    let mut exhaustive = true;
    for (ci, (nodes, max_ops, ops, depth)) in configs.iter().enumerate() {
        let causal = ci >= causal_from;
        CAUSAL_CONFIG.store(causal, std::sync::atomic::Ordering::Relaxed);
        let with_restart = thorough || (ops.len() == core_ops.len() && *max_ops == 2);
        let mut alpha = alphabet(*nodes, ops, with_restart);
        if ops.as_slice() == [11, 13, 14] {
            // node 0 owns the field's life cycle (HSET, HDEL, write again), node 1 only writes the other field
            alpha.retain(|e| !matches!(e, Ev::Client(1, 11) | Ev::Client(1, 13)));
        }
        let mut bfs = Bfs::new(alpha.len(), *depth);
        bfs.deadline = Some(Instant::now() + Duration::from_secs(if thorough { 420 } else { 120 }));
        let disabled = std::sync::atomic::AtomicU64::new(0);
        let stats = bfs.run("init", |hist, ev| match run(*nodes, *max_ops, &alpha, hist, ev) {
            None => {
                disabled.fetch_add(1, std::sync::atomic::Ordering::Relaxed);
                None
            }
            Some(Ok(fp)) => Some(fp),
            Some(Err((sig, detail))) => {
                rep.violation(if causal { format!("{sig} causal") } else { sig }, detail, json!({"nodes": nodes, "max_ops": max_ops, "ops": ops, "with_restart": with_restart, "causal": causal, "history": hist, "event": ev,
                    "shown": hist.iter().map(|h| show_ev(&alpha[*h as usize])).chain(std::iter::once(show_ev(&alpha[ev as usize]))).collect::<Vec<_>>()}));
                None
            }
        });
        let dis = disabled.load(std::sync::atomic::Ordering::Relaxed);
        eprintln!(
            "nodes={nodes} client_ops<={max_ops} ops={} depth={} completed={} states={} enabled_transitions={} violating={} truncated={} ({:.1}s)",
            ops.len(), depth, stats.depth_completed, stats.states, stats.transitions - dis, stats.pruned_transitions - dis, stats.truncated, rep.elapsed_s()
        );
        states += stats.states;
        transitions += stats.transitions - dis;
        if stats.truncated {
            exhaustive = false;
        }
        reports.push(json!({"nodes": nodes, "client_ops_bound": max_ops, "op_alphabet": ops.iter().map(|o| OPS[*o]).collect::<Vec<_>>(), "depth_bound": depth,
            "depth_completed": stats.depth_completed, "states": stats.states, "enabled_transitions": stats.transitions - dis,
            "violating_transitions": stats.pruned_transitions - dis, "truncated_by_time_cap": stats.truncated, "frontier_sizes": stats.frontier_sizes, "restart_and_resync_event": with_restart, "consistency_level": if causal { "Causal" } else { "Eventual" }}));
    }
    CAUSAL_CONFIG.store(false, std::sync::atomic::Ordering::Relaxed);
    // ---- part (c): whole nodes exchanging real gossip messages ----
    let cl_all: Vec<usize> = (0..cluster::CL_OPS.len()).collect();
    let cl_core: Vec<usize> = vec![0, 2, 3, 4, 5, 6];
    // (mode, nodes, rf, client ops, op subset, depth)
    let cl_configs: Vec<(cluster::Mode, usize, usize, usize, Vec<usize>, usize)> = if thorough {
        vec![
            (cluster::Mode::Broadcast, 2, 2, 3, cl_all.clone(), 12),
            (cluster::Mode::Broadcast, 3, 3, 2, cl_all.clone(), 12),
            (cluster::Mode::Selective, 3, 2, 3, cl_core.clone(), 12),
            (cluster::Mode::Selective, 3, 1, 2, cl_all.clone(), 10),
            (cluster::Mode::Actor, 2, 2, 2, cl_all.clone(), 8),
        ]
    } else {
        vec![
            (cluster::Mode::Broadcast, 2, 2, 2, cl_all.clone(), 8),
            (cluster::Mode::Selective, 3, 2, 2, cl_core.clone(), 8),
            (cluster::Mode::Actor, 2, 2, 2, cl_core.clone(), 6),
        ]
    };
    let mut cluster_reports = Vec::new();
    for (mode, nodes, rf, max_ops, ops, depth) in &cl_configs {
        let max_msgs = max_ops * (nodes - 1);
        let alpha = cluster::alphabet(*nodes, ops, max_msgs);
        let mut bfs = Bfs::new(alpha.len(), *depth);
        bfs.deadline = Some(Instant::now() + Duration::from_secs(if thorough { 240 } else { 60 }));
        let disabled = std::sync::atomic::AtomicU64::new(0);
        let quiescent_states = std::sync::atomic::AtomicU64::new(0);
        let stats = bfs.run("init", |hist, ev| match RT.with(|rt| rt.block_on(cluster::run(*mode, *nodes, *rf, *max_ops, &alpha, hist, ev))) {
            None => {
                disabled.fetch_add(1, std::sync::atomic::Ordering::Relaxed);
                None
            }
            Some(Ok(fp)) => {
                if fp.starts_with("Q|") {
                    quiescent_states.fetch_add(1, std::sync::atomic::Ordering::Relaxed);
                }
                Some(fp)
            }
            Some(Err((sig, detail))) => {
                rep.violation(sig, detail, json!({"cluster": true, "mode": mode.name(), "nodes": nodes, "rf": rf, "max_ops": max_ops, "ops": ops, "max_msgs": max_msgs, "history": hist, "event": ev,
                    "shown": hist.iter().map(|h| cluster::show_ev(&alpha[*h as usize])).chain(std::iter::once(cluster::show_ev(&alpha[ev as usize]))).collect::<Vec<_>>()}));
                None
            }
        });
        let dis = disabled.load(std::sync::atomic::Ordering::Relaxed);
        eprintln!(
            "cluster mode={} nodes={nodes} rf={rf} client_ops<={max_ops} ops={} depth={} completed={} states={} enabled_transitions={} violating={} truncated={} ({:.1}s)",
            mode.name(), ops.len(), depth, stats.depth_completed, stats.states, stats.transitions - dis, stats.pruned_transitions - dis, stats.truncated, rep.elapsed_s()
        );
        states += stats.states;
        transitions += stats.transitions - dis;
        if stats.truncated {
            exhaustive = false;
        }
        cluster_reports.push(json!({"mode": mode.name(), "nodes": nodes, "replication_factor": rf, "client_ops_bound": max_ops, "op_alphabet": ops.iter().map(|o| cluster::CL_OPS[*o]).collect::<Vec<_>>(),
            "depth_bound": depth, "depth_completed": stats.depth_completed, "states": stats.states, "enabled_transitions": stats.transitions - dis,
            "violating_transitions": stats.pruned_transitions - dis, "truncated_by_time_cap": stats.truncated, "frontier_sizes": stats.frontier_sizes,
            "transitions_into_quiescent_states_where_convergence_was_judged": quiescent_states.load(std::sync::atomic::Ordering::Relaxed)}));
    }
    // ---- part (d): the repository's cluster model with partitions that heal ----
    let sim_all: Vec<usize> = (0..cluster::sim::SIM_OPS.len()).collect();
    let sim_core: Vec<usize> = vec![0, 1, 2, 3];
    // (nodes, rf, writes, partitions, ops, depth)
    let sim_configs: Vec<(usize, usize, usize, usize, Vec<usize>, usize)> = if thorough {
        vec![(2, 2, 3, 2, sim_all.clone(), 10), (3, 3, 3, 2, sim_core.clone(), 10), (3, 3, 2, 3, sim_all.clone(), 10), (3, 2, 3, 2, sim_core.clone(), 10), (4, 2, 2, 2, sim_core.clone(), 9)]
    } else {
        vec![(2, 2, 2, 1, sim_all.clone(), 7), (3, 3, 2, 2, sim_core.clone(), 8), (3, 2, 2, 1, sim_core.clone(), 7)]
    };
    let mut sim_reports = Vec::new();
    for (nodes, rf, writes, parts, ops, depth) in &sim_configs {
        let alpha = cluster::sim::alphabet(*nodes, ops);
        let b = cluster::sim::Bounds { max_writes: *writes, max_partitions: *parts };
        let mut bfs = Bfs::new(alpha.len(), *depth);
        bfs.deadline = Some(Instant::now() + Duration::from_secs(if thorough { 240 } else { 60 }));
        let disabled = std::sync::atomic::AtomicU64::new(0);
        let quiescent_states = std::sync::atomic::AtomicU64::new(0);
        let stats = bfs.run("init", |hist, ev| match cluster::sim::run(*nodes, *rf, &b, &alpha, hist, ev) {
            None => {
                disabled.fetch_add(1, std::sync::atomic::Ordering::Relaxed);
                None
            }
            Some(Ok(fp)) => {
                if fp.starts_with("Q|") {
                    quiescent_states.fetch_add(1, std::sync::atomic::Ordering::Relaxed);
                }
                Some(fp)
            }
            Some(Err((sig, detail))) => {
                rep.violation(sig, detail, json!({"simulated_cluster": true, "nodes": nodes, "rf": rf, "max_writes": writes, "max_partitions": parts, "ops": ops, "history": hist, "event": ev,
                    "shown": hist.iter().map(|h| cluster::sim::show_ev(&alpha[*h as usize])).chain(std::iter::once(cluster::sim::show_ev(&alpha[ev as usize]))).collect::<Vec<_>>()}));
                None
            }
        });
        let dis = disabled.load(std::sync::atomic::Ordering::Relaxed);
        eprintln!(
            "simulated cluster nodes={nodes} rf={rf} writes<={writes} partitions<={parts} ops={} depth={} completed={} states={} enabled_transitions={} violating={} truncated={} ({:.1}s)",
            ops.len(), depth, stats.depth_completed, stats.states, stats.transitions - dis, stats.pruned_transitions - dis, stats.truncated, rep.elapsed_s()
        );
        states += stats.states;
        transitions += stats.transitions - dis;
        if stats.truncated {
            exhaustive = false;
        }
        sim_reports.push(json!({"nodes": nodes, "replication_factor": rf, "writes_bound": writes, "partitions_bound": parts, "op_alphabet": ops.iter().map(|o| cluster::sim::SIM_OPS[*o]).collect::<Vec<_>>(),
            "depth_bound": depth, "depth_completed": stats.depth_completed, "states": stats.states, "enabled_transitions": stats.transitions - dis,
            "violating_transitions": stats.pruned_transitions - dis, "truncated_by_time_cap": stats.truncated, "frontier_sizes": stats.frontier_sizes,
            "transitions_into_quiescent_states_where_convergence_was_judged": quiescent_states.load(std::sync::atomic::Ordering::Relaxed)}));
    }
    // node-level command-set sweep
    let cl_insts = sweep_instances();
    let cl_items: Vec<(usize, usize)> = (0..cluster::SWEEP_SEEDS.len()).flat_map(|s| (0..cl_insts.len()).map(move |i| (s, i))).collect();
    let cl_skipped = std::sync::atomic::AtomicU64::new(0);
    vh::par::par_map(&cl_items, |_, (s, i)| {
        let out = RT.with(|rt| rt.block_on(cluster::sweep_case(*s, &cl_insts[*i])));
        if out.skipped_shard_level {
            cl_skipped.fetch_add(1, std::sync::atomic::Ordering::Relaxed);
        }
        if let Some((sig, detail)) = out.violation {
            rep.violation(sig, detail, json!({"cluster_sweep": true, "key_holds": cluster::SWEEP_SEEDS[*s].0, "command": cl_insts[*i].iter().map(|t| resp::esc(t)).collect::<Vec<_>>()}));
        }
    });
    eprintln!("cluster sweep: {} cases, {} left to the shard-level sweep ({:.1}s)", cl_items.len(), cl_skipped.load(std::sync::atomic::Ordering::Relaxed), rep.elapsed_s());
    // command-set sweep on one node
    let insts = sweep_instances();
    let sweep_items: Vec<(usize, usize)> = (0..SWEEP_SEEDS.len()).flat_map(|s| (0..insts.len()).map(move |i| (s, i))).collect();
    vh::par::par_map(&sweep_items, |_, (s, i)| {
        if let Err((sig, detail)) = sweep_case(*s, &insts[*i]) {
            rep.violation(sig, detail, json!({"sweep": true, "key_holds": SWEEP_SEEDS[*s].0, "command": insts[*i].iter().map(|t| resp::esc(t)).collect::<Vec<_>>()}));
        }
    });
    let coverage = json!({
        "command_set_sweep": {"command_instances": insts.len(), "cases": sweep_items.len(), "key_states": SWEEP_SEEDS.iter().map(|x| x.0).collect::<Vec<_>>(),
            "rule": "every command shape of the parsers' command set (template product, one or two well-formed values per argument) is executed once on a fresh replicated node whose key k is absent / a string / a string with TTL / a hash; afterwards what clients read for k and j (TYPE, GET / HGETALL, TTL) must equal the projection of the node's own replication snapshot"},
        "states": states,
        "transitions": transitions,
        "traces_validated_against_impl": transitions,
        "configs": reports,
        "simulated_cluster_with_partitions": {
            "rule": "simulator::MultiNodeSimulation (per node a real CommandExecutor, ShardReplicaState and AntiEntropyManager; rf < n: GossipRouter over a HashRing) explored by BFS over {client write on any node, gossip round after the clock moved past the greatest message delay, gossip round with the clock standing (its messages stay in flight), partition of any connected pair, heal of any partitioned pair (which runs the digest-driven anti-entropy exchange)}; states deduplicated on (per-node replication state, reads and undrained updates; in-flight queue; partitions; write and partition counters) — message delays and the RNG are left out because every delay is shorter than the one clock step in the alphabet. Oracle: in every state each node's executor serves what its replication state says; in every state without partitions, in-flight messages and undrained updates all nodes (rf < n: all owners) read k and j alike",
            "configs": sim_reports,
        },
        "node_level": {
            "rule": "whole nodes: real ReplicatedShardedState (16 replicated shard actors each), the real gossip outbox (GossipState behind the lock, or GossipActor), for rf < n the real GossipRouter over a HashRing; a gossip round is one iteration of GossipManager::start_gossip_loop up to the TCP write (advance_epoch, queue_deltas(collect()) with collect() = [] as server_persistent wires it, drain_outbound, serialize, one copy per target); a delivery is what the gossip listener does (deserialize, into_deltas, apply_remote_deltas). BFS over {client command on any node, round of any node with a non-empty outbox, delivery of any in-flight message in any order, one re-delivery per message}. Oracle: in every state each node serves what its replication state says; in every state with all outboxes drained and all messages delivered, all nodes responsible for a key (all nodes, or the key's ring owners) read it alike",
            "configs": cluster_reports,
            "command_set_sweep": {"cases": cl_items.len(), "command_instances": cl_insts.len(), "left_to_shard_level_sweep": cl_skipped.load(std::sync::atomic::Ordering::Relaxed),
                "key_states": cluster::SWEEP_SEEDS.iter().map(|x| x.0).collect::<Vec<_>>(),
                "rule": "two-node cluster whose nodes agree on the seeded keys; node0 executes one command of the command set, runs a gossip round, node1 receives every message; both nodes must then read k and j alike (cases where node0 already serves something else than its own replication state are the shard-level sweep's findings and are not judged again)"},
        },
        "samples": [["node0: SET k a", "node1: HSET k f a", "deliver delta#0 to node1", "deliver delta#1 to node0"], ["node0: SET k e EX 100", "node1: SET k a", "sync node0 -> node1", "sync node1 -> node0"]],
        "exhaustive": exhaustive,
        "rule": "BFS over events {client command on any node (18 commands on one key + a second key), delivery of any produced delta to any other node (any order), one re-delivery per (delta,node), one full-state sync per ordered node pair, at most one restart of a node that loses its whole state and is resynced from a peer holding everything that node ever issued before it serves clients again}; every state is reached by replaying its history on fresh real ReplicatedShardActors; in every state each node's client-visible reads (TYPE/GET/HGETALL/TTL) must equal the projection of its own replication snapshot; in states where every node has incorporated every produced delta all nodes must read alike, and for plain SET histories the agreed value is the write with the greatest (time, replica) stamp; states deduplicated on (per-node snapshot + reads, deltas, delivery/sync bookkeeping)",
    });
    rep.finish(
        coverage,
        vec![
            "nodes are real ReplicatedShardActors (the production glue: record_mutation_post_execute / apply_remote_delta_impl); calls are awaited sequentially, so actor scheduling is not a dimension".into(),
            "anti-entropy is modelled as applying a node's full snapshot to another node (what run_anti_entropy_sync ships for divergent buckets)".into(),
            "the executor's clock of these actors never advances, so TTLs are compared as whole seconds".into(),
        ],
    );
}
