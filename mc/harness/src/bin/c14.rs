//! C14 — stored and gossiped updates round-trip; damaged storage is detected, not decoded.
//!
//! Part 1 (round trip): structural enumeration of `ReplicationDelta` values (CRDT payload x
//! metadata x key x source replica) through the four real encodings, in batches of 1, 2 and 5;
//! equality is decided on a canonical form of the `Debug` rendering (hash maps / sets sorted,
//! private fields included, independent of serde).
//! Part 2 (damage): for encoded WAL entries, segments and checkpoints, every truncation length and
//! every single-bit flip (thorough: also every byte set to 00 / FF): the reader protocol used by
//! recovery (open -> validate -> read) reports an error (WAL: `decode` returns None) or yields
//! exactly the original data; no panic; largest allocation bounded by the image size.
use redis_sim::replication::gossip::GossipMessage;
use redis_sim::replication::lattice::ReplicaId;
use redis_sim::replication::state::{CrdtValue, ReplicatedValue, ReplicationDelta};
use redis_sim::streaming::segment::{Compression, SegmentReader, SegmentWriter};
use redis_sim::streaming::wal::WalEntry;
use redis_sim::streaming::{CheckpointReader, CheckpointWriter};
use serde_json::{json, Value};
use std::collections::{BTreeMap, HashMap, HashSet};
use std::panic::{catch_unwind, AssertUnwindSafe};
use vh::imgx::{self, canon, Mutation, MutationSet};
use vh::{cli, par, Reporter, Tier};

#[global_allocator]
static ALLOC: imgx::CountingAlloc = imgx::CountingAlloc;

const ALLOC_C0: usize = 4 << 20;
const ALLOC_C1: usize = 4;
const SOURCES: [u64; 2] = [1, u64::MAX];
const BATCHES: [usize; 3] = [1, 2, 5];

type Meta = (String, Option<redis_sim::replication::lattice::VectorClock>, Option<u64>, redis_sim::replication::lattice::LamportClock, Option<u8>);
/// (crdt variant, metadata variant, key variant, source variant)
type Id = [usize; 4];

struct Universe {
    crdts: Vec<(&'static str, String, CrdtValue)>,
    metas: Vec<Meta>,
    keys: Vec<(&'static str, String)>,
}

impl Universe {
    fn new() -> Self {
        Universe { crdts: imgx::crdt_values(), metas: imgx::metas(), keys: imgx::keys() }
    }
    fn value(&self, id: Id) -> ReplicatedValue {
        imgx::make_value(&self.crdts[id[0]].2, &self.metas[id[1]])
    }
    fn delta(&self, id: Id) -> ReplicationDelta {
        ReplicationDelta::new(self.keys[id[2]].1.clone(), self.value(id), ReplicaId(SOURCES[id[3]]))
    }
    fn kind(&self, id: Id) -> &'static str {
        self.crdts[id[0]].0
    }
    fn label(&self, id: Id) -> String {
        format!(
            "{}[{}] {} key={} src={}",
            self.crdts[id[0]].0, self.crdts[id[0]].1, self.metas[id[1]].0, self.keys[id[2]].0, SOURCES[id[3]]
        )
    }
    fn all_ids(&self) -> Vec<Id> {
        let mut v = Vec::new();
        for c in 0..self.crdts.len() {
            for m in 0..self.metas.len() {
                for k in 0..self.keys.len() {
                    for s in 0..SOURCES.len() {
                        v.push([c, m, k, s]);
                    }
                }
            }
        }
        v
    }
}

fn ids_json(ids: &[Id]) -> Value {
    json!(ids.iter().map(|i| i.to_vec()).collect::<Vec<_>>())
}

fn ids_from_json(v: &Value) -> Vec<Id> {
    v.as_array()
        .map(|a| {
            a.iter()
                .map(|x| {
                    let mut id = [0usize; 4];
                    for (i, n) in x.as_array().into_iter().flatten().take(4).enumerate() {
                        id[i] = n.as_u64().unwrap_or(0) as usize;
                    }
                    id
                })
                .collect()
        })
        .unwrap_or_default()
}

struct Found {
    sig: String,
    detail: String,
    replay: Value,
}

fn first_diff(a: &str, b: &str) -> String {
    let i = a.bytes().zip(b.bytes()).position(|(x, y)| x != y).unwrap_or(a.len().min(b.len()));
    let cut = |s: &str| {
        let lo = i.saturating_sub(40);
        let hi = (i + 60).min(s.len());
        let mut lo2 = lo;
        while !s.is_char_boundary(lo2) {
            lo2 -= 1;
        }
        let mut hi2 = hi;
        while !s.is_char_boundary(hi2) {
            hi2 += 1;
        }
        s[lo2..hi2].to_string()
    };
    format!("first difference at canonical offset {i}: written ..{}.. read ..{}..", cut(a), cut(b))
}

/// Name of the struct field whose value contains the first difference (nearest `name:` before it in
/// the canonical text of what was written).
fn diff_field(a: &str, b: &str) -> String {
    let i = a.bytes().zip(b.bytes()).position(|(x, y)| x != y).unwrap_or(a.len().min(b.len()));
    let s = a.as_bytes();
    let ident = |c: u8| c.is_ascii_alphanumeric() || c == b'_';
    let mut j = i.min(s.len().saturating_sub(1));
    while j > 0 {
        if s[j] == b':' && ident(s[j - 1]) {
            let mut k = j;
            while k > 0 && ident(s[k - 1]) {
                k -= 1;
            }
            // a field name starts with a lower-case letter and follows `{`, `,` or `(`
            if s[k].is_ascii_lowercase() && (k == 0 || matches!(s[k - 1], b'{' | b',' | b'(')) {
                return String::from_utf8_lossy(&s[k..j]).into_owned();
            }
        }
        j -= 1;
    }
    "value".to_string()
}

// ---------------------------------------------------------------------------------------------
// encoders / readers (the protocol recovery uses)
// ---------------------------------------------------------------------------------------------

fn checkpoint_key(u: &Universe, id: Id, j: usize, batch: usize) -> String {
    if batch == 1 {
        u.keys[id[2]].1.clone()
    } else {
        format!("{}#{j}", u.keys[id[2]].1)
    }
}

fn checkpoint_meta(ids: &[Id]) -> (u64, u64) {
    let x = ids[0][0] + ids[0][1];
    ([0u64, 1_700_000_000_123, u64::MAX][x % 3], [0u64, 42, u64::MAX][(x / 3) % 3])
}

fn wal_stamp(d: &ReplicationDelta) -> u64 {
    d.value.timestamp.time
}

fn encode_wal(deltas: &[ReplicationDelta]) -> Result<Vec<u8>, String> {
    let mut out = Vec::new();
    for d in deltas {
        let e = WalEntry::from_delta(d, wal_stamp(d)).map_err(|e| format!("from_delta: {e}"))?;
        out.extend_from_slice(&e.encode());
    }
    Ok(out)
}

fn encode_segment(deltas: &[ReplicationDelta]) -> Result<Vec<u8>, String> {
    let mut w = SegmentWriter::new(Compression::None);
    for d in deltas {
        w.write_delta(d).map_err(|e| format!("write_delta: {e}"))?;
    }
    w.finish().map_err(|e| format!("finish: {e}"))
}

fn encode_checkpoint(state: &[(String, ReplicatedValue)], ts: u64, last_seg: u64) -> Result<Vec<u8>, String> {
    let map: HashMap<String, ReplicatedValue> = state.iter().cloned().collect();
    CheckpointWriter::new(Compression::None).write(map, ts, last_seg).map_err(|e| format!("write: {e}"))
}

/// What a reader returned: Err(stage: error) = damage reported.
type SegRead = Result<(u32, u64, u64, Vec<ReplicationDelta>), String>;
type ChkRead = Result<(u64, u64, u64, HashMap<String, ReplicatedValue>), String>;
/// WAL entries decoded one after the other until `decode` returns None (as `WalReader::entries`)
type WalRead = Result<Vec<(u64, Vec<u8>, u32, ReplicationDelta)>, String>;

fn read_segment(img: &[u8]) -> SegRead {
    let r = SegmentReader::open(img).map_err(|e| format!("open: {e}"))?;
    r.validate().map_err(|e| format!("validate: {e}"))?;
    let ds = r.read_all().map_err(|e| format!("read_all: {e}"))?;
    let h = r.header();
    Ok((h.record_count, h.min_timestamp, h.max_timestamp, ds))
}

fn read_checkpoint(img: &[u8]) -> ChkRead {
    let r = CheckpointReader::open(img).map_err(|e| format!("open: {e}"))?;
    r.validate().map_err(|e| format!("validate: {e}"))?;
    let d = r.load().map_err(|e| format!("load: {e}"))?;
    Ok((r.key_count(), r.timestamp_ms(), r.last_segment_id(), d.state))
}

fn read_wal(img: &[u8]) -> WalRead {
    let mut out = Vec::new();
    let mut off = 0usize;
    while off < img.len() {
        match WalEntry::decode(&img[off..]) {
            Some((e, n)) => {
                if n == 0 || off + n > img.len() {
                    return Err(format!("decode consumed {n} bytes at offset {off} of {}", img.len()));
                }
                off += n;
                let d = e.to_delta().map_err(|x| format!("to_delta: {x}"))?;
                out.push((e.timestamp, e.data, e.checksum, d));
            }
            None => break,
        }
    }
    Ok(out)
}

// ---------------------------------------------------------------------------------------------
// huge payloads: a separate short list (round trip only)
// ---------------------------------------------------------------------------------------------

/// Every size at which a length field or a sanity limit could change class: 64 KiB and 1 MiB boundaries, 3 MiB.
const HUGE_SIZES: &[usize] = &[65_535, 65_536, (1 << 20) - 1, (1 << 20) + 1, 3 << 20];

fn huge_roundtrips(thorough: bool) -> (Vec<Found>, u64) {
    let same = |a: &ReplicationDelta, b: &ReplicationDelta| imgx::canon(a) == imgx::canon(b);
    let sizes: Vec<usize> = HUGE_SIZES.iter().copied().filter(|s| thorough || *s <= (1 << 20) + 1).collect();
    let items: Vec<(usize, &'static str)> = sizes.iter().flat_map(|s| [(*s, "string"), (*s, "hash")]).collect();
    let results: Vec<Vec<Found>> = vh::par::par_map(&items, |_, (size, what)| {
        let (size, what) = (*size, *what);
        let mut found = Vec::new();
        let payload: Vec<u8> = (0..size).map(|i| (i * 31 % 251) as u8).collect();
        let r1 = redis_sim::replication::lattice::ReplicaId::new(1);
        let d: ReplicationDelta = if what == "string" {
            imgx::lww_delta("kbig", &payload, 7, 1)
        } else {
            // a hash with one huge and one small field
            let mut hv = ReplicatedValue::new(r1);
            let mut clock = redis_sim::replication::lattice::LamportClock { time: 3, replica_id: r1 };
            hv.hash_set("big".to_string(), redis_sim::redis::SDS::new(payload.clone()), &mut clock);
            hv.hash_set("small".to_string(), redis_sim::redis::SDS::new(b"x".to_vec()), &mut clock);
            ReplicationDelta::new("hbig".to_string(), hv, r1)
        };
        // the small delta that follows must survive too (a reader that gives up at the big one hides it)
        let tail = imgx::lww_delta("after", b"t", 9, 1);
        let batch = vec![d.clone(), tail.clone()];
        let mut bad = |enc: &str, why: String| {
            found.push(Found {
                sig: format!("roundtrip {enc} huge-payload: {}", why.split(':').next().unwrap_or("differs")),
                detail: format!("{what} payload of {size} bytes followed by a small update through {enc}: {why}"),
                replay: json!({"part": "huge", "size": size, "what": what, "encoding": enc}),
            })
        };
        match encode_wal(&batch).and_then(|img| read_wal(&img)) {
            Ok(r) if r.len() == 2 && same(&r[0].3, &d) && same(&r[1].3, &tail) => {}
            Ok(r) => bad("wal", format!("decoded-different-data: {} of 2 entries came back{}", r.len(), if r.len() == 2 { " altered" } else { "" })),
            Err(e) => bad("wal", format!("error: {e}")),
        }
        match encode_segment(&batch).and_then(|img| read_segment(&img)) {
            Ok((_, _, _, ds)) if ds.len() == 2 && same(&ds[0], &d) && same(&ds[1], &tail) => {}
            Ok((_, _, _, ds)) => bad("segment", format!("decoded-different-data: {} of 2 records came back", ds.len())),
            Err(e) => bad("segment", format!("error: {e}")),
        }
        let state = vec![(d.key.clone(), d.value.clone()), (tail.key.clone(), tail.value.clone())];
        match encode_checkpoint(&state, 1_000, 4).and_then(|img| read_checkpoint(&img)) {
            Ok((_, _, _, m)) if m.len() == 2 && m.get(&d.key).map(imgx::canon) == Some(imgx::canon(&d.value)) => {}
            Ok((_, _, _, m)) => bad("checkpoint", format!("decoded-different-data: {} of 2 entries came back", m.len())),
            Err(e) => bad("checkpoint", format!("error: {e}")),
        }
        // the way updates really reach the wire: the node's gossip outbox (queue_deltas / queue_deltas_broadcast), drained,
        // every message serialized and deserialized, the deltas of all messages collected again
        for api in ["queue_deltas", "queue_deltas_broadcast"] {
            let cfg = redis_sim::replication::ReplicationConfig::new_cluster(1, vec!["n2:1".to_string(), "n3:1".to_string()]);
            let mut gs = redis_sim::replication::GossipState::new(cfg);
            if api == "queue_deltas" {
                gs.queue_deltas(batch.clone());
            } else {
                gs.queue_deltas_broadcast(batch.clone());
            }
            let mut got: Vec<String> = Vec::new();
            let mut err = None;
            for routed in gs.drain_outbound() {
                match routed.message.serialize().map_err(|e| e.to_string()).and_then(|b| GossipMessage::deserialize(&b).map_err(|e| e.to_string())) {
                    Ok(back) => got.extend(back.into_deltas().unwrap_or_default().iter().map(imgx::canon)),
                    Err(e) => err = Some(e),
                }
            }
            let mut w: Vec<String> = batch.iter().map(imgx::canon).collect();
            w.sort();
            got.sort();
            if let Some(e) = err {
                bad("gossip-outbox", format!("error: {e} ({api})"));
            } else if got != w {
                bad("gossip-outbox", format!("decoded-different-data: {} of {} updates came out of the outbox's messages ({api})", got.len(), w.len()));
            }
        }
        let msg = make_msg("DeltaBatch", batch.clone(), 1);
        match msg.serialize().map_err(|e| e.to_string()).and_then(|b| GossipMessage::deserialize(&b).map_err(|e| e.to_string())) {
            Ok(back) => {
                if imgx::canon(&back) != imgx::canon(&msg) {
                    bad("gossip", "decoded-different-data: message differs after the round trip".to_string());
                }
            }
            Err(e) => bad("gossip", format!("error: {e}")),
        }
        found
    });
    let n = 4 * items.len() as u64;
    (results.into_iter().flatten().collect(), n)
}

/// Many records / long keys: batches of n small updates (n around 2^8, 2^12, 2^16 and round decimal numbers) and
/// single updates whose KEY is 255 .. 65 537 bytes long, through the four encodings (a u8/u16 count or length
/// prefix, an index block that fills up, a chunked writer go wrong exactly at these sizes).
fn many_roundtrips(thorough: bool) -> (Vec<Found>, u64) {
    let mut counts: Vec<usize> = if thorough { vec![255, 256, 257, 999, 1000, 1001, 4095, 4096, 4097, 65_535, 65_536, 65_537] } else { vec![255, 256, 257, 1000, 4096, 4097, 65_535, 65_536, 65_537] };
    // every power of two from 2 to 8192 with its neighbours (a batching or chunking constant is usually one of them)
    for p in 1..=13u32 {
        for n in [(1usize << p) - 1, 1 << p, (1 << p) + 1] {
            if !counts.contains(&n) {
                counts.push(n);
            }
        }
    }
    let key_lens: Vec<usize> = vec![255, 256, 257, 65_535, 65_536, 65_537];
    let mut items: Vec<(&'static str, usize)> = counts.iter().map(|c| ("count", *c)).collect();
    items.extend(key_lens.iter().map(|k| ("keylen", *k)));
    let results: Vec<Vec<Found>> = vh::par::par_map(&items, |_, (what, n)| {
        let (what, n) = (*what, *n);
        let mut found = Vec::new();
        let batch: Vec<ReplicationDelta> = if what == "count" {
            (0..n).map(|i| imgx::lww_delta(&format!("k{i}"), format!("v{i}").as_bytes(), 1 + i as u64, 1 + (i % 3) as u64)).collect()
        } else {
            let key: String = (0..n).map(|i| (b'a' + (i % 26) as u8) as char).collect();
            vec![imgx::lww_delta(&key, b"v", 5, 1), imgx::lww_delta("after", b"t", 9, 1)]
        };
        let want: Vec<String> = batch.iter().map(imgx::canon).collect();
        let mut bad = |enc: &str, why: String| {
            found.push(Found {
                sig: format!("roundtrip {enc} {}: {}", if what == "count" { "many-records" } else { "long-key" }, why.split(':').next().unwrap_or("differs")),
                detail: format!("{} through {enc}: {why}", if what == "count" { format!("{n} small updates") } else { format!("an update whose key is {n} bytes long, followed by a small update") }),
                replay: json!({"part": "many", "what": what, "n": n, "encoding": enc}),
            })
        };
        match encode_wal(&batch).and_then(|img| read_wal(&img)) {
            Ok(r) if r.len() == batch.len() && r.iter().map(|e| imgx::canon(&e.3)).collect::<Vec<_>>() == want => {}
            Ok(r) => bad("wal", format!("decoded-different-data: {} of {} entries came back{}", r.len(), batch.len(), if r.len() == batch.len() { " altered" } else { "" })),
            Err(e) => bad("wal", format!("error: {e}")),
        }
        match encode_segment(&batch).and_then(|img| read_segment(&img)) {
            Ok((_, _, _, ds)) if ds.len() == batch.len() && ds.iter().map(imgx::canon).collect::<Vec<_>>() == want => {}
            Ok((_, _, _, ds)) => bad("segment", format!("decoded-different-data: {} of {} records came back{}", ds.len(), batch.len(), if ds.len() == batch.len() { " altered" } else { "" })),
            Err(e) => bad("segment", format!("error: {e}")),
        }
        let state: Vec<(String, ReplicatedValue)> = batch.iter().map(|d| (d.key.clone(), d.value.clone())).collect();
        match encode_checkpoint(&state, 1_000, 4).and_then(|img| read_checkpoint(&img)) {
            Ok((_, _, _, m)) if m.len() == batch.len() && batch.iter().all(|d| m.get(&d.key).map(imgx::canon) == Some(imgx::canon(&d.value))) => {}
            Ok((_, _, _, m)) => bad("checkpoint", format!("decoded-different-data: {} of {} entries came back{}", m.len(), batch.len(), if m.len() == batch.len() { " altered" } else { "" })),
            Err(e) => bad("checkpoint", format!("error: {e}")),
        }
        // the way updates really reach the wire: the node's gossip outbox (queue_deltas / queue_deltas_broadcast), drained,
        // every message serialized and deserialized, the deltas of all messages collected again
        for api in ["queue_deltas", "queue_deltas_broadcast"] {
            let cfg = redis_sim::replication::ReplicationConfig::new_cluster(1, vec!["n2:1".to_string(), "n3:1".to_string()]);
            let mut gs = redis_sim::replication::GossipState::new(cfg);
            if api == "queue_deltas" {
                gs.queue_deltas(batch.clone());
            } else {
                gs.queue_deltas_broadcast(batch.clone());
            }
            let mut got: Vec<String> = Vec::new();
            let mut err = None;
            for routed in gs.drain_outbound() {
                match routed.message.serialize().map_err(|e| e.to_string()).and_then(|b| GossipMessage::deserialize(&b).map_err(|e| e.to_string())) {
                    Ok(back) => got.extend(back.into_deltas().unwrap_or_default().iter().map(imgx::canon)),
                    Err(e) => err = Some(e),
                }
            }
            let mut w: Vec<String> = batch.iter().map(imgx::canon).collect();
            w.sort();
            got.sort();
            if let Some(e) = err {
                bad("gossip-outbox", format!("error: {e} ({api})"));
            } else if got != w {
                bad("gossip-outbox", format!("decoded-different-data: {} of {} updates came out of the outbox's messages ({api})", got.len(), w.len()));
            }
        }
        let msg = make_msg("DeltaBatch", batch.clone(), 1);
        match msg.serialize().map_err(|e| e.to_string()).and_then(|b| GossipMessage::deserialize(&b).map_err(|e| e.to_string())) {
            Ok(back) => {
                if imgx::canon(&back) != imgx::canon(&msg) {
                    bad("gossip", "decoded-different-data: message differs after the round trip".to_string());
                }
            }
            Err(e) => bad("gossip", format!("error: {e}")),
        }
        found
    });
    let n = 4 * items.len() as u64;
    (results.into_iter().flatten().collect(), n)
}

// ---------------------------------------------------------------------------------------------
// comparison of what was read with what was written
// ---------------------------------------------------------------------------------------------

struct Written {
    enc: &'static str,
    ids: Vec<Id>,
    canons: Vec<String>,
    /// WAL: (stamp, payload, crc) per entry
    wal: Vec<(u64, Vec<u8>, u32)>,
    /// checkpoint: keys in `ids` order, creation time, last segment id
    chk_keys: Vec<String>,
    chk_meta: (u64, u64),
    /// segment: min / max Lamport time
    seg_ts: (u64, u64),
    image: Vec<u8>,
}

fn build(u: &Universe, enc: &'static str, ids: &[Id]) -> Result<Written, String> {
    let deltas: Vec<ReplicationDelta> = ids.iter().map(|i| u.delta(*i)).collect();
    let mut w = Written {
        enc,
        ids: ids.to_vec(),
        canons: Vec::new(),
        wal: Vec::new(),
        chk_keys: Vec::new(),
        chk_meta: (0, 0),
        seg_ts: (0, 0),
        image: Vec::new(),
    };
    match enc {
        "wal" => {
            w.canons = deltas.iter().map(canon).collect();
            for d in &deltas {
                let e = WalEntry::from_delta(d, wal_stamp(d)).map_err(|e| format!("from_delta: {e}"))?;
                w.wal.push((e.timestamp, e.data.clone(), e.checksum));
            }
            w.image = encode_wal(&deltas)?;
        }
        "segment" => {
            w.canons = deltas.iter().map(canon).collect();
            let ts: Vec<u64> = deltas.iter().map(|d| d.value.timestamp.time).collect();
            w.seg_ts = (*ts.iter().min().unwrap_or(&0), *ts.iter().max().unwrap_or(&0));
            w.image = encode_segment(&deltas)?;
        }
        "checkpoint" => {
            let state: Vec<(String, ReplicatedValue)> =
                ids.iter().enumerate().map(|(j, id)| (checkpoint_key(u, *id, j, ids.len()), u.value(*id))).collect();
            w.canons = state.iter().map(|(_, v)| canon(v)).collect();
            w.chk_keys = state.iter().map(|(k, _)| k.clone()).collect();
            w.chk_meta = checkpoint_meta(ids);
            w.image = encode_checkpoint(&state, w.chk_meta.0, w.chk_meta.1)?;
        }
        _ => return Err("unknown encoding".into()),
    }
    Ok(w)
}

/// Compare a successful read of `img` with what was written. None = identical data.
fn compare(w: &Written, img: &[u8]) -> Result<Option<(String, String)>, String> {
    // Ok(None): reader reported damage or data identical; Ok(Some((what, detail))): different data.
    match w.enc {
        "wal" => {
            let got = match read_wal(img) {
                Ok(g) => g,
                Err(e) => return Err(e),
            };
            // fewer entries = recovery ended early (allowed under damage); each returned entry must be
            // the one written at that position
            if got.len() > w.wal.len() {
                return Ok(Some(("extra-entry".into(), format!("{} entries decoded, {} written", got.len(), w.wal.len()))));
            }
            for (i, (st, data, crc, d)) in got.iter().enumerate() {
                let (wst, wdata, wcrc) = &w.wal[i];
                if st != wst {
                    return Ok(Some(("stamp".into(), format!("entry {i}: stamp {st} decoded, {wst} written (payload {})", if data == wdata { "identical" } else { "differs too" }))));
                }
                if data != wdata {
                    return Ok(Some(("payload".into(), format!("entry {i}: payload bytes differ"))));
                }
                if crc != wcrc {
                    return Ok(Some(("crc-field".into(), format!("entry {i}: checksum field {crc:08x} decoded, {wcrc:08x} written"))));
                }
                let c = canon(d);
                if c != w.canons[i] {
                    return Ok(Some((format!("delta.{}", diff_field(&w.canons[i], &c)), format!("entry {i}: {}", first_diff(&w.canons[i], &c)))));
                }
            }
            if got.len() < w.wal.len() {
                return Err(format!("recovery ended after {} of {} entries", got.len(), w.wal.len()));
            }
            Ok(None)
        }
        "segment" => {
            let (n, lo, hi, ds) = read_segment(img)?;
            if n as usize != w.ids.len() || ds.len() != w.ids.len() {
                return Ok(Some(("record-count".into(), format!("header says {n}, {} deltas read, {} written", ds.len(), w.ids.len()))));
            }
            if (lo, hi) != w.seg_ts {
                return Ok(Some(("header-timestamps".into(), format!("min/max {lo}/{hi} read, {}/{} written", w.seg_ts.0, w.seg_ts.1))));
            }
            for (i, d) in ds.iter().enumerate() {
                let c = canon(d);
                if c != w.canons[i] {
                    return Ok(Some((format!("delta.{}", diff_field(&w.canons[i], &c)), format!("record {i}: {}", first_diff(&w.canons[i], &c)))));
                }
            }
            Ok(None)
        }
        "checkpoint" => {
            let (kc, ts, ls, state) = read_checkpoint(img)?;
            if kc as usize != w.ids.len() || state.len() != w.ids.len() {
                return Ok(Some(("key-count".into(), format!("header says {kc}, {} keys read, {} written", state.len(), w.ids.len()))));
            }
            if (ts, ls) != w.chk_meta {
                return Ok(Some(("header-fields".into(), format!("timestamp/last segment {ts}/{ls} read, {}/{} written", w.chk_meta.0, w.chk_meta.1))));
            }
            for (i, k) in w.chk_keys.iter().enumerate() {
                match state.get(k) {
                    None => return Ok(Some(("state.key-missing".into(), format!("key {k:?} missing")))),
                    Some(v) => {
                        let c = canon(v);
                        if c != w.canons[i] {
                            return Ok(Some((format!("state.{}", diff_field(&w.canons[i], &c)), format!("key {k:?}: {}", first_diff(&w.canons[i], &c)))));
                        }
                    }
                }
            }
            Ok(None)
        }
        _ => Err("unknown encoding".into()),
    }
}

// ---------------------------------------------------------------------------------------------
// round trips
// ---------------------------------------------------------------------------------------------

fn kinds_of(u: &Universe, ids: &[Id]) -> String {
    let mut k: Vec<&str> = ids.iter().map(|i| u.kind(*i)).collect();
    k.dedup();
    if k.len() == 1 {
        k[0].to_string()
    } else {
        "mixed".to_string()
    }
}

fn roundtrip_storage(u: &Universe, enc: &'static str, ids: &[Id]) -> (Option<Found>, u64) {
    let replay = json!({"part": "roundtrip", "encoding": enc, "ids": ids_json(ids)});
    let labels = || ids.iter().map(|i| u.label(*i)).collect::<Vec<_>>().join(" | ");
    let r = catch_unwind(AssertUnwindSafe(|| {
        let w = build(u, enc, ids)?;
        let h = imgx::fnv64(w.canons.join("\n").as_bytes()) ^ imgx::fnv64(enc.as_bytes());
        Ok::<_, String>((compare(&w, &w.image), h, w.image.len()))
    }));
    // a differing field names the defect; for errors and panics the CRDT kind does
    let fail = |with_kind: bool, mism: &str, detail: String| {
        Some(Found {
            sig: if with_kind { format!("roundtrip {enc} {}: {mism}", kinds_of(u, ids)) } else { format!("roundtrip {enc}: {mism}") },
            detail: format!("{enc} round trip of [{}]: {detail}", labels()),
            replay: replay.clone(),
        })
    };
    match r {
        Err(p) => (fail(true, "panic", vh::panic_text(&p)), 0),
        Ok(Err(e)) => (fail(true, "encode-error", e), 0),
        Ok(Ok((c, h, _))) => match c {
            Ok(None) => (None, h),
            Ok(Some((what, d))) => (fail(false, &format!("value-differs({what})"), d), h),
            Err(e) => (fail(true, "undamaged-image-rejected", e), h),
        },
    }
}

const MSG_KINDS: [&str; 3] = ["DeltaBatch", "TargetedDelta", "SyncResponse"];

fn make_msg(kind: &str, deltas: Vec<ReplicationDelta>, x: usize) -> GossipMessage {
    let epoch = [0u64, 7, u64::MAX][x % 3];
    let src = ReplicaId(SOURCES[x % 2]);
    match kind {
        "DeltaBatch" => GossipMessage::DeltaBatch { source_replica: src, deltas, epoch },
        "TargetedDelta" => GossipMessage::TargetedDelta { source_replica: src, target_replica: ReplicaId(SOURCES[(x + 1) % 2]), deltas, epoch },
        _ => GossipMessage::SyncResponse { source_replica: src, deltas },
    }
}

fn roundtrip_gossip(u: &Universe, kind: &'static str, ids: &[Id], canons: &[&String]) -> (Option<Found>, u64) {
    let replay = json!({"part": "roundtrip", "encoding": "gossip", "message": kind, "ids": ids_json(ids)});
    let labels = || ids.iter().map(|i| u.label(*i)).collect::<Vec<_>>().join(" | ");
    let fail = |mism: &str, detail: String| {
        let with_kind = !mism.starts_with("value-differs");
        Some(Found {
            sig: if with_kind { format!("roundtrip gossip {}: {mism}", kinds_of(u, ids)) } else { format!("roundtrip gossip: {mism}") },
            detail: format!("gossip {kind} round trip of [{}]: {detail}", labels()),
            replay: replay.clone(),
        })
    };
    let x = ids[0][0] + ids[0][1];
    let r = catch_unwind(AssertUnwindSafe(|| {
        let msg = make_msg(kind, ids.iter().map(|i| u.delta(*i)).collect(), x);
        let bytes = msg.serialize().map_err(|e| ("serialize-error".to_string(), e.to_string()))?;
        let back = GossipMessage::deserialize(&bytes).map_err(|e| ("deserialize-error".to_string(), format!("{e}; message: {}", String::from_utf8_lossy(&bytes[..bytes.len().min(300)]))))?;
        // envelope: everything except the deltas, compared on the canonical form
        let strip = |m: &GossipMessage| -> GossipMessage {
            match m.clone() {
                GossipMessage::DeltaBatch { source_replica, epoch, .. } => GossipMessage::DeltaBatch { source_replica, deltas: vec![], epoch },
                GossipMessage::TargetedDelta { source_replica, target_replica, epoch, .. } => {
                    GossipMessage::TargetedDelta { source_replica, target_replica, deltas: vec![], epoch }
                }
                GossipMessage::SyncResponse { source_replica, .. } => GossipMessage::SyncResponse { source_replica, deltas: vec![] },
                other => other,
            }
        };
        let (a, b) = (canon(&strip(&msg)), canon(&strip(&back)));
        if a != b {
            return Err((format!("value-differs(envelope.{})", diff_field(&a, &b)), first_diff(&a, &b)));
        }
        let ds = back.into_deltas().unwrap_or_default();
        if ds.len() != ids.len() {
            return Err(("value-differs(delta-count)".to_string(), format!("{} deltas read, {} written", ds.len(), ids.len())));
        }
        for (i, d) in ds.iter().enumerate() {
            let c = canon(d);
            if &c != canons[i] {
                return Err((format!("value-differs(delta.{})", diff_field(canons[i], &c)), format!("delta {i}: {}", first_diff(canons[i], &c))));
            }
        }
        Ok(())
    }));
    let h = imgx::fnv64(canons.iter().map(|s| s.as_str()).collect::<Vec<_>>().join("\n").as_bytes()) ^ imgx::fnv64(kind.as_bytes());
    match r {
        Err(p) => (fail("panic", vh::panic_text(&p)), h),
        Ok(Err((m, d))) => (fail(&m, d), h),
        Ok(Ok(())) => (None, h),
    }
}

fn roundtrip_other_messages() -> Vec<Found> {
    let mut out = Vec::new();
    let mut msgs: Vec<(String, GossipMessage)> = Vec::new();
    for s in SOURCES {
        for e in [0u64, 7, u64::MAX] {
            msgs.push((format!("Heartbeat src={s} epoch={e}"), GossipMessage::Heartbeat { source_replica: ReplicaId(s), epoch: e }));
        }
        for n in [0usize, 1, 4] {
            let mut kv = HashMap::new();
            for (i, (_, k)) in imgx::keys().into_iter().take(n).enumerate() {
                kv.insert(k, [0u64, 1, u64::MAX, 9][i]);
            }
            msgs.push((format!("SyncRequest src={s} {n} keys"), GossipMessage::SyncRequest { source_replica: ReplicaId(s), known_versions: kv }));
        }
    }
    for (label, m) in msgs {
        let r = catch_unwind(AssertUnwindSafe(|| {
            let b = m.serialize().map_err(|e| e.to_string())?;
            let back = GossipMessage::deserialize(&b).map_err(|e| e.to_string())?;
            Ok::<_, String>((canon(&m), canon(&back)))
        }));
        let name = label.split(' ').next().unwrap_or("msg").to_string();
        let mk = |mism: &str, d: String| Found {
            sig: format!("roundtrip gossip {name}: {mism}"),
            detail: format!("{label}: {d}"),
            replay: json!({"part": "roundtrip-other", "label": label}),
        };
        match r {
            Err(p) => out.push(mk("panic", vh::panic_text(&p))),
            Ok(Err(e)) => out.push(mk("codec-error", e)),
            Ok(Ok((a, b))) if a != b => out.push(mk("value-differs", first_diff(&a, &b))),
            _ => {}
        }
    }
    out
}

// ---------------------------------------------------------------------------------------------
// damage
// ---------------------------------------------------------------------------------------------

fn regions_of(w: &Written) -> imgx::Regions {
    let n = w.image.len();
    match w.enc {
        "wal" => {
            let mut r = imgx::Regions::new();
            let mut off = 0;
            for (_, d, _) in &w.wal {
                r.push(("entry.len", off, off + 4));
                r.push(("entry.stamp", off + 4, off + 12));
                r.push(("entry.crc", off + 12, off + 16));
                r.push(("entry.payload", off + 16, off + 16 + d.len()));
                off += 16 + d.len();
            }
            r
        }
        "segment" => vec![
            ("header.magic", 0, 4),
            ("header.version", 4, 5),
            ("header.flags", 5, 6),
            ("header.record_count", 6, 10),
            ("header.min_timestamp", 10, 18),
            ("header.max_timestamp", 18, 26),
            ("header.crc", 26, 30),
            ("header.padding", 30, 40),
            ("records", 40, n - 24),
            ("footer.data_crc", n - 24, n - 20),
            ("footer.uncompressed_size", n - 20, n - 12),
            ("footer.compressed_size", n - 12, n - 4),
            ("footer.magic", n - 4, n),
        ],
        _ => vec![
            ("header.magic", 0, 4),
            ("header.version", 4, 5),
            ("header.flags", 5, 6),
            ("header.padding", 6, 8),
            ("header.key_count", 8, 16),
            ("header.timestamp", 16, 24),
            ("header.last_segment", 24, 32),
            ("header.reserved", 32, 44),
            ("header.crc", 44, 48),
            ("data_len", 48, 52),
            ("data", 52, n - 16),
            ("footer.data_crc", n - 16, n - 12),
            ("footer.data_size", n - 12, n - 4),
            ("footer.crc", n - 4, n),
        ],
    }
}

#[derive(Default)]
struct DStats {
    evaluations: u64,
    nontrivial: u64,
    identity: u64,
    detected: u64,
    accepted_identical: u64,
    max_alloc: usize,
    max_alloc_image: usize,
    skipped_images: u64,
    outcomes: BTreeMap<(&'static str, &'static str, &'static str, String), u64>,
}

impl DStats {
    fn bump(&mut self, enc: &'static str, kind: &'static str, region: &'static str, outcome: &str) {
        match self.outcomes.iter_mut().find(|(k, _)| k.0 == enc && k.1 == kind && k.2 == region && k.3 == outcome) {
            Some((_, v)) => *v += 1,
            None => {
                self.outcomes.insert((enc, kind, region, outcome.to_string()), 1);
            }
        }
    }
    fn table(&self) -> BTreeMap<String, u64> {
        self.outcomes.iter().map(|((e, k, r, o), v)| (format!("{e} {k} {r} -> {o}"), *v)).collect()
    }
    fn merge(&mut self, o: DStats) {
        self.evaluations += o.evaluations;
        self.nontrivial += o.nontrivial;
        self.identity += o.identity;
        self.detected += o.detected;
        self.accepted_identical += o.accepted_identical;
        self.skipped_images += o.skipped_images;
        if o.max_alloc > self.max_alloc {
            self.max_alloc = o.max_alloc;
            self.max_alloc_image = o.max_alloc_image;
        }
        for (k, v) in o.outcomes {
            *self.outcomes.entry(k).or_insert(0) += v;
        }
    }
}

fn eval_damage(w: &Written, regs: &imgx::Regions, mu: Mutation, st: &mut DStats) -> Option<Found> {
    st.evaluations += 1;
    let first = mu.first_changed(&w.image);
    let region: &'static str = first.map(|o| imgx::region_of(regs, o)).unwrap_or("identity");
    let (enc, kind) = (w.enc, mu.kind());
    let img = mu.apply(&w.image);
    let fail = |mism: String, detail: String| {
        Some(Found {
            sig: format!("damage {enc} {kind} {region}: {mism}"),
            detail: format!("{} image of {} bytes (values {:?}), mutation {:?}: {detail}", w.enc, w.image.len(), w.ids, mu),
            replay: json!({"part": "damage", "encoding": w.enc, "ids": ids_json(&w.ids), "image_hex": imgx::hex(&w.image), "mutation": mu.to_json()}),
        })
    };
    imgx::alloc_reset();
    let r = catch_unwind(AssertUnwindSafe(|| compare(w, &img)));
    let amax = imgx::alloc_max();
    if amax > st.max_alloc {
        st.max_alloc = amax;
        st.max_alloc_image = img.len();
    }
    let r = match r {
        Ok(r) => r,
        Err(p) => {
            st.bump(enc, kind, region, "VIOLATION panic");
            return fail("panic".into(), format!("reader panicked: {}", vh::panic_text(&p)));
        }
    };
    if amax > ALLOC_C0 + ALLOC_C1 * w.image.len() {
        st.bump(enc, kind, region, "VIOLATION allocation");
        return fail("allocation-unbounded".into(), format!("a single allocation of {amax} bytes was requested while reading a {}-byte image", img.len()));
    }
    match (first, r) {
        (None, Ok(None)) => {
            st.identity += 1;
            st.bump(enc, kind, region, "unchanged image accepted");
            None
        }
        (None, Err(e)) => {
            st.bump(enc, kind, region, "VIOLATION undamaged rejected");
            fail("undamaged-image-rejected".into(), e)
        }
        (Some(_), Err(_)) => {
            st.nontrivial += 1;
            st.detected += 1;
            st.bump(enc, kind, region, "reported");
            None
        }
        (Some(_), Ok(None)) => {
            st.nontrivial += 1;
            st.accepted_identical += 1;
            st.bump(enc, kind, region, "accepted, data identical");
            None
        }
        (_, Ok(Some((what, d)))) => {
            st.nontrivial += 1;
            st.bump(enc, kind, region, &format!("VIOLATION different data ({what})"));
            fail(format!("decoded-different-data({what})"), d)
        }
    }
}

fn sweep_damage(u: &Universe, enc: &'static str, ids: &[Id], set: MutationSet) -> Result<(DStats, Vec<Found>), String> {
    let w = build(u, enc, ids)?;
    let regs = regions_of(&w);
    let mut st = DStats::default();
    let mut found: BTreeMap<String, Found> = BTreeMap::new();
    // an image whose undamaged read already differs is a round-trip failure (reported by part 1 for
    // the same value); sweeping it would repeat that failure under every accepted mutation
    let baseline = catch_unwind(AssertUnwindSafe(|| compare(&w, &w.image)));
    if !matches!(baseline, Ok(Ok(None))) {
        st.skipped_images = 1;
        return Ok((st, Vec::new()));
    }
    for mu in imgx::all_mutations(w.image.len(), set) {
        if let Some(f) = eval_damage(&w, &regs, mu, &mut st) {
            found.entry(f.sig.clone()).or_insert(f);
        }
    }
    Ok((st, found.into_values().collect()))
}

// ---------------------------------------------------------------------------------------------

fn replay(u: &Universe, path: &std::path::Path) -> ! {
    let r = vh::report::load_replay(path);
    let ids = ids_from_json(&r["ids"]);
    let bad = |ids: &[Id]| ids.is_empty() || ids.iter().any(|i| i[0] >= u.crdts.len() || i[1] >= u.metas.len() || i[2] >= u.keys.len() || i[3] >= SOURCES.len());
    let found: Option<Found> = match r["part"].as_str() {
        Some("roundtrip") => {
            if bad(&ids) {
                eprintln!("bad ids in replay");
                std::process::exit(2)
            }
            for i in &ids {
                println!("value: {}", u.label(*i));
            }
            match r["encoding"].as_str() {
                Some("gossip") => {
                    let kind = MSG_KINDS.iter().find(|k| Some(**k) == r["message"].as_str()).copied().unwrap_or("DeltaBatch");
                    let canons: Vec<String> = ids.iter().map(|i| canon(&u.delta(*i))).collect();
                    roundtrip_gossip(u, kind, &ids, &canons.iter().collect::<Vec<_>>()).0
                }
                Some(e) => {
                    let enc = ["wal", "segment", "checkpoint"].into_iter().find(|x| *x == e).unwrap_or("wal");
                    roundtrip_storage(u, enc, &ids).0
                }
                None => None,
            }
        }
        Some("roundtrip-other") => {
            let label = r["label"].as_str().unwrap_or("");
            roundtrip_other_messages().into_iter().find(|f| f.replay["label"].as_str() == Some(label))
        }
        Some("damage") => {
            if bad(&ids) {
                eprintln!("bad ids in replay");
                std::process::exit(2)
            }
            let enc = ["wal", "segment", "checkpoint"].into_iter().find(|x| Some(*x) == r["encoding"].as_str()).unwrap_or("wal");
            let mut w = build(u, enc, &ids).unwrap_or_else(|e| {
                eprintln!("cannot build: {e}");
                std::process::exit(2)
            });
            // the stored image (hash-map order of the run that found the case) is authoritative
            if let Some(h) = r["image_hex"].as_str() {
                w.image = imgx::unhex(h);
            }
            let Some(mu) = Mutation::from_json(&r["mutation"]) else {
                eprintln!("bad mutation");
                std::process::exit(2)
            };
            for i in &ids {
                println!("value: {}", u.label(*i));
            }
            println!("image:   {}", imgx::hex(&w.image));
            println!("mutated: {} ({:?})", imgx::hex(&mu.apply(&w.image)), mu);
            let regs = regions_of(&w);
            let mut st = DStats::default();
            eval_damage(&w, &regs, mu, &mut st)
        }
        Some("huge") => {
            let (size, what, enc) = (r["size"].as_u64().unwrap_or(0), r["what"].as_str().unwrap_or("").to_string(), r["encoding"].as_str().unwrap_or("").to_string());
            huge_roundtrips(true)
                .0
                .into_iter()
                .find(|f| f.replay["size"].as_u64() == Some(size) && f.replay["what"].as_str() == Some(what.as_str()) && f.replay["encoding"].as_str() == Some(enc.as_str()))
        }
        Some("many") => {
            let (n, what, enc) = (r["n"].as_u64().unwrap_or(0), r["what"].as_str().unwrap_or("").to_string(), r["encoding"].as_str().unwrap_or("").to_string());
            many_roundtrips(true)
                .0
                .into_iter()
                .find(|f| f.replay["n"].as_u64() == Some(n) && f.replay["what"].as_str() == Some(what.as_str()) && f.replay["encoding"].as_str() == Some(enc.as_str()))
        }
        _ => {
            eprintln!("unknown replay part");
            std::process::exit(2)
        }
    };
    match found {
        Some(f) => {
            println!("{}", f.detail);
            println!("VIOLATION property=C14 replay={} ({})", path.display(), f.sig);
            std::process::exit(1)
        }
        None => {
            println!("replay: no violation");
            std::process::exit(0)
        }
    }
}

fn main() {
    let args = cli::parse_args();
    vh::quiet_panics();
    let u = Universe::new();
    if let Some(path) = &args.replay {
        replay(&u, path);
    }
    let rep = Reporter::new("C14", "exploration", &args);
    let thorough = args.tier == Tier::Thorough;

    // ---- part 1: round trips ------------------------------------------------------------
    let ids = u.all_ids();
    let canons: Vec<String> = par::par_map(&ids, |_, id| canon(&u.delta(*id)));
    let distinct_values: HashSet<u64> = canons.iter().map(|c| imgx::fnv64(c.as_bytes())).collect();
    let n = ids.len();
    let starts: Vec<usize> = (0..n).collect();
    let stride = u.keys.len() * SOURCES.len();
    let rt = par::par_map(&starts, |_, &i| {
        let mut found: Vec<Found> = Vec::new();
        let mut hashes: Vec<u64> = Vec::new();
        let mut evals = [0u64; 4];
        for b in BATCHES {
            // quick: batches of 2 and 5 start at one value per (CRDT variant, metadata variant) pair
            if b > 1 && !thorough && i % stride != 0 {
                continue;
            }
            let win: Vec<Id> = (0..b).map(|j| ids[(i + j) % n]).collect();
            let wc: Vec<&String> = (0..b).map(|j| &canons[(i + j) % n]).collect();
            for (ei, enc) in ["wal", "segment"].into_iter().enumerate() {
                let (f, h) = roundtrip_storage(&u, enc, &win);
                evals[ei] += 1;
                hashes.push(h);
                found.extend(f);
            }
            // a checkpoint stores neither the delta's key field nor its source: one source variant only
            if win[0][3] == 0 {
                let (f, h) = roundtrip_storage(&u, "checkpoint", &win);
                evals[2] += 1;
                hashes.push(h);
                found.extend(f);
            }
            for kind in MSG_KINDS {
                let (f, h) = roundtrip_gossip(&u, kind, &win, &wc);
                evals[3] += 1;
                hashes.push(h);
                found.extend(f);
            }
        }
        (found, hashes, evals)
    });
    let mut rt_evals = [0u64; 4];
    let mut rt_hashes: HashSet<u64> = HashSet::new();
    for (found, hashes, evals) in rt {
        for f in found {
            rep.violation(f.sig, f.detail, f.replay);
        }
        rt_hashes.extend(hashes);
        for k in 0..4 {
            rt_evals[k] += evals[k];
        }
    }
    let others = roundtrip_other_messages();
    let other_count = 2 * (3 + 3) as u64;
    for f in others {
        rep.violation(f.sig, f.detail, f.replay);
    }

    let (huge_found, huge_count) = huge_roundtrips(thorough);
    for f in huge_found {
        rep.violation(f.sig, f.detail, f.replay);
    }
    rep.note(format!("huge payloads: {huge_count} round trips of strings / hash fields of up to {} bytes (sizes {:?}, the largest in the thorough tier only) through the 4 encodings", if thorough { 3 << 20 } else { (1 << 20) + 1 }, HUGE_SIZES));

    let (many_found, many_count) = many_roundtrips(thorough);
    for f in many_found {
        rep.violation(f.sig, f.detail, f.replay);
    }
    rep.note(format!("many records / long keys: {many_count} round trips of batches of 255 .. 65 537 small updates and of keys of 255 .. 65 537 bytes through the 4 encodings"));

    let t_roundtrip = rep.elapsed_s();
    // ---- part 2: damage -----------------------------------------------------------------
    // quick: every CRDT variant x one rich metadata variant x key "k"; thorough: every CRDT variant x
    // every metadata variant x key "k", plus every CRDT variant x 3 metadata variants x the other keys.
    let rich = u.metas.len() - 1 - 3; // vc=2 exp=max ts=clk1 rf=255 (rf varies fastest, then the clock)
    let mut dvals: Vec<Id> = Vec::new();
    for c in 0..u.crdts.len() {
        if thorough {
            for m in 0..u.metas.len() {
                dvals.push([c, m, 1, 0]);
            }
            for m in [0, u.metas.len() / 2, u.metas.len() - 1] {
                for k in [0, 2, 3] {
                    dvals.push([c, m, k, 1]);
                }
            }
        } else {
            dvals.push([c, rich, 1, 0]);
        }
    }
    let set = MutationSet { truncations: true, bitflips: true, stomps: false, setbytes: thorough };
    let mut dwork: Vec<(&'static str, Vec<Id>)> = Vec::new();
    for (i, id) in dvals.iter().enumerate() {
        let next = dvals[(i + 1) % dvals.len()];
        for enc in ["wal", "segment", "checkpoint"] {
            dwork.push((enc, vec![*id]));
            dwork.push((enc, vec![*id, next]));
        }
    }
    if !dwork.is_empty() {
        let r = (args.seed as usize) % dwork.len();
        dwork.rotate_left(r);
    }
    let dres = par::par_map(&dwork, |_, (enc, ids)| sweep_damage(&u, enc, ids, set));
    let mut ds = DStats::default();
    for (r, (enc, ids)) in dres.into_iter().zip(&dwork) {
        match r {
            Ok((s, found)) => {
                ds.merge(s);
                for f in found {
                    rep.violation(f.sig, f.detail, f.replay);
                }
            }
            Err(e) => rep.machinery_failure(&format!("damage image {enc} {:?}: {e}", ids)),
        }
    }

    let rt_total: u64 = rt_evals.iter().sum::<u64>() + other_count;
    let sample_ids: Vec<Id> = vec![[0, 0, 0, 0], [u.crdts.len() - 1, u.metas.len() - 1, 2, 1], [u.crdts.len() / 2, u.metas.len() / 2, 3, 0]];
    let samples: Vec<Value> = sample_ids
        .iter()
        .map(|i| json!({"part": "roundtrip", "value": u.label(*i), "encodings": ["wal", "segment", "checkpoint", "gossip x3 message kinds"], "batches": BATCHES}))
        .chain(dwork.iter().take(2).map(|(enc, ids)| {
            json!({"part": "damage", "encoding": enc, "values": ids.iter().map(|i| u.label(*i)).collect::<Vec<_>>(),
                   "mutations": "every truncation length, every single-bit flip (thorough: every byte := 00 / FF)"})
        }))
        .collect();
    let coverage = json!({
        "evaluations": rt_total + ds.evaluations,
        "distinct_nontrivial": rt_hashes.len() as u64 + other_count + ds.nontrivial,
        "roundtrip_batch_starts": if thorough { "batches of 1, 2, 5 start at every enumerated value" } else { "batch of 1: every enumerated value; batches of 2 and 5 start at the first key/source variant of every (CRDT variant, metadata variant) pair and run over the following values" },
        "rule": "round trip: every window of 1, 2 and 5 consecutive values (cyclic; see roundtrip_batch_starts) of the enumeration CRDT variant x metadata variant x key x source, through WAL entry (from_delta/encode/decode/to_delta), segment (writer/open/validate/read_all), checkpoint (writer/open/validate/load; source variant 0 only, it is not stored) and three gossip message kinds (serialize/deserialize), plus Heartbeat and SyncRequest messages; counted as distinct non-trivial cases: distinct (encoding, canonical text of the batch) pairs (measured with a hash set). damage: every (image, mutation) pair, image = WAL entry sequence / segment / checkpoint holding 1 or 2 values of the damage value set, mutation = every truncation length 0..=len and every single-bit flip (thorough: also every byte set to 00 and to FF); non-trivial when the mutation changes or removes at least one byte (identity mutations are controls, counted separately).",
        "values_enumerated": n,
        "distinct_canonical_values": distinct_values.len(),
        "crdt_variants": u.crdts.len(),
        "metadata_variants": u.metas.len(),
        "key_variants": u.keys.len(),
        "source_variants": SOURCES.len(),
        "batches": BATCHES,
        "roundtrip_evaluations": {"wal": rt_evals[0], "segment": rt_evals[1], "checkpoint": rt_evals[2], "gossip": rt_evals[3], "gossip_other_messages": other_count},
        "roundtrip_distinct_cases": rt_hashes.len(),
        "damage_value_set": if thorough { "every CRDT variant x every metadata variant x key 'k', plus every CRDT variant x 3 metadata variants x the 3 other keys" } else { "every CRDT variant x one rich metadata variant (2-entry vector clock, expiry u64::MAX, rf 255) x key 'k'" },
        "wall_s_roundtrip_part": t_roundtrip,
        "damage_images": dwork.len(),
        "damage_images_skipped_because_undamaged_read_differs": ds.skipped_images,
        "damage_evaluations": ds.evaluations,
        "damage_nontrivial": ds.nontrivial,
        "damage_identity_controls": ds.identity,
        "damage_reported_by_reader": ds.detected,
        "damage_accepted_with_identical_data": ds.accepted_identical,
        "largest_single_allocation_bytes": ds.max_alloc,
        "largest_single_allocation_image_bytes": ds.max_alloc_image,
        "allocation_bound": format!("{} + {} x image bytes", ALLOC_C0, ALLOC_C1),
        "distinct_outcome_classes": ds.outcomes.len(),
        "damage_outcomes_by_encoding_mutation_region": ds.table(),
        "samples": samples,
        "exhaustive": true,
    });
    rep.finish(
        coverage,
        vec![
            "structural equality = equality of the Debug rendering with every map/set sorted and both SDS representations reduced to their bytes; it includes private fields (vector clock entries, counter maps, OR-set tags and sequence counters) and does not go through serde".into(),
            "keys, hash fields and set members are Rust Strings, so non-UTF-8 bytes cannot occur there; binary data is exercised in LWW and hash-field values".into(),
            "readers are driven the way recovery drives them: SegmentReader open -> validate -> read_all, CheckpointReader open -> validate -> load, WalEntry::decode in a loop until None then to_delta; an Err at any stage (or a shorter WAL entry list) counts as damage reported".into(),
            "segment/checkpoint header fields exposed by the readers (record count, min/max timestamp; key count, creation time, last segment id) and the WAL entry stamp count as decoded data".into(),
            "Compression::None only (the harness builds redis-sim without the compression feature)".into(),
            "gossip messages are only round-tripped: the property's damage clause names segment, checkpoint and WAL".into(),
            "hash-map iteration order inside an image is whatever std's RandomState gives in this process; verdicts do not depend on it, the concrete image of a replay is stored in the replay file".into(),
            "oversized allocations are passed to the system allocator and recorded (no request above the bound was observed); an abort of the process would surface as a machinery failure".into(),
            "damage wider than one byte (other than truncation) and appended garbage are outside the bound".into(),
        ],
    );
}
