//! C09 — always-fsync WAL: a write reported durable survives a crash at any instant.
//! POLEX x CRASHX: all poll-level schedules of concurrent write_durable futures, the real WalActor
//! and the group-commit timer, x fault plans over the I/O calls, x every crash instant of the
//! I/O log; recovery by the real WalRotator on each crash image.
use redis_sim::redis::SDS;
use redis_sim::replication::lattice::{LamportClock, ReplicaId};
use redis_sim::replication::state::{ReplicatedValue, ReplicationDelta};
use redis_sim::streaming::{spawn_wal_actor, FsyncPolicy, WalConfig, WalEntry, WalRotator};
use serde_json::json;
use std::cell::RefCell;
use std::collections::BTreeSet;
use std::rc::Rc;
use std::sync::atomic::{AtomicU64, Ordering};
use std::sync::Arc;
use std::time::{Duration, Instant};
use vh::polex::{self, Chooser, DfsConfig, Sched};
use vh::stores::{VWalStore, WalFault, WalOp};
use vh::{cli, par, Reporter, Tier};

vh::use_jemalloc!();

const WAIT: Duration = Duration::from_millis(1);

fn delta(ts: u64) -> ReplicationDelta {
    let r = ReplicaId::new(1);
    let clock = LamportClock { time: ts, replica_id: r };
    ReplicationDelta::new(format!("key{ts:04}"), ReplicatedValue::with_value(SDS::from_str("value"), clock), r)
}

fn entry_size() -> usize {
    WalEntry::from_delta(&delta(1), 1).expect("encode").encode().len()
}

#[derive(Clone, Debug)]
struct Scenario {
    gce: usize,
    /// rotate after this many entries per file (0 = never)
    rotate_every: usize,
    /// number of sequential writes per writer task
    writers: Vec<usize>,
    faults: Vec<(usize, WalFault)>,
    advances: u32,
    /// a further task asks the actor to shut down gracefully, concurrently with the writers
    shutdown: bool,
    /// a further task tells the actor that everything stamped <= T has been streamed to the object store
    /// (WalActorHandle::truncate), concurrently with the writers; writes stamped > T must still survive
    truncate: Option<u64>,
    /// a writer whose write was reported failed sends the identical write (same update, same stamp) once more
    retry: bool,
}

impl Scenario {
    fn max_file_size(&self) -> usize {
        match self.rotate_every {
            0 => 1 << 30,
            n => 16 + (n - 1) * entry_size() + 1,
        }
    }
    fn json(&self, schedule: &[u32]) -> serde_json::Value {
        json!({"group_commit_max_entries": self.gce, "rotate_every": self.rotate_every, "writers": self.writers,
               "faults": self.faults.iter().map(|(i, f)| json!([i, f.name()])).collect::<Vec<_>>(), "advances": self.advances, "shutdown": self.shutdown, "truncate": self.truncate, "retry": self.retry, "schedule": schedule})
    }
    fn shape(&self) -> String {
        format!(
            "gce={} rotate={} faults=[{}]{}",
            if self.gce == 1 { "1" } else { ">1" },
            match self.rotate_every { 0 => "never", 1 => "every-entry", _ => "every-2nd" },
            self.faults.iter().map(|(_, f)| f.name()).collect::<Vec<_>>().join(","),
if self.shutdown { " +shutdown" } else if self.truncate.is_some() { " +truncate" } else if self.retry { " +retry" } else { "" }
        )
    }
}

#[derive(Clone, Debug)]
struct WriteRec {
    ts: u64,
    ok: bool,
    err: String,
}

struct Outcome {
    log: Vec<WalOp>,
    /// per writer task: completed writes in order and the I/O-log length at each wake of the task
    writers: Vec<(Vec<WriteRec>, Vec<u64>)>,
    stuck: Option<String>,
    trace: Vec<String>,
}

fn run_once(sc: &Scenario, ch: &mut Chooser) -> Outcome {
    polex::with_runtime(|rt| {
        rt.block_on(async {
            let store = VWalStore::with_plan(&sc.faults);
            let cfg = WalConfig {
                enabled: true,
                wal_dir: "/nonexistent".into(),
                fsync_policy: FsyncPolicy::Always,
                max_file_size: sc.max_file_size(),
                group_commit_max_entries: sc.gce,
                group_commit_max_wait: WAIT,
                truncation_check_interval: Duration::from_secs(3600),
            };
            let (handle, _join) = match spawn_wal_actor(store.clone(), cfg) {
                Ok(x) => x,
                Err(e) => {
                    return Outcome { log: store.log(), writers: vec![], stuck: Some(format!("spawn failed: {e}")), trace: vec![] };
                }
            };
            let mut sched = Sched::new();
            sched.stamp_src = Some(store.log_len.clone());
            sched.advance_left = sc.advances;
            sched.advance_by = WAIT;
            sched.forced_advances_left = 16;
            sched.adopt_captured();
            let mut recs: Vec<Rc<RefCell<Vec<WriteRec>>>> = Vec::new();
            let mut ids = Vec::new();
            for (w, n) in sc.writers.iter().enumerate() {
                let rec = Rc::new(RefCell::new(Vec::new()));
                recs.push(rec.clone());
                let h = handle.clone();
                let n = *n;
                let retry = sc.retry;
                let id = sched.add(
                    &format!("writer{w}"),
                    Box::pin(async move {
                        for k in 0..n {
                            let ts = (w as u64 + 1) * 10 + k as u64 + 1;
                            let mut r = h.write_durable(Arc::new(delta(ts)), ts).await;
                            if r.is_err() && retry {
                                r = h.write_durable(Arc::new(delta(ts)), ts).await;
                            }
                            rec.borrow_mut().push(WriteRec { ts, ok: r.is_ok(), err: r.err().map(|e| e.to_string()).unwrap_or_default() });
                        }
                    }),
                    false,
                );
                ids.push(id);
            }
            if sc.shutdown {
                let h = handle.clone();
                sched.add("closer", Box::pin(async move { h.shutdown().await }), false);
            }
            if let Some(t) = sc.truncate {
                let h = handle.clone();
                sched.add("streamer", Box::pin(async move { h.truncate(t) }), false);
            }
            drop(handle);
            let r = sched.run_to_completion(ch, 5_000).await;
            let writers = ids
                .iter()
                .zip(recs.iter())
                .map(|(id, rec)| (rec.borrow().clone(), sched.tasks[*id].flag.stamps.lock().unwrap().clone()))
                .collect();
            Outcome { log: store.log(), writers, stuck: r.err(), trace: sched.trace_names() }
        })
    })
}

fn recover(image: &std::collections::BTreeMap<String, Vec<u8>>, max_file_size: usize) -> Result<BTreeSet<u64>, String> {
    let st = VWalStore::from_image(image);
    let rot = WalRotator::new(st, max_file_size).map_err(|e| format!("rotator open failed: {e}"))?;
    let entries = std::panic::catch_unwind(std::panic::AssertUnwindSafe(|| rot.recover_all_entries()))
        .map_err(|p| format!("recovery panicked: {}", vh::panic_text(&p)))?
        .map_err(|e| format!("recovery failed: {e}"))?;
    Ok(entries.iter().map(|e| e.timestamp).collect())
}

/// Check one finished execution. Returns violations as (signature, detail).
fn judge(sc: &Scenario, out: &Outcome, crash_images: &AtomicU64) -> Vec<(String, String)> {
    let mut v = Vec::new();
    if let Some(s) = &out.stuck {
        let kind = if s.contains("panicked") { "panic" } else { "writer-never-answered" };
        v.push((format!("{kind} {}", sc.shape()), format!("{s}; schedule {:?}", out.trace)));
        return v;
    }
    // ack instant of the k-th completed write of a writer = log length at the k-th wake of its task
    let mut acked: Vec<(u64, u64)> = Vec::new(); // (ts, ack_stamp)
    for (recs, stamps) in &out.writers {
        let precise = stamps.len() == recs.len();
        for (k, r) in recs.iter().enumerate() {
            if r.ok {
                let stamp = if precise { stamps[k] } else { out.log.len() as u64 };
                acked.push((r.ts, stamp));
            }
        }
    }
    let all_ts: BTreeSet<u64> = out.writers.iter().flat_map(|(r, _)| r.iter().map(|x| x.ts)).collect();
    for i in 0..=out.log.len() {
        let img = VWalStore::crash_image(&out.log, i);
        crash_images.fetch_add(1, Ordering::Relaxed);
        // the restarted server opens the WAL with the configuration it was written with; what recovery returns must not
        // depend on the rotation threshold either, so a never-rotating and an always-rotating configuration are tried too
        let own = sc.max_file_size();
        let mut thresholds = vec![own];
        for t in [1usize << 30, 17] {
            if t != own {
                thresholds.push(t);
            }
        }
        for threshold in thresholds {
            let tlabel = if threshold == own { String::new() } else { format!(" recovered-with-threshold={}", if threshold == 17 { "tiny" } else { "huge" }) };
            match recover(&img, threshold) {
                Err(e) => v.push((format!("recovery-error {}{tlabel}", sc.shape()), format!("crash after I/O call {i}: {e}"))),
                Ok(rec) => {
                    for (ts, stamp) in &acked {
                        // a truncation request may remove what is stamped <= T (it has been streamed); nothing else
                        if sc.truncate.map(|t| *ts <= t).unwrap_or(false) {
                            continue;
                        }
                        if (i as u64) >= *stamp && !rec.contains(ts) {
                            let ops: Vec<String> = out.log.iter().map(|o| format!("{}({}{})", o.kind, o.file.trim_start_matches("wal-").trim_end_matches(".wal"), if o.ok { "" } else { ",FAILED" })).collect();
                            v.push((
                                format!("acked-write-lost {}{tlabel}", sc.shape()),
                                format!(
                                    "write ts={ts} was reported durable when {stamp} I/O calls had been made, but a crash after call {i} recovers (WAL opened with max_file_size={threshold}; written with {own}) only {:?}; I/O log: [{}]; schedule {:?}",
                                    rec, ops.join(" "), out.trace
                                ),
                            ));
                            return v;
                        }
                    }
                    if let Some(bad) = rec.iter().find(|t| !all_ts.contains(t)) {
                        v.push((format!("phantom-entry {}{tlabel}", sc.shape()), format!("crash after call {i}: recovered ts={bad} which nobody wrote")));
                        return v;
                    }
                }
            }
        }
    }
    v
}

// ---------------------------------------------------------------------------------------------
// the node's own wiring: a client's reply comes only after its update is in fsynced WAL bytes
// ---------------------------------------------------------------------------------------------

/// A real ReplicatedShardedState with a real WAL actor (always-fsync) attached executes commands one after another; at
/// the instant each reply arrives, a crash (files cut to their last successful sync) must still recover the update
/// of that command and of every earlier one.
/// Two lives of one WAL: the first actor (always-fsync) takes `n1` writes one after another; for EVERY prefix of its I/O
/// log the process dies there (unsynced bytes lost), a second actor is started on what is left - as a restarted server
/// does - and takes `n2` writes; then everything on disk is recovered. Every write the first life acknowledged before the
/// crash and every write the second life acknowledged must be there.
fn restart_case(gce: usize, rotate_every: usize, n1: usize, n2: usize) -> Result<u64, (String, String)> {
    let sc = Scenario { gce, rotate_every, writers: vec![], faults: vec![], advances: 0, shutdown: false, truncate: None, retry: false };
    let rt = tokio::runtime::Builder::new_current_thread().enable_time().start_paused(true).build().unwrap();
    let cfg = || WalConfig {
        enabled: true,
        wal_dir: "/nonexistent".into(),
        fsync_policy: FsyncPolicy::Always,
        max_file_size: sc.max_file_size(),
        group_commit_max_entries: gce,
        group_commit_max_wait: WAIT,
        truncation_check_interval: Duration::from_secs(3600),
    };
    let shape = format!("gce={} rotate={}", if gce == 1 { "1" } else { ">1" }, match rotate_every { 0 => "never", 1 => "every-entry", _ => "every-2nd" });
    let desc = format!("always-fsync WAL (group commit {gce}, rotation {}): {n1} durable writes, crash, restart on what is left, {n2} more durable writes, recovery", match rotate_every { 0 => "never", 1 => "after every entry", _ => "after every 2nd entry" });
    rt.block_on(async {
        let store = VWalStore::new();
        let (h1, _j1) = spawn_wal_actor(store.clone(), cfg()).map_err(|e| ("restart: spawn failed".to_string(), format!("{desc}: {e}")))?;
        let mut acked_at: Vec<(u64, usize)> = Vec::new();
        for k in 0..n1 {
            let ts = 101 + k as u64;
            h1.write_durable(Arc::new(delta(ts)), ts).await.map_err(|e| ("restart: first-life write failed".to_string(), format!("{desc}: write {ts}: {e}")))?;
            acked_at.push((ts, store.log().len()));
        }
        let log = store.log();
        let mut images = 0u64;
        for p in 0..=log.len() {
            let img = VWalStore::crash_image(&log, p);
            let store2 = VWalStore::from_image(&img);
            let (h2, _j2) = match spawn_wal_actor(store2.clone(), cfg()) {
                Ok(x) => x,
                Err(e) => return Err((format!("restart: second life does not start {shape}"), format!("{desc}: crash after {p} of {} I/O calls: {e}", log.len()))),
            };
            let mut want: Vec<u64> = acked_at.iter().filter(|(_, at)| *at <= p).map(|(ts, _)| *ts).collect();
            for k in 0..n2 {
                let ts = 201 + k as u64;
                h2.write_durable(Arc::new(delta(ts)), ts).await.map_err(|e| (format!("restart: second-life write failed {shape}"), format!("{desc}: crash after {p} of {} I/O calls; write {ts}: {e}", log.len())))?;
                want.push(ts);
            }
            images += 1;
            // what is on disk now (the last acknowledged write has synced everything before it)
            let final_files = store2.files_now();
            let rot = WalRotator::new(VWalStore::from_image(&final_files), 1 << 30).map_err(|e| (format!("restart: recovery failed {shape}"), format!("{desc}: crash after {p} I/O calls: {e}")))?;
            let got: BTreeSet<u64> = rot.recover_all_entries().map_err(|e| (format!("restart: recovery failed {shape}"), format!("{desc}: crash after {p} I/O calls: {e}")))?.iter().map(|e| e.timestamp).collect();
            let lost: Vec<u64> = want.iter().copied().filter(|t| !got.contains(t)).collect();
            if !lost.is_empty() {
                let life = if lost.iter().any(|t| *t < 200) { "first-life" } else { "second-life" };
                return Err((
                    format!("restart: acked-write-lost {life} {shape}"),
                    format!("{desc}: crash after {p} of {} I/O calls of the first life ({}); acknowledged writes {:?} are not among the recovered {:?}; files {:?}", log.len(), log.get(p.saturating_sub(1)).map(|o| format!("last call: {} {}", o.kind, o.file)).unwrap_or_default(), lost, got, final_files.iter().map(|(k, v)| (k.clone(), v.len())).collect::<Vec<_>>()),
                ));
            }
        }
        Ok(images)
    })
}

fn node_wiring_case(gce: usize, rotate_every: usize, n: usize) -> Result<u64, (String, String)> {
    use redis_sim::production::ReplicatedShardedState;
    use redis_sim::replication::ReplicationConfig;
    let sc = Scenario { gce, rotate_every, writers: vec![], faults: vec![], advances: 0, shutdown: false, truncate: None, retry: false };
    let rt = tokio::runtime::Builder::new_current_thread().enable_time().start_paused(true).build().unwrap();
    rt.block_on(async {
        let store = VWalStore::new();
        let cfg = WalConfig {
            enabled: true,
            wal_dir: "/nonexistent".into(),
            fsync_policy: FsyncPolicy::Always,
            max_file_size: sc.max_file_size(),
            group_commit_max_entries: gce,
            group_commit_max_wait: WAIT,
            truncation_check_interval: Duration::from_secs(3600),
        };
        let desc = format!("node with an always-fsync WAL (group commit {gce}, rotation {}), {n} commands one after another", match rotate_every { 0 => "never", 1 => "after every entry", _ => "after every 2nd entry" });
        let (handle, _join) = spawn_wal_actor(store.clone(), cfg).map_err(|e| ("node-wiring: spawn failed".to_string(), format!("{desc}: {e}")))?;
        let mut node = ReplicatedShardedState::new(ReplicationConfig { enabled: true, replica_id: 1, ..Default::default() });
        node.set_wal_handle(handle);
        let mut images = 0u64;
        let mut written: Vec<String> = Vec::new();
        for i in 0..n {
            let (key, line) = match i % 4 {
                0 => (format!("k{i}"), format!("SET k{i} v{i}")),
                1 => (format!("h{i}"), format!("HSET h{i} f v{i}")),
                2 => (format!("n{i}"), format!("INCRBY n{i} {i}")),
                _ => (format!("k{}", i - 3), format!("DEL k{}", i - 3)),
            };
            let cmd = vh::resp::parse(&vh::resp::line(&line)).expect("parses");
            let reply = node.execute(cmd).await;
            if vh::resp::is_err(&reply) {
                return Err(("node-wiring: command failed".to_string(), format!("{desc}: `{line}` replied {}", vh::resp::show(&reply))));
            }
            written.push(key);
            // the reply is in the client's hands now: crash here
            let log = store.log();
            let img = VWalStore::crash_image(&log, log.len());
            images += 1;
            let rot = WalRotator::new(VWalStore::from_image(&img), 1 << 30).map_err(|e| ("node-wiring: recovery failed".to_string(), format!("{desc}: {e}")))?;
            let entries = rot.recover_all_entries().map_err(|e| ("node-wiring: recovery failed".to_string(), format!("{desc}: {e}")))?;
            let keys: BTreeSet<String> = entries.iter().filter_map(|e| e.to_delta().ok()).map(|d| d.key).collect();
            if let Some(lost) = written.iter().find(|k| !keys.contains(*k)) {
                return Err((
                    format!("node-wiring: replied-before-durable gce={} rotate={}", if gce == 1 { "1" } else { ">1" }, match rotate_every { 0 => "never", 1 => "every-entry", _ => "every-2nd" }),
                    format!("{desc}: after the reply to command #{i} (`{line}`) a crash recovers updates of {:?} only; the update of {lost} is not among them", keys),
                ));
            }
        }
        Ok(images)
    })
}

fn main() {
    let args = cli::parse_args();
    vh::quiet_panics();
    if let Some(path) = &args.replay {
        let r = vh::report::load_replay(path);
        if r["restart"] == json!(true) {
            match restart_case(r["gce"].as_u64().unwrap() as usize, r["rotate_every"].as_u64().unwrap() as usize, r["n1"].as_u64().unwrap() as usize, r["n2"].as_u64().unwrap() as usize) {
                Err((sig, detail)) => {
                    println!("{detail}");
                    println!("VIOLATION property=C09 replay={} ({sig})", path.display());
                    std::process::exit(1);
                }
                Ok(n) => {
                    println!("replay: no violation ({n} crash points)");
                    std::process::exit(0);
                }
            }
        }
        if r["node_wiring"] == json!(true) {
            match node_wiring_case(r["gce"].as_u64().unwrap() as usize, r["rotate_every"].as_u64().unwrap() as usize, r["n"].as_u64().unwrap() as usize) {
                Err((sig, detail)) => {
                    println!("{detail}");
                    println!("VIOLATION property=C09 replay={} ({sig})", path.display());
                    std::process::exit(1);
                }
                Ok(_) => {
                    println!("replay: no violation");
                    std::process::exit(0);
                }
            }
        }
        let sc = Scenario {
            gce: r["group_commit_max_entries"].as_u64().unwrap() as usize,
            rotate_every: r["rotate_every"].as_u64().unwrap() as usize,
            writers: r["writers"].as_array().unwrap().iter().map(|x| x.as_u64().unwrap() as usize).collect(),
            faults: r["faults"].as_array().unwrap().iter().map(|f| {
                let k = match f[1].as_str().unwrap() { "fail" => WalFault::Fail, "partial" => WalFault::Partial, "partial-uncounted" => WalFault::PartialUncounted, _ => WalFault::DiskFull };
                (f[0].as_u64().unwrap() as usize, k)
            }).collect(),
            advances: r["advances"].as_u64().unwrap() as u32,
            shutdown: r["shutdown"].as_bool().unwrap_or(false),
            truncate: r["truncate"].as_u64(),
            retry: r["retry"].as_bool().unwrap_or(false),
        };
        let schedule: Vec<u32> = r["schedule"].as_array().unwrap().iter().map(|x| x.as_u64().unwrap() as u32).collect();
        let mut ch = polex::replay_prefix(&schedule);
        let out = run_once(&sc, &mut ch);
        println!("schedule: {:?}", out.trace);
        for (i, o) in out.log.iter().enumerate() {
            println!("io[{i}] {} {} ok={} len={} synced={}", o.kind, o.file, o.ok, o.len_after, o.synced_after);
        }
        for (w, (recs, stamps)) in out.writers.iter().enumerate() {
            println!("writer{w}: {:?} ack-stamps {:?}", recs, stamps);
        }
        let v = judge(&sc, &out, &AtomicU64::new(0));
        if v.is_empty() {
            println!("replay: no violation");
            std::process::exit(0);
        }
        for (s, d) in &v {
            println!("{s}: {d}");
        }
        println!("VIOLATION property=C09 replay={}", path.display());
        std::process::exit(1);
    }
    let rep = Reporter::new("C09", "fault_enumeration", &args);
    let thorough = args.tier == Tier::Thorough;
    // base scenarios (no faults)
    let mut bases: Vec<Scenario> = Vec::new();
    let writer_sets: Vec<Vec<usize>> = if thorough { vec![vec![1, 1], vec![1, 1, 1], vec![2, 1], vec![2, 2]] } else { vec![vec![1, 1], vec![2, 1], vec![1, 1, 1]] };
    for gce in [1usize, 2, 8] {
        for rotate_every in [1usize, 2, 0] {
            for w in &writer_sets {
                bases.push(Scenario { gce, rotate_every, writers: w.clone(), faults: vec![], advances: 2, shutdown: false, truncate: None, retry: false });
            }
            // graceful shutdown racing with two writers (the last batch is flushed by the shutdown path)
            bases.push(Scenario { gce, rotate_every, writers: vec![1, 1], faults: vec![], advances: 2, shutdown: true, truncate: None, retry: false });
            // a truncation request (everything stamped <= 15 is streamed: writer 0's stamps are 11, 12; writer 1's 21, 22)
            // racing with the writers: whichever order the entries reached the files in, the ones above 15 must survive
            bases.push(Scenario { gce, rotate_every, writers: vec![1, 1], faults: vec![], advances: 2, shutdown: false, truncate: Some(15), retry: false });
            bases.push(Scenario { gce, rotate_every, writers: vec![2, 1], faults: vec![], advances: 2, shutdown: false, truncate: Some(15), retry: false });
            // a writer that is told "failed" sends the identical write again (what a client library does): whatever it is told
            // the second time is what counts
            bases.push(Scenario { gce, rotate_every, writers: vec![1, 1], faults: vec![], advances: 2, shutdown: false, truncate: None, retry: true });
            bases.push(Scenario { gce, rotate_every, writers: vec![2], faults: vec![], advances: 2, shutdown: false, truncate: None, retry: true });
        }
    }
    // fault plans: every single fault position x kind (quick), plus all pairs (thorough) over the first
    // K I/O calls, where K = the largest number of calls seen in the fault-free default schedule
    let mut scenarios: Vec<Scenario> = Vec::new();
    for b in &bases {
        scenarios.push(b.clone());
        let mut ch = polex::replay_prefix(&[]);
        let calls = run_once(b, &mut ch).log.len() + 2;
        let kinds = [WalFault::Fail, WalFault::Partial, WalFault::DiskFull, WalFault::PartialUncounted];
        let three = b.writers.iter().sum::<usize>() >= 3;
        if !thorough && three && b.writers.len() == 3 {
            // quick: 3 writers explored fault-free and with sync faults only
            for k in 0..calls {
                let mut s = b.clone();
                s.faults = vec![(k, WalFault::Fail)];
                scenarios.push(s);
            }
            continue;
        }
        for k in 0..calls {
            for f in kinds {
                let mut s = b.clone();
                s.faults = vec![(k, f)];
                scenarios.push(s);
            }
        }
        // bursts: 2, 3 or 4 consecutive I/O calls hit by the same fault (a device that stays bad for a moment; a retry
        // loop with a bounded number of attempts gives up exactly here)
        for k in 0..calls {
            for f in kinds {
                for len in 2..=4usize {
                    let mut s = b.clone();
                    s.faults = (k..k + len).map(|i| (i, f)).collect();
                    scenarios.push(s);
                }
            }
        }
        if thorough && b.writers.len() == 2 {
            for k1 in 0..calls {
                for k2 in k1 + 1..calls {
                    for f1 in kinds {
                        for f2 in [WalFault::Fail, WalFault::Partial] {
                            let mut s = b.clone();
                            s.faults = vec![(k1, f1), (k2, f2)];
                            scenarios.push(s);
                        }
                    }
                }
            }
        }
    }
    let deadline = Instant::now() + Duration::from_secs(if thorough { 1500 } else { 50 });
    let crash_images = AtomicU64::new(0);
    let acked_total = AtomicU64::new(0);
    let results = par::par_map(&scenarios, |_, sc| {
        let mut cfg = DfsConfig::default();
        cfg.deadline = Some(deadline);
        cfg.budgets[1] = if thorough { 6 } else { 3 };
        let mut distinct_logs: BTreeSet<u64> = BTreeSet::new();
        let stats = polex::explore(&cfg, |ch| {
            let out = run_once(sc, ch);
            acked_total.fetch_add(out.writers.iter().flat_map(|(r, _)| r.iter()).filter(|r| r.ok).count() as u64, Ordering::Relaxed);
            let key: String = out.log.iter().map(|o| format!("{}{}{};", o.kind, o.file, o.ok)).collect::<String>()
                + &out.writers.iter().map(|(r, s)| format!("{:?}{:?}", r.iter().map(|x| x.ok).collect::<Vec<_>>(), s)).collect::<String>();
            if distinct_logs.insert(vh::seqx::fp128(&key) as u64) {
                for (sig, detail) in judge(sc, &out, &crash_images) {
                    rep.violation(sig, format!("{}: {detail}", sc.json(&[])), sc.json(&ch.schedule()));
                }
            }
            true
        });
        (stats, distinct_logs.len() as u64)
    });
    let execs: u64 = results.iter().map(|r| r.0.executions).sum();
    let distinct: u64 = results.iter().map(|r| r.1).sum();
    let truncated = results.iter().any(|r| r.0.truncated);
    let max_delay = results.iter().map(|r| r.0.max_used[1]).max().unwrap_or(0);
    // the node's own wiring
    let mut wiring_images = 0u64;
    let mut wiring_cases = 0u64;
    for gce in [1usize, 2, 8] {
        for rotate_every in [1usize, 2, 0] {
            for n in [1usize, 2, 3, 5, 9] {
                wiring_cases += 1;
                match std::panic::catch_unwind(|| node_wiring_case(gce, rotate_every, n)) {
                    Ok(Ok(i)) => wiring_images += i,
                    Ok(Err((sig, detail))) => rep.violation(sig, detail, json!({"node_wiring": true, "gce": gce, "rotate_every": rotate_every, "n": n})),
                    Err(p) => rep.violation("node-wiring: panic".to_string(), vh::panic_text(&p), json!({"node_wiring": true, "gce": gce, "rotate_every": rotate_every, "n": n})),
                }
            }
        }
    }
    // two lives of one WAL
    let restart_items: Vec<(usize, usize, usize, usize)> = [1usize, 8].iter().flat_map(|g| [1usize, 2, 0].into_iter().flat_map(move |r| [(1usize, 1usize), (2, 2), (3, 1), (4, 3)].into_iter().map(move |(a, b)| (*g, r, a, b)))).collect();
    let restart_images: u64 = par::par_map(&restart_items, |_, (g, r, a, b)| match std::panic::catch_unwind(|| restart_case(*g, *r, *a, *b)) {
        Ok(Ok(i)) => i,
        Ok(Err((sig, detail))) => {
            rep.violation(sig, detail, json!({"restart": true, "gce": g, "rotate_every": r, "n1": a, "n2": b}));
            0
        }
        Err(p) => {
            rep.violation("restart: panic".to_string(), vh::panic_text(&p), json!({"restart": true, "gce": g, "rotate_every": r, "n1": a, "n2": b}));
            0
        }
    })
    .into_iter()
    .sum();
    let coverage = json!({
        "restart_on_a_crash_image": {"cases": restart_items.len(), "crash_points_restarted_from": restart_images,
            "rule": "a first always-fsync WAL actor takes 1..4 writes; for every prefix of its I/O log: crash image, a second actor started on it takes 1..3 writes, then recovery of everything on disk: every write acknowledged by the first life before the crash and every write acknowledged by the second life is recovered (6 group-commit x rotation configurations)"},
        "node_wiring": {"cases": wiring_cases, "crash_images_recovered": wiring_images, "rule": "a real ReplicatedShardedState with a real always-fsync WAL actor attached (set_wal_handle) executes 1..9 commands (SET / HSET / INCRBY / DEL) one after another under 9 group-commit x rotation configurations; at the instant each reply arrives a crash image (files cut to their last successful sync) is recovered: the update of that command and of every earlier one must be in it"},
        "evaluations": execs,
        "distinct_nontrivial": distinct,
        "rule": "scenario = (group_commit_max_entries in {1,2,8}) x (rotation after every entry / every 2nd / never) x (writer tasks with 1-2 sequential write_durable calls; also two writers racing with a graceful shutdown request) x fault plan (none; every single I/O-call index x {fail, partial append, disk full}; bursts of 2-4 consecutive calls hit by the same fault; thorough: all pairs for 2 writers); for each scenario every poll-level schedule of writers, the real WalActor and <=2 clock advances of group_commit_max_wait within the delay bound; an execution is non-trivial/distinct when its (I/O log, results, ack instants) differs from earlier ones of the scenario - for each such execution EVERY crash instant (I/O-log prefix, files cut to last successful sync) is recovered with the real WalRotator",
        "scenarios": scenarios.len(),
        "schedules_executed": execs,
        "distinct_io_histories_crash_checked": distinct,
        "crash_images_recovered": crash_images.load(Ordering::Relaxed),
        "acknowledged_writes_checked": acked_total.load(Ordering::Relaxed),
        "delay_bound": if thorough { 6 } else { 3 },
        "max_delays_used": max_delay,
        "time_cap_hit": truncated,
        "exhaustive": !truncated,
        "samples": [scenarios[1].json(&[]), scenarios[scenarios.len() / 2].json(&[])],
    });
    rep.finish(
        coverage,
        vec![
            "crash model = the property's: every byte not covered by a successful sync of its file is lost; files are independent".into(),
            "ack instant of a write = I/O-log length at the moment the actor wakes the writer (instrumented waker), so acknowledging before syncing is caught even inside one poll".into(),
            "the 5 s write_durable timeout never fires (the clock only moves by group_commit_max_wait steps)".into(),
        ],
    );
}
