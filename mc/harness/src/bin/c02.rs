//! C02 — concurrent clients on one node see a linearizable per-key history.
//! POLEX: all poll-level interleavings of 2–3 client tasks and the real shard actors of a real
//! ShardedActorState; every complete schedule's history is checked by brute-force
//! linearizability against the sequential executor.
use bytes::Bytes;
use redis_sim::production::verif_access::hash_key;
use redis_sim::redis::{CommandExecutor, RespValue};
use redis_sim::simulator::VirtualTime;
use serde_json::json;
use std::cell::RefCell;
use std::collections::HashMap;
use std::rc::Rc;
use std::sync::atomic::{AtomicU64, Ordering};
use std::sync::Arc;
use std::time::{Duration, Instant};
use vh::polex::{self, Chooser, DfsConfig};
use vh::resp::{self, Argv};
use vh::shardsys::{Node, VerifTime};
use vh::{cli, par, Reporter, Tier};

/// Operation alphabet. K = the key shared by all clients, Q = a second key on another shard.
const OPS: &[&str] = &[
    "X GET K", "X SET K 1", "X SET K 5", "FG K", "FS K 2", "PG K", "PS K 3", "BG K Q", "BS K 4 Q 6",
    "X INCR K", "X APPEND K 7", "X DEL K", "X GETSET K 9",
    "X EVAL local\\x20v=redis.call('GET',KEYS[1])\\x20redis.call('SET',KEYS[1],(v\\x20or\\x20'')..'8')\\x20return\\x20v 1 K",
    "PG Q", "FS Q 0",
    // 16.. : breadth of single-key read-modify-write / conditional commands through the generic path
    "X SETNX K 4", "X SET K 5 NX", "X SET K 6 XX", "X SET K 7 GET", "X GETDEL K", "X INCRBY K 3", "X DECR K", "X INCRBYFLOAT K 1.5", "X SETRANGE K 1 Z", "X STRLEN K",
    "X LPUSH K a", "X RPUSH K b", "X LPOP K", "X RPOP K", "X LLEN K", "X SADD K m", "X SREM K m", "X SPOP K", "X SCARD K",
    "X HSET K f 1", "X HSETNX K f 2", "X HINCRBY K f 1", "X HDEL K f", "X HGET K f", "X ZADD K 1 m", "X ZADD K NX 2 m", "X ZINCRBY K 1 m", "X ZREM K m", "X ZSCORE K m",
    "X EXISTS K", "X TYPE K", "X EXPIRE K 100", "X PERSIST K", "X TTL K",
    // 50.. : one pipelined batch of n SETs of the SAME key (values v0..v(n-1)) through the batched path; a client's
    // own writes to one key take effect in the order it sent them, so the batch as a whole acts like SET K v(n-1)
    "BSN 33 K", "BSN 65 K", "BSN 130 K",
    // 53.. : writes that set value AND deadline (two facets of one key: a torn write shows as one client's value with
    // the other's TTL) and TTL-conditional commands
    "X SET K 8 EX 100", "X SET K 9 PX 50000", "X SETEX K 200 s", "X GETEX K PERSIST", "X GETEX K EX 300", "X EXPIRE K 50 GT", "X EXPIRE K 500 NX", "X SET K 6 KEEPTTL", "X PEXPIRE K 70000",
];
const TTL_FROM: usize = 53;
const BSN_FROM: usize = 50;
const RMW_FROM: usize = 16;

#[derive(Clone, Debug)]
struct Single {
    client: usize,
    seq: usize,
    inv: u64,
    resp: u64,
    cmd: Argv,
    reply: String,
}

/// K is the first candidate whose home (generic route) is shard `home % shards`, Q the first candidate on another shard
fn keys_for(shards: usize, home: usize) -> (String, String) {
    let cands: Vec<String> = (0..1000).map(|i| format!("key{i}")).collect();
    let k = if home == usize::MAX { cands[0].clone() } else { cands.iter().find(|c| hash_key(c, shards) == home % shards).cloned().unwrap() };
    let q = cands
        .iter()
        .find(|c| **c != k && (shards == 1 || hash_key(c, shards) != hash_key(&k, shards)))
        .cloned()
        .unwrap();
    (k, q)
}

fn subst(op: &str, k: &str, q: &str) -> Argv {
    resp::line(op)
        .into_iter()
        .map(|t| {
            if t == b"K" {
                k.as_bytes().to_vec()
            } else if t == b"Q" {
                q.as_bytes().to_vec()
            } else {
                t
            }
        })
        .collect()
}

type Hist = Rc<RefCell<Vec<Single>>>;

/// One client: runs its program against the node, recording invocation/response stamps.
async fn client(
    id: usize,
    program: Vec<Argv>,
    state: redis_sim::production::ShardedActorState<VerifTime>,
    steps: Arc<AtomicU64>,
    hist: Hist,
) {
    for (seq, op) in program.iter().enumerate() {
        let tag = String::from_utf8_lossy(&op[0]).to_string();
        let inv = steps.load(Ordering::SeqCst);
        let b = |i: usize| Bytes::from(op[i].clone());
        let get = |k: &Vec<u8>| vec![b"GET".to_vec(), k.clone()];
        let set = |k: &Vec<u8>, v: &Vec<u8>| vec![b"SET".to_vec(), k.clone(), v.clone()];
        let results: Vec<(Argv, RespValue)> = match tag.as_str() {
            "X" => {
                let a: Argv = op[1..].to_vec();
                let cmd = resp::parse(&a).expect("alphabet command parses");
                let r = state.execute(&cmd).await;
                vec![(a, r)]
            }
            "FG" => vec![(get(&op[1]), state.fast_get(b(1)).await)],
            "FS" => vec![(set(&op[1], &op[2]), state.fast_set(b(1), b(2)).await)],
            "PG" => vec![(get(&op[1]), state.pooled_fast_get(b(1)).await)],
            "PS" => vec![(set(&op[1], &op[2]), state.pooled_fast_set(b(1), b(2)).await)],
            "BG" => {
                let ks: Vec<Bytes> = op[1..].iter().map(|x| Bytes::from(x.clone())).collect();
                let rs = state.fast_batch_get_pipeline(ks).await;
                op[1..].iter().zip(rs).map(|(k, r)| (get(k), r)).collect()
            }
            "BS" => {
                let ps: Vec<(Bytes, Bytes)> = op[1..].chunks(2).map(|c| (Bytes::from(c[0].clone()), Bytes::from(c[1].clone()))).collect();
                let rs = state.fast_batch_set_pipeline(ps).await;
                op[1..].chunks(2).zip(rs).map(|(c, r)| (set(&c[0], &c[1]), r)).collect()
            }
            "BSN" => {
                let n: usize = String::from_utf8_lossy(&op[1]).parse().unwrap();
                let key = op[2].clone();
                let ps: Vec<(Bytes, Bytes)> = (0..n).map(|i| (Bytes::from(key.clone()), Bytes::from(format!("v{i}").into_bytes()))).collect();
                let rs = state.fast_batch_set_pipeline(ps).await;
                let bad = rs.iter().find(|r| resp::show(r) != "+OK").cloned();
                let reply = if rs.len() != n { RespValue::Error(format!("{} replies for {n} SETs", rs.len()).into()) } else { bad.unwrap_or(RespValue::SimpleString("OK".into())) };
                vec![(set(&key, &format!("v{}", n - 1).into_bytes()), reply)]
            }
            other => panic!("unknown tag {other}"),
        };
        let resp_t = steps.load(Ordering::SeqCst);
        let mut h = hist.borrow_mut();
        for (cmd, r) in results {
            h.push(Single {
                client: id,
                seq,
                inv,
                resp: resp_t,
                cmd,
                reply: resp::show(&r),
            });
        }
    }
}

/// The expiry group has no writer: K exists with a deadline, the clock only moves forward. Whoever has seen K gone
/// (after the deadline) has seen the truth for good: no operation invoked after that reply may see K again.
fn presence_monotone(h: &[Single]) -> bool {
    let gone = |s: &Single| -> Option<bool> {
        let name = String::from_utf8_lossy(&s.cmd[0]).to_ascii_uppercase();
        match name.as_str() {
            "EXISTS" => Some(s.reply == ":0"),
            "TTL" | "PTTL" => Some(s.reply == ":-2"),
            "GET" => Some(s.reply == "$nil" || s.reply == "nil" || s.reply.starts_with("$-1") || s.reply == "(nil)"),
            "TYPE" => Some(s.reply == "+none"),
            _ => None,
        }
    };
    for a in h {
        if gone(a) != Some(true) {
            continue;
        }
        for b in h {
            if precedes(a, b) && gone(b) == Some(false) {
                return false;
            }
        }
    }
    true
}

/// The expiry group with writers: K exists with a deadline, the clock only moves forward, an eviction pass runs, and
/// clients re-create K with plain SETs (no deadline) on any path. Nobody deletes. So (1) every read invoked after an
/// acknowledged SET sees K present, and without a deadline; (2) a read that sees K present after an earlier read saw it
/// gone needs a SET that can lie between the two.
fn expiry_with_writers(h: &[Single]) -> bool {
    let name = |s: &Single| String::from_utf8_lossy(&s.cmd[0]).to_ascii_uppercase();
    let is_write = |s: &Single| name(s) == "SET";
    let gone = |s: &Single| -> Option<bool> {
        match name(s).as_str() {
            "EXISTS" => Some(s.reply == ":0"),
            "TTL" | "PTTL" => Some(s.reply == ":-2"),
            "GET" => Some(s.reply == "$nil" || s.reply == "nil" || s.reply.starts_with("$-1") || s.reply == "(nil)"),
            "TYPE" => Some(s.reply == "+none"),
            _ => None,
        }
    };
    let writes: Vec<&Single> = h.iter().filter(|s| is_write(s)).collect();
    if writes.is_empty() {
        return presence_monotone(h);
    }
    for w in &writes {
        if w.reply != "+OK" {
            return false;
        }
        for b in h {
            if precedes(w, b) && (gone(b) == Some(true) || (name(b) == "TTL" && b.reply != ":-1")) {
                return false;
            }
        }
    }
    for a in h {
        if gone(a) != Some(true) {
            continue;
        }
        for b in h {
            if precedes(a, b) && gone(b) == Some(false) && writes.iter().all(|w| precedes(b, w) || precedes(w, a)) {
                return false;
            }
        }
    }
    true
}

/// a must precede b in any linearization
fn precedes(a: &Single, b: &Single) -> bool {
    if a.client == b.client {
        a.seq < b.seq
    } else {
        a.resp < b.inv
    }
}

/// Brute force: is there a total order respecting `precedes` whose sequential execution on a fresh
/// executor yields exactly the observed replies?
fn linearizable(h: &[Single]) -> bool {
    fn go(h: &[Single], placed: &mut Vec<usize>, used: &mut Vec<bool>) -> bool {
        if placed.len() == h.len() {
            let mut ex = CommandExecutor::new();
            for &i in placed.iter() {
                let cmd = resp::parse(&h[i].cmd).expect("parses");
                ex.set_time(VirtualTime::from_millis(0));
                if resp::show(&ex.execute(&cmd)) != h[i].reply {
                    return false;
                }
            }
            return true;
        }
        for i in 0..h.len() {
            if used[i] {
                continue;
            }
            // all predecessors placed?
            if (0..h.len()).any(|j| j != i && !used[j] && precedes(&h[j], &h[i])) {
                continue;
            }
            used[i] = true;
            placed.push(i);
            // prune: replay prefix so far
            let ok_prefix = {
                let mut ex = CommandExecutor::new();
                placed.iter().all(|&p| {
                    let cmd = resp::parse(&h[p].cmd).expect("parses");
                    ex.set_time(VirtualTime::from_millis(0));
                    resp::show(&ex.execute(&cmd)) == h[p].reply
                })
            };
            if ok_prefix && go(h, placed, used) {
                return true;
            }
            placed.pop();
            used[i] = false;
        }
        false
    }
    go(h, &mut Vec::new(), &mut vec![false; h.len()])
}

/// Canonical, schedule-independent rendering of an observed history (for memoisation and replay output).
fn hist_key(h: &[Single]) -> String {
    let mut s = String::new();
    for (i, a) in h.iter().enumerate() {
        s.push_str(&format!("{}:c{}#{} {} -> {};", i, a.client, a.seq, resp::show_argv(&a.cmd), a.reply));
    }
    s.push('|');
    for (i, a) in h.iter().enumerate() {
        for (j, b) in h.iter().enumerate() {
            if i != j && precedes(a, b) {
                s.push_str(&format!("{i}<{j},"));
            }
        }
    }
    s
}

#[derive(Clone, Debug)]
struct Scenario {
    shards: usize,
    programs: Vec<Vec<usize>>, // indices into OPS
    /// true: each program is one pipelined chunk sent over its own real connection handler
    conn: bool,
    /// true: the scheduler may also let 2 s of (virtual) time pass once, at any point - a shard that is not
    /// polled for that long is a stalled shard; any timer the code under test arms can then fire
    stall: bool,
    /// home shard of key K (usize::MAX: whatever shard "key0" lives on)
    home: usize,
    /// true: K is created with a 1 s TTL before the clients start, the node's clock may jump 2 s once at any point, and
    /// a further task runs evict_expired_all_shards(); the history is judged by monotone presence (see `presence_monotone`)
    expiry: bool,
}

enum RunResult {
    Done(Vec<Single>),
    Stuck(String),
}

/// Connection-level variant: every program is pipelined over its own real OptimizedConnectionHandler
/// (all on one state); invocation = start of the run (the bytes are already in the socket), response =
/// the step at which the reply bytes were written.
fn run_once_conn(sc: &Scenario, ch: &mut Chooser) -> (RunResult, Vec<String>) {
    use vh::connsys::{decode_replies, ConnWorld};
    polex::with_runtime(|rt| {
        rt.block_on(async {
            let (k, q) = keys_for(sc.shards, sc.home);
            let mut w = ConnWorld::new(sc.shards);
            let mut streams = Vec::new();
            let mut progs: Vec<Vec<Argv>> = Vec::new();
            for (i, p) in sc.programs.iter().enumerate() {
                let prog: Vec<Argv> = p.iter().map(|o| subst(OPS[*o], &k, &q)[1..].to_vec()).collect();
                let (st, _) = w.connect(&format!("conn{i}"), redis_sim::production::ConnectionConfig::default());
                let bytes: Vec<u8> = prog.iter().flat_map(|a| resp::wire(a)).collect();
                st.push(&bytes);
                st.close();
                streams.push(st);
                progs.push(prog);
            }
            let mut seen: Vec<usize> = vec![0; streams.len()];
            let mut outputs: Vec<Vec<u8>> = vec![Vec::new(); streams.len()];
            let mut hist: Vec<Single> = Vec::new();
            let mut steps = 0usize;
            let mut stuck = None;
            while !w.sched.clients_done() {
                if let Some(p) = &w.sched.panicked {
                    stuck = Some(p.clone());
                    break;
                }
                let en = w.sched.enabled();
                if en.is_empty() {
                    stuck = Some("deadlock: no enabled task, a connection is unfinished".to_string());
                    break;
                }
                let pick = if en.len() == 1 { 0 } else { ch.choose(en.len(), if w.sched.last_still_enabled() { Some(0) } else { Some(1) }) };
                w.sched.step(en[pick]).await;
                steps += 1;
                if steps > 10_000 {
                    stuck = Some("step limit exceeded".into());
                    break;
                }
                let now = w.sched.step_counter.load(Ordering::SeqCst);
                for (i, st) in streams.iter().enumerate() {
                    let newb = st.take_written();
                    if !newb.is_empty() {
                        outputs[i].extend_from_slice(&newb);
                        let (replies, _) = decode_replies(&outputs[i]);
                        for (j, r) in replies.iter().enumerate().skip(seen[i]) {
                            if j < progs[i].len() {
                                hist.push(Single { client: i, seq: j, inv: 0, resp: now, cmd: progs[i][j].clone(), reply: resp::show(r) });
                            }
                        }
                        seen[i] = replies.len();
                    }
                }
            }
            let trace = w.sched.trace_names();
            if stuck.is_none() {
                if let Some(p) = &w.sched.panicked {
                    stuck = Some(p.clone());
                }
            }
            if stuck.is_none() {
                for (i, p) in progs.iter().enumerate() {
                    if seen[i] != p.len() {
                        stuck = Some(format!("deadlock: connection {i} wrote {} replies for {} commands", seen[i], p.len()));
                    }
                }
            }
            match stuck {
                Some(e) => (RunResult::Stuck(e), trace),
                None => {
                    hist.sort_by_key(|s| (s.client, s.seq));
                    (RunResult::Done(hist), trace)
                }
            }
        })
    })
}

fn run_once(sc: &Scenario, ch: &mut Chooser) -> (RunResult, Vec<String>) {
    if sc.conn {
        return run_once_conn(sc, ch);
    }
    polex::with_runtime(|rt| {
        rt.block_on(async {
            let (k, q) = keys_for(sc.shards, sc.home);
            let clock = VerifTime::new(1_000_000);
            let mut node = Node::new(sc.shards, clock.clone());
            if sc.expiry {
                let _ = node.exec(&subst("SET K v PX 1000", &k, &q)).await;
                node.sched.advance_left = 1;
                node.sched.advance_by = Duration::from_millis(1);
                node.sched.harness_clock = Some((clock.0.clone(), 2_000));
                let st = node.state.clone();
                node.sched.add("evictor", Box::pin(async move { let _ = st.evict_expired_all_shards().await; }), false);
            }
            if sc.stall {
                node.sched.advance_left = 1;
                node.sched.advance_by = Duration::from_secs(2);
            }
            let hist: Hist = Rc::new(RefCell::new(Vec::new()));
            for (i, p) in sc.programs.iter().enumerate() {
                let prog: Vec<Argv> = p.iter().map(|o| subst(OPS[*o], &k, &q)).collect();
                let fut = client(i, prog, node.state.clone(), node.sched.step_counter.clone(), hist.clone());
                node.sched.add(&format!("client{i}"), Box::pin(fut), false);
            }
            let r = node.sched.run_to_completion(ch, 10_000).await;
            let trace = node.sched.trace_names();
            match r {
                Ok(()) => {
                    let mut h = hist.borrow().clone();
                    h.sort_by_key(|s| (s.client, s.seq));
                    // an observer that starts after every client has its last reply reads the final state of both
                    // keys (type, TTL, content): a torn write that no reply has shown yet must still be explained by
                    // the same total order (a stalled clock would age the TTL, so that group reads no TTL)
                    let t_end = node.sched.step_counter.load(Ordering::SeqCst) + 1;
                    for (i, o) in OBSERVER.iter().enumerate() {
                        if sc.expiry && !(o.starts_with("GET K") || o.starts_with("TYPE K")) {
                            continue;
                        }
                        if sc.stall && o.starts_with("TTL") {
                            continue;
                        }
                        let a = subst(o, &k, &q);
                        let r = node.exec(&a).await;
                        h.push(Single { client: OBSERVER_ID, seq: i, inv: t_end + i as u64, resp: t_end + i as u64, cmd: a, reply: resp::show(&r) });
                    }
                    (RunResult::Done(h), trace)
                }
                Err(e) => (RunResult::Stuck(e), trace),
            }
        })
    })
}

/// What the observer reads once all clients are done (see run_once).
const OBSERVER: &[&str] = &["TYPE K", "TTL K", "GET K", "LRANGE K 0 -1", "SMEMBERS K", "HGETALL K", "ZRANGE K 0 -1 WITHSCORES", "TYPE Q", "TTL Q", "GET Q"];
const OBSERVER_ID: usize = 99;

fn paths_of(sc: &Scenario) -> String {
    let mut tags: Vec<String> = sc
        .programs
        .iter()
        .flatten()
        .map(|o| {
            let t: Vec<&str> = OPS[*o].split(' ').collect();
            if t[0] == "X" {
                t[1].to_string()
            } else {
                t[0].to_string()
            }
        })
        .collect();
    tags.sort();
    tags.dedup();
    tags.join("+")
}

fn scenario_json(sc: &Scenario, schedule: &[u32]) -> serde_json::Value {
    json!({"shards": sc.shards, "conn": sc.conn, "stall": sc.stall, "expiry": sc.expiry, "home": if sc.home == usize::MAX { -1 } else { sc.home as i64 }, "programs": sc.programs.iter().map(|p| p.iter().map(|o| OPS[*o]).collect::<Vec<_>>()).collect::<Vec<_>>(), "schedule": schedule})
}

/// All multisets of `clients` programs of length `len` over `alphabet` (clients are symmetric).
fn scenarios(shards: usize, clients: usize, len: usize, alphabet: &[usize], conn: bool) -> Vec<Scenario> {
    let mut programs: Vec<Vec<usize>> = vec![vec![]];
    for _ in 0..len {
        programs = programs.iter().flat_map(|p| alphabet.iter().map(move |o| { let mut x = p.clone(); x.push(*o); x })).collect();
    }
    let mut out = Vec::new();
    fn rec(programs: &[Vec<usize>], clients: usize, start: usize, cur: &mut Vec<Vec<usize>>, out: &mut Vec<Scenario>, shards: usize) {
        if cur.len() == clients {
            out.push(Scenario { shards, programs: cur.clone(), conn: false, stall: false, home: usize::MAX, expiry: false });
            return;
        }
        for i in start..programs.len() {
            cur.push(programs[i].clone());
            rec(programs, clients, i, cur, out, shards);
            cur.pop();
        }
    }
    rec(&programs, clients, 0, &mut Vec::new(), &mut out, shards);
    for s in out.iter_mut() {
        s.conn = conn;
    }
    out
}

vh::use_jemalloc!();

fn main() {
    let args = cli::parse_args();
    vh::quiet_panics();
    if let Some(path) = &args.replay {
        let r = vh::report::load_replay(path);
        let programs: Vec<Vec<usize>> = r["programs"]
            .as_array()
            .unwrap()
            .iter()
            .map(|p| p.as_array().unwrap().iter().map(|o| OPS.iter().position(|x| *x == o.as_str().unwrap()).expect("op in alphabet")).collect())
            .collect();
        let sc = Scenario { shards: r["shards"].as_u64().unwrap() as usize, programs, conn: r["conn"].as_bool().unwrap_or(false), stall: r["stall"].as_bool().unwrap_or(false),
            home: r["home"].as_i64().filter(|h| *h >= 0).map(|h| h as usize).unwrap_or(usize::MAX), expiry: r["expiry"].as_bool().unwrap_or(false) };
        let schedule: Vec<u32> = r["schedule"].as_array().unwrap().iter().map(|x| x.as_u64().unwrap() as u32).collect();
        let mut ch = polex::replay_prefix(&schedule);
        let (res, trace) = run_once(&sc, &mut ch);
        println!("schedule (tasks polled): {}", trace.join(" "));
        match res {
            RunResult::Stuck(e) => {
                println!("stuck: {e}");
                println!("VIOLATION property=C02 replay={}", path.display());
                std::process::exit(1);
            }
            RunResult::Done(h) => {
                println!("history: {}", hist_key(&h));
                if if sc.expiry { expiry_with_writers(&h) } else { linearizable(&h) } {
                    println!("replay: linearizable, no violation");
                    std::process::exit(0);
                }
                println!("VIOLATION property=C02 replay={} (not linearizable)", path.display());
                std::process::exit(1);
            }
        }
    }
    let rep = Reporter::new("C02", "exploration", &args);
    let thorough = args.tier == Tier::Thorough;
    // part (b): loom exploration of the reply slot runs concurrently in its own process
    let loom_out = vh::report::verif_root().join("replays").join("C02-loom.part.json");
    let _ = std::fs::create_dir_all(loom_out.parent().unwrap());
    let _ = std::fs::remove_file(&loom_out);
    let loom_child = std::process::Command::new(vh::report::verif_root().join("loomcheck").join("run.sh"))
        .args(["--tier", args.tier.name(), "--out", loom_out.to_str().unwrap()])
        .stdout(std::process::Stdio::null())
        .spawn();
    const EVAL: usize = 13;
    let all: Vec<usize> = (0..RMW_FROM).collect();
    let rmw: Vec<usize> = [0usize, 1, 9, 10, 11, 12].into_iter().chain(RMW_FROM..BSN_FROM).chain(TTL_FROM..OPS.len()).collect();
    let no_eval: Vec<usize> = all.iter().copied().filter(|o| *o != EVAL).collect();
    let core: Vec<usize> = vec![0, 1, 3, 4, 5, 6, 7, 8, 9]; // GET SET FG FS PG PS BG BS INCR
    let lua: Vec<usize> = vec![EVAL, 0, 1, 6, 9]; // EVAL GET SET PS INCR  (EVAL builds a Lua VM per call: kept in its own small group)
    let small: Vec<usize> = vec![5, 6, 8, 9, 3, 11]; // PG PS BS INCR FG DEL
    const NONE: u32 = u32::MAX;
    // (label, shards, clients, ops per client, alphabet, preemption bound, delay bound)
    let single: Vec<usize> = vec![0, 1, 3, 4, 5, 6, 9]; // GET SET FG FS PG PS INCR
    let batch: Vec<usize> = vec![7, 8, 5, 6]; // BG BS PG PS
    let conn_ops: Vec<usize> = vec![0, 1, 2, 9, 10, 11, 12]; // generic GET SET SET INCR APPEND DEL GETSET through the handler
    let mut groups: Vec<(&str, usize, usize, usize, Vec<usize>, u32, u32)> = vec![
        ("2clients x 2ops single-key paths, 2 shards", 2, 2, 2, if thorough { no_eval.clone() } else { single.clone() }, NONE, NONE),
        ("2clients x 2ops batch+pooled paths, 2 shards", 2, 2, 2, batch.clone(), NONE, NONE),
        ("3clients x 1op, 2 shards", 2, 3, 1, all.clone(), NONE, NONE),
        ("2clients x 2ops with Lua, 2 shards", 2, 2, 2, lua.clone(), NONE, NONE),
        ("2clients x 2ops, 1 shard", 1, 2, 2, small.clone(), NONE, NONE),
        ("3clients x 2ops, 2 shards", 2, 3, 2, small[..4].to_vec(), 2, if thorough { 4 } else { 2 }),
        ("RMW breadth: 2clients x 1op over 43 conditional/read-modify-write/value+deadline commands + SET/GET/INCR/APPEND/DEL/GETSET, 2 shards", 2, 2, 1, rmw.clone(), NONE, NONE),
        ("batch order: 1 client, a big same-key SET batch and a read, 2 shards", 2, 1, 2, vec![BSN_FROM, BSN_FROM + 1, BSN_FROM + 2, 0, 3], NONE, NONE),
        ("batch order: a big same-key SET batch next to a second client on another key, 2 shards", 2, 2, 1, vec![BSN_FROM, BSN_FROM + 1, 14, 15], NONE, NONE),
        ("stall: 2clients x 2ops on the pooled/fast paths, one 2 s pause of the clock anywhere, 2 shards", 2, 2, 2, vec![5, 6, 3, 14], NONE, NONE),
        ("CONN: 2 connections x 2 pipelined commands, 2 shards", 2, 2, 2, conn_ops.clone(), NONE, NONE),
        ("CONN: 3 connections x 1 command, 1 shard", 1, 3, 1, conn_ops.clone(), NONE, NONE),
        // shard counts that are not a power of two, with the shared key homed on every shard in turn: the routes taken by the
        // fast / pooled / batched paths and by the generic path must agree for every key, not only for the key the other groups use
        ("every home: 2clients x 2ops single-key paths, 3 shards, K homed on each shard", 3, 2, 2, vec![1, 4, 5, 6, 9], NONE, NONE),
        ("every home: 2clients x 1op all paths, 5 shards, K homed on each shard", 5, 2, 1, all.clone(), NONE, NONE),
        ("every home: CONN 2 connections x 2 pipelined commands, 3 shards, K homed on each shard", 3, 2, 2, vec![0, 1, 9], NONE, NONE),
        // a key that expires while clients read it: K has a 1 s TTL, the node's clock may jump 2 s once anywhere, an eviction
        // pass (evict_expired_all_shards) runs next to 2 clients x 2 reads over every read path; once a read has seen K gone, no
        // later read may see it again
        ("expiry: every home, 2clients x 2 reads of a key whose deadline passes, eviction pass alongside, 2 shards", 2, 2, 2, if thorough { vec![0, 3, 5, OPS.iter().position(|o| *o == "X EXISTS K").unwrap(), OPS.iter().position(|o| *o == "X TTL K").unwrap()] } else { vec![3, 5, OPS.iter().position(|o| *o == "X EXISTS K").unwrap(), OPS.iter().position(|o| *o == "X TTL K").unwrap()] }, NONE, NONE),
        // the same with writers: clients re-create K (plain SET on the generic, fast and pooled paths) while its deadline passes and
        // the eviction pass runs; an acknowledged SET is there for every later read
        ("expiry: every home, 2clients x 2ops re-creating and reading a key whose deadline passes, eviction pass alongside, 2 shards", 2, 2, 2, if thorough { vec![1, 4, 6, 3, 0, OPS.iter().position(|o| *o == "X TTL K").unwrap()] } else { vec![1, 4, 6, 3] }, NONE, NONE),
    ];
    if thorough {
        groups.push(("3clients x 1op, 1 shard", 1, 3, 1, all.clone(), NONE, NONE));
        groups.push(("RMW breadth: 3clients x 1op, 1 shard", 1, 3, 1, rmw.clone(), 2, 3));
        groups.push(("2clients x 3ops, 2 shards", 2, 2, 3, small.clone(), 3, 5));
        groups.push(("3clients x 2ops with Lua, 1 shard", 1, 3, 2, vec![EVAL, 6, 9], 2, 3));
    }
    let _ = &core;
    let per_group = Duration::from_secs(if thorough { 240 } else { 25 });
    let mut group_reports = Vec::new();
    let (mut total_exec, mut total_scen) = (0u64, 0u64);
    let mut total_distinct = 0u64;
    let mut exhaustive = true;
    let mut samples = Vec::new();
    for (label, shards, clients, len, alpha, bound, delay_cap) in groups {
        let mut scs = scenarios(shards, clients, len, &alpha, label.contains("CONN"));
        if label.starts_with("stall") {
            for s in scs.iter_mut() {
                s.stall = true;
            }
        }
        if label.starts_with("expiry") {
            for s in scs.iter_mut() {
                s.expiry = true;
            }
        }
        if label.starts_with("every home") || label.starts_with("expiry") {
            scs = (0..shards).flat_map(|h| scs.iter().cloned().map(move |mut s| { s.home = h; s })).collect();
        }
        let deadline = Instant::now() + per_group;
        // iterative delay bounding: explore everything with <= d non-default picks at blocked points,
        // d = 2,3,4,... up to the group's cap, until the space is exhausted or the time slice ends
        let ladder: Vec<u32> = if thorough {
            let mut l: Vec<u32> = (3..=10).filter(|d| *d <= delay_cap || delay_cap == NONE).collect();
            l.push(if delay_cap == NONE { 64 } else { delay_cap });
            l.dedup();
            l
        } else {
            vec![if delay_cap == NONE { 2 } else { delay_cap.min(2) }]
        };
        let mut completed_bound: Option<u32> = None;
        let mut space_exhausted = false;
        let (mut execs, mut hists, mut outcomes, mut max_pre, mut max_delay) = (0u64, 0u64, 0u64, 0u32, 0u32);
        let mut trunc = false;
        for d in ladder {
            let results = par::par_map(&scs, |_, sc| {
                let mut cfg = DfsConfig::default();
                cfg.budgets[0] = bound;
                cfg.budgets[1] = d;
                cfg.deadline = Some(deadline);
                let mut memo: HashMap<String, bool> = HashMap::new();
                let mut distinct_reply_vectors: std::collections::BTreeSet<String> = Default::default();
                let stats = polex::explore(&cfg, |ch| {
                    let (res, _trace) = run_once(sc, ch);
                    match res {
                        RunResult::Stuck(e) => {
                            let kind = if e.starts_with("deadlock") { "lost-reply" } else if e.contains("panicked") { "panic" } else { "livelock" };
                            rep.violation(format!("{kind} paths={}", paths_of(sc)), format!("{label}: {e}"), scenario_json(sc, &ch.schedule()));
                        }
                        RunResult::Done(h) => {
                            let key = hist_key(&h);
                            distinct_reply_vectors.insert(h.iter().map(|s| s.reply.clone()).collect::<Vec<_>>().join("|"));
                            let ok = *memo.entry(key.clone()).or_insert_with(|| if sc.expiry { expiry_with_writers(&h) } else { linearizable(&h) });
                            if !ok {
                                rep.violation(
                                    format!("non-linearizable paths={}", paths_of(sc)),
                                    format!("{label}: observed history has no linearization: {key}"),
                                    scenario_json(sc, &ch.schedule()),
                                );
                            }
                        }
                    }
                    true
                });
                (stats, memo.len() as u64, distinct_reply_vectors.len() as u64)
            });
            let t = results.iter().any(|r| r.0.truncated);
            execs += results.iter().map(|r| r.0.executions).sum::<u64>();
            if t {
                trunc = true;
                break;
            }
            hists = results.iter().map(|r| r.1).sum();
            outcomes = results.iter().map(|r| r.2).sum();
            max_pre = results.iter().map(|r| r.0.max_used[0]).max().unwrap_or(0);
            max_delay = results.iter().map(|r| r.0.max_used[1]).max().unwrap_or(0);
            completed_bound = Some(d);
            if max_delay < d {
                space_exhausted = true; // no execution needed the whole budget: nothing lies beyond it
                break;
            }
        }
        if !space_exhausted {
            exhaustive = false;
        }
        total_exec += execs;
        total_scen += scs.len() as u64;
        total_distinct += hists;
        eprintln!(
            "{label}: scenarios={} schedules={} distinct_histories={} distinct_reply_vectors={} preemption_bound={} delay_bound_completed={:?} space_exhausted={} max_delays_used={} time_cap_hit={} ({:.1}s)",
            scs.len(), execs, hists, outcomes, if bound == NONE { "none".to_string() } else { bound.to_string() }, completed_bound, space_exhausted, max_delay, trunc, rep.elapsed_s()
        );
        if let Some(sc) = scs.get(scs.len() / 2) {
            samples.push(scenario_json(sc, &[]));
        }
        group_reports.push(json!({"group": label, "scenarios": scs.len(), "schedules_explored_all_rounds": execs, "distinct_histories_checked": hists,
            "distinct_reply_vectors": outcomes, "preemption_bound": if bound == NONE { json!("unbounded") } else { json!(bound) },
            "delay_bound_completed": completed_bound, "whole_schedule_space_exhausted": space_exhausted,
            "max_preemptions_used": max_pre, "max_delays_used": max_delay, "time_cap_hit_in_a_later_round": trunc}));
    }
    let loom_doc: serde_json::Value = match loom_child {
        Err(e) => rep.machinery_failure(&format!("cannot start loomcheck: {e}")),
        Ok(mut c) => {
            let st = c.wait().expect("wait loomcheck");
            match st.code() {
                Some(0) | Some(1) => {}
                other => rep.machinery_failure(&format!("loomcheck exited with {other:?}")),
            }
            let doc: serde_json::Value = std::fs::read_to_string(&loom_out)
                .ok()
                .and_then(|t| serde_json::from_str(&t).ok())
                .unwrap_or_else(|| rep.machinery_failure("loomcheck wrote no result"));
            if doc["ok"] != json!(true) {
                let failing: Vec<String> = doc["scenarios"].as_array().map(|a| a.iter().filter(|s| s["ok"] != json!(true)).map(|s| format!("{}: {}", s["scenario"], s["failure"])).collect()).unwrap_or_default();
                rep.violation("loom reply-slot protocol", format!("loom found a failing thread interleaving of response_pool.rs: {}", failing.join("; ")), doc.clone());
            }
            doc
        }
    };
    total_exec += loom_doc["executions"].as_u64().unwrap_or(0);
    let coverage = json!({
        "loom_reply_slot": loom_doc,
        "evaluations": total_exec,
        "distinct_nontrivial": total_distinct,
        "rule": "for every scenario (multiset of client programs over the op alphabet, all entry paths: generic execute, fast, pooled, batch pipeline, Lua) every poll-level schedule of the client tasks and the real shard actors is executed (stateless DFS, preemption bound as listed); evaluations = complete schedules; a case is counted in distinct_nontrivial once per distinct observed history (replies + real-time precedence), each of which is checked by brute-force linearizability against the sequential CommandExecutor",
        "scenarios": total_scen,
        "groups": group_reports,
        "alphabet": OPS,
        "samples": samples,
        "exhaustive": exhaustive,
    });
    rep.finish(
        coverage,
        vec![
            "one Future::poll is atomic (single-threaded runtime); interleavings inside a poll under a multi-threaded runtime concern only the reply slot, which the loom check (C02 part b, ./check C02LOOM) covers".into(),
            "tokio mpsc/oneshot are trusted linearizable FIFO channels".into(),
            "sequential specification = the real CommandExecutor run sequentially (its conformance to Redis is C01)".into(),
            "batch pipeline calls are checked as independent single-key commands sharing one invocation/response window, as the property claims single-key atomicity only".into(),
        ],
    );
}
