//! C01 — commands behave as Redis. SEQX over the real CommandExecutor against the independent
//! reference model (vh::model), per command family, every reply and the visible keyspace
//! compared after every step, clock advances in the alphabet.
use redis_sim::redis::{CommandExecutor, RespValue};
use redis_sim::simulator::VirtualTime;
use serde_json::json;
use std::collections::BTreeSet;
use std::sync::Mutex;
use std::time::{Duration, Instant};
use vh::dump;
use vh::model::{self, Expect, Model};
use vh::resp::{self, Argv};
use vh::seqx::Bfs;
use vh::{cli, Reporter, Tier};

/// virtual "now" at the start (ms). The executor's epoch is 0, so absolute unix ms == virtual ms.
const T0: u64 = 10_000;

fn prod(template: &str, doms: &[(&str, &[&str])]) -> Vec<String> {
    let mut acc = vec![template.to_string()];
    for (name, vals) in doms {
        let pat = format!("{{{name}}}");
        let mut next = Vec::new();
        for a in &acc {
            if a.contains(&pat) {
                for v in *vals {
                    next.push(a.replace(&pat, v));
                }
            } else {
                next.push(a.clone());
            }
        }
        acc = next;
    }
    acc
}

fn fam(lines: &[&str], prods: Vec<Vec<String>>) -> Vec<String> {
    let mut v: Vec<String> = lines.iter().map(|s| s.to_string()).collect();
    for p in prods {
        v.extend(p);
    }
    let mut seen = BTreeSet::new();
    v.retain(|x| seen.insert(x.clone()));
    v
}

fn families(tier: Tier) -> Vec<(&'static str, Vec<String>, usize)> {
    let th = tier == Tier::Thorough;
    let d = |q: usize, t: usize| if th { t } else { q };
    let mut out = Vec::new();

    out.push((
        "strings",
        fam(
            &[
                "GET k1", "GETSET k1 b", "GETDEL k1", "APPEND k1 x", "APPEND k1 \"\"", "STRLEN k1",
                "MGET k1 k2", "MGET k1 k1", "MSET k1 a k2 b", "MSETNX k1 a k2 b", "MSETNX k2 c", "SETNX k1 z",
                "INCR k1", "DECR k1", "DEL k1", "DEL k2", "PEXPIRE k1 5000", "PTTL k1",
                "SET k1 +1", "SET k1 01", "SET k1 \\x201", "SET k1 0x10", "SET k1 1e2",
            ],
            vec![
                prod("SET k1 {v}", &[("v", &["a", "10", "\"\"", "-1", "9223372036854775807", "-9223372036854775808", "1.5", "\\xff\\x00", "abcdefghijklmnopqrstuvwx"])]),
                prod("GETRANGE k1 {r}", &[("r", &["0 -1", "1 2", "-3 -2", "-1 -3", "2 1", "0 100", "-100 100", "5 10", "0 0", "-1 -1", "9223372036854775807 -9223372036854775808", "-9223372036854775808 9223372036854775807"])]),
                prod("SETRANGE k1 {r}", &[("r", &["0 \"\"", "0 Z", "2 Z", "30 Z", "-1 Z", "1 \"\""])]),
                prod("INCRBY k1 {i}", &[("i", &["5", "-9223372036854775808", "9223372036854775807", "x", "1.5"])]),
                prod("DECRBY k1 {i}", &[("i", &["1", "-9223372036854775808", "9223372036854775807"])]),
                prod("SETBIT k1 {o} {b}", &[("o", &["0", "7", "8", "100", "-1", "x", "4294967296"]), ("b", &["0", "1", "2", "x"])]),
                prod("GETBIT k1 {o}", &[("o", &["0", "7", "8", "100", "-1", "x", "4294967296"])]),
                prod("INCRBYFLOAT k1 {f}", &[("f", &["1.5", "-1.5", "inf", "x", "1e308", "0.25", "nan"])]),
            ],
        ),
        d(4, 7),
    ));

    let set_opts: Vec<String> = {
        let mut v = Vec::new();
        for cond in ["", " NX", " XX"] {
            for get in ["", " GET"] {
                for exp in ["", " EX 100", " PX 1500", " EXAT 5", " EXAT 20", " PXAT 10000", " PXAT 10001", " KEEPTTL"] {
                    v.push(format!("SET k1 v{cond}{get}{exp}"));
                }
            }
        }
        v
    };
    out.push((
        "expiry-set",
        fam(
            &[
                "SET k1 w", "GET k1", "PTTL k1", "TTL k1", "EXISTS k1", "PERSIST k1", "PEXPIRE k1 3000", "DEL k1",
                "SET k1 v NX XX", "SET k1 v EX 0", "SET k1 v EX -1", "SET k1 v EX 9223372036854775807", "SET k1 v EX 9223372036854775",
                "SET k1 v PX 0", "SET k1 v PX 9223372036854775807", "SET k1 v KEEPTTL EX 1", "SET k1 v EX 1 PX 1", "SET k1 v EXAT 0",
                "SET k1 v PXAT -1", "SET k1 v EX x", "SET k1 v EX", "SET k1 v GET GET", "SET k1 v get ex 100", "RPUSH k1 a",
                "SETEX k1 100 v", "SETEX k1 0 v", "SETEX k1 -1 v", "SETEX k1 9223372036854775807 v", "PSETEX k1 1500 v", "PSETEX k1 0 v",
                "GETEX k1", "GETEX k1 EX 100", "GETEX k1 PX 1", "GETEX k1 PERSIST", "GETEX k1 EXAT 5", "GETEX k1 PXAT 20000", "GETEX k1 EX 0",
                "GETEX k1 EX 1 PERSIST", "GETEX k1 PX 9223372036854775807",
                "ADVANCE 1", "ADVANCE 999", "ADVANCE 1000", "ADVANCE 100000",
            ],
            vec![set_opts],
        ),
        d(4, 6),
    ));

    out.push((
        "expiry-cmds",
        fam(
            &[
                "SET k1 v", "SET k1 v PX 5000", "RPUSH k1 a", "GET k1", "EXISTS k1", "TYPE k1", "DEL k1",
                "TTL k1", "PTTL k1", "EXPIRETIME k1", "PEXPIRETIME k1", "PERSIST k1",
                "EXPIRE k1 100 NX XX", "EXPIRE k1 100 GT LT", "EXPIRE k1 100 NX GT", "EXPIRE k1 100 XX GT", "EXPIRE k1 100 XX LT", "EXPIRE k1 x", "EXPIRE k1 100 ZZ",
                "EXPIRE k1 9223372036854775", "EXPIRE k1 -9223372036854775807", "PEXPIRE k1 9223372036854775807",
                "EXPIREAT k1 5", "EXPIREAT k1 10", "EXPIREAT k1 20", "EXPIREAT k1 9223372036854775807", "PEXPIREAT k1 9999", "PEXPIREAT k1 10000", "PEXPIREAT k1 10001", "PEXPIREAT k1 20500",
                "PEXPIREAT k1 -1",
                "APPEND k1 x", "INCR k1", "GETSET k1 b", "MSET k1 m", "RENAME k1 k2", "RENAME k2 k1", "TTL k2", "SETRANGE k1 1 Z", "LPUSH k1 b", "LPOP k1",
                "ADVANCE 1", "ADVANCE 499", "ADVANCE 500", "ADVANCE 1000", "ADVANCE 100000",
            ],
            vec![
                prod("EXPIRE k1 {n}{o}", &[("n", &["-1", "0", "1", "100"]), ("o", &["", " NX", " XX", " GT", " LT"])]),
                prod("PEXPIRE k1 {n}{o}", &[("n", &["1", "1500", "100000"]), ("o", &["", " GT", " LT"])]),
            ],
        ),
        d(4, 7),
    ));

    out.push((
        "lists",
        fam(
            &[
                "LPUSH k1 a", "LPUSH k1 a b", "RPUSH k1 b", "RPUSH k1 c d", "RPUSH k2 x", "LPOP k1", "RPOP k1", "LLEN k1", "LLEN k2",
                "RPOPLPUSH k1 k2", "RPOPLPUSH k2 k1", "RPOPLPUSH k1 k1", "LMOVE k1 k2 LEFT LEFT", "LMOVE k1 k2 LEFT RIGHT", "LMOVE k1 k2 RIGHT LEFT",
                "LMOVE k1 k2 RIGHT RIGHT", "LMOVE k1 k1 LEFT RIGHT", "LMOVE k1 k1 RIGHT LEFT", "LMOVE k1 k1 LEFT LEFT", "LMOVE k1 k1 RIGHT RIGHT", "LMOVE k1 k2 UP LEFT", "LMOVE k1 k2 left right",
                "DEL k1", "EXPIRE k1 100", "TTL k1", "TTL k2", "SET k2 s", "LRANGE k2 0 -1",
            ],
            vec![
                prod("LINDEX k1 {i}", &[("i", &["0", "-1", "2", "-3", "4611686018427387904", "-4611686018427387904", "x"])]),
                prod("LRANGE k1 {r}", &[("r", &["0 -1", "1 1", "-2 -1", "2 1", "-100 100", "0 0", "5 10", "-1 -2", "-9223372036854775808 9223372036854775807", "1 -1"])]),
                prod("LSET k1 {i} z", &[("i", &["0", "-1", "5", "-5", "1"])]),
                prod("LTRIM k1 {r}", &[("r", &["0 -1", "1 -1", "0 0", "1 0", "-1 -1", "5 10", "-100 0", "0 -2", "-2 -1"])]),
            ],
        ),
        d(5, 7),
    ));

    out.push((
        "sets",
        fam(
            &[
                "SADD k1 a", "SADD k1 a b", "SADD k1 b c", "SADD k1 \"\"", "SADD k1 \\xff", "SADD k1 \\xfe", "SADD k1 a a", "SREM k1 a", "SREM k1 a b", "SREM k1 z", "SREM k1 a a",
                "SMEMBERS k1", "SISMEMBER k1 a", "SISMEMBER k1 z", "SISMEMBER k1 \\xff", "SCARD k1", "SPOP k1", "SPOP k1 0", "SPOP k1 1", "SPOP k1 2", "SPOP k1 5",
                "SPOP k1 -1", "SPOP k1 x", "EXPIRE k1 100", "TTL k1", "DEL k1", "TYPE k1", "SET k1 s",
            ],
            vec![],
        ),
        d(6, 9),
    ));

    out.push((
        "hashes",
        fam(
            &[
                "HSET k1 f a", "HSET k1 f b", "HSET k1 g 10", "HSET k1 f a g b", "HSET k1 f 9223372036854775807", "HSET k1 f a f b", "HSET k1 \"\" \"\"", "HSET k1 h +1",
                "HGET k1 f", "HGET k1 z", "HDEL k1 f", "HDEL k1 f g", "HDEL k1 z", "HDEL k1 f f", "HGETALL k1", "HKEYS k1", "HVALS k1", "HLEN k1",
                "HEXISTS k1 f", "HEXISTS k1 z", "HINCRBY k1 f 1", "HINCRBY k1 g 5", "HINCRBY k1 f -1", "HINCRBY k1 f 9223372036854775807",
                "HINCRBY k1 g -9223372036854775808", "HINCRBY k1 h x", "HINCRBY k1 h 1", "EXPIRE k1 100", "TTL k1", "DEL k1", "TYPE k1", "SET k1 s",
                "HSCANALL k1", "HSCANALL k1 1",
            ],
            vec![],
        ),
        d(5, 8),
    ));

    let zadd: Vec<String> = {
        let mut v = prod(
            "ZADD k1{f} {p}",
            &[
                ("f", &["", " NX", " XX", " GT", " LT", " CH", " XX CH", " GT CH", " LT CH", " NX XX", " GT LT", " NX GT", " XX GT"]),
                ("p", &["1 a", "2 a", "0 b", "1 b"]),
            ],
        );
        v.extend(prod("ZADD k1 {p}", &[("p", &["-inf c", "inf c", "1.5 a 0 b", "1 a 1 b 1 c", "nan a", "1e-20 d", "2e-20 e", "1 a 2 a", "x a", "1 \\xff", "1 \\xfe", "3 \"\"", "1", "1e21 g"])]));
        v
    };
    out.push((
        "zsets",
        fam(
            &[
                "ZREM k1 a", "ZREM k1 a b", "ZREM k1 z", "ZCARD k1", "ZSCORE k1 a", "ZSCORE k1 z", "ZSCORE k1 g", "ZSCORE k1 d", "ZRANK k1 a", "ZRANK k1 b", "ZRANK k1 c", "ZRANK k1 z",
                "ZRANGE k1 0 -1", "ZRANGE k1 0 -1 WITHSCORES", "ZRANGE k1 1 1", "ZRANGE k1 -2 -1", "ZRANGE k1 2 1", "ZRANGE k1 0 0 WITHSCORES", "ZRANGE k1 0 -1 withscores",
                "ZRANGE k1 0 -1 BOGUS", "ZREVRANGE k1 0 -1 WITHSCORES", "ZREVRANGE k1 0 0", "ZREVRANGE k1 -100 100",
                "ZCOUNT k1 -inf +inf", "ZCOUNT k1 1 2", "ZCOUNT k1 (1 2", "ZCOUNT k1 1 (2", "ZCOUNT k1 x 1", "ZCOUNT k1 2 1", "ZCOUNT k1 (1 (1",
                "ZRANGEBYSCORE k1 -inf +inf", "ZRANGEBYSCORE k1 1 2 WITHSCORES", "ZRANGEBYSCORE k1 (1 +inf", "ZRANGEBYSCORE k1 -inf +inf LIMIT 0 1",
                "ZRANGEBYSCORE k1 -inf +inf LIMIT 1 -1", "ZRANGEBYSCORE k1 -inf +inf LIMIT -1 1", "ZRANGEBYSCORE k1 0 x", "ZRANGEBYSCORE k1 -inf +inf LIMIT 1 0",
                "ZRANGEBYSCORE k1 -inf +inf WITHSCORES LIMIT 1 1", "ZRANGEBYSCORE k1 0 0",
                "DEL k1", "EXPIRE k1 100", "TTL k1", "TYPE k1", "EXISTS k1", "SET k1 s", "ZSCANALL k1", "ZSCANALL k1 1",
            ],
            vec![
                zadd,
                // restrictive lower bound combined with a LIMIT offset (the offset counts matching members only)
                prod("ZRANGEBYSCORE k1 {lo} {hi} LIMIT {off} {cnt}", &[("lo", &["-inf", "1", "(0"]), ("hi", &["+inf", "(2"]), ("off", &["0", "1"]), ("cnt", &["1", "-1"])]),
            ],
        ),
        d(4, 6),
    ));

    let creators = ["SET k1 a", "RPUSH k1 a", "SADD k1 a", "HSET k1 f a", "ZADD k1 1 a", "SET k1 a PX 5000", "DEL k1"];
    out.push((
        "cross-type",
        fam(
            &creators,
            vec![vec![
                "GET k1", "SET k1 v GET", "SET k1 v NX", "SET k1 v XX", "SET k1 v KEEPTTL", "SETNX k1 v", "GETSET k1 v", "GETDEL k1", "GETEX k1 PERSIST", "APPEND k1 x", "STRLEN k1",
                "GETRANGE k1 0 -1", "SETRANGE k1 0 Z", "MGET k1", "MSET k1 m", "MSETNX k1 m", "INCR k1", "INCRBY k1 2", "DECR k1", "INCRBYFLOAT k1 1.5",
                "LPUSH k1 x", "RPUSH k1 x", "LPOP k1", "RPOP k1", "LLEN k1", "LINDEX k1 0", "LRANGE k1 0 -1", "LSET k1 0 z", "LTRIM k1 0 0", "RPOPLPUSH k1 k2", "RPOPLPUSH k2 k1",
                "LMOVE k1 k2 LEFT LEFT", "RPUSH k2 y", "SADD k1 x", "SREM k1 a", "SMEMBERS k1", "SISMEMBER k1 a", "SCARD k1", "SPOP k1", "SPOP k1 1",
                "HSET k1 f x", "HGET k1 f", "HDEL k1 f", "HGETALL k1", "HKEYS k1", "HVALS k1", "HLEN k1", "HEXISTS k1 f", "HINCRBY k1 n 1",
                "ZADD k1 2 x", "ZADD k1 XX 2 x", "ZREM k1 a", "ZRANGE k1 0 -1", "ZREVRANGE k1 0 -1", "ZSCORE k1 a", "ZRANK k1 a", "ZCARD k1", "ZCOUNT k1 -inf +inf", "ZRANGEBYSCORE k1 -inf +inf",
                "TYPE k1", "EXISTS k1", "EXPIRE k1 100", "PERSIST k1", "PTTL k1", "RENAME k1 k2", "RENAMENX k1 k2",
                "HSCANALL k1", "ZSCANALL k1", "SUBSTR k1 0 -1", "SUBSTR k1 1 2",
            ]
            .iter()
            .map(|s| s.to_string())
            .collect()],
        ),
        d(4, 6),
    ));

    out.push((
        "keyspace",
        fam(
            &[
                "SET k1 a", "RPUSH k2 a", "SADD k3 a", "SET k2 b", "HSET k1 f v", "ZADD k3 1 m", "DEL k1", "DEL k1 k2", "DEL k1 k1", "DEL k3 k2 k1", "UNLINK k1",
                "EXISTS k1", "EXISTS k1 k1 k2", "EXISTS k3", "TYPE k1", "TYPE k2", "TYPE k3", "KEYS *", "KEYS k?", "KEYS k[12]", "KEYS k1", "KEYS [", "KEYS k[^1]", "KEYS k\\x5c1",
                "KEYS k[1-2]", "KEYS *1", "KEYS k**",
                "SCANALL", "SCANALL 1", "DBSIZE", "RENAME k1 k2", "RENAME k2 k1", "RENAME k1 k1", "RENAME k3 k1", "RENAMENX k1 k2", "RENAMENX k1 k1", "RENAMENX k2 k3",
                "FLUSHDB", "FLUSHALL", "RANDOMKEY", "EXPIRE k1 100", "PEXPIRE k2 1500", "ADVANCE 1500", "TTL k1", "PTTL k2", "SET \\xff a", "GET \\xfe", "SET \\xfe b", "GET \\xff",
                "MSET k1 x k1 y", "MGET k1 k3 k2",
            ],
            vec![],
        ),
        d(5, 7),
    ));
    // The same two expiry families on an executor configured the way a production shard configures it: a start epoch
    // that is not on a whole second (set_simulation_start_epoch(ms / 1000) then set_simulation_start_epoch_ms(ms)), so
    // that unix time = epoch + virtual time and second- and millisecond-based deadlines take different routes.
    // Absolute timestamps of the alphabet are moved by the epoch.
    for (src, name) in [("expiry-set", "expiry-set@epoch"), ("expiry-cmds", "expiry-cmds@epoch")] {
        let (_, ops, _) = out.iter().find(|f| f.0 == src).cloned().expect("family exists");
        let shifted: Vec<String> = ops.iter().map(|o| shift_absolute(o)).collect();
        out.push((name, shifted, d(3, 5)));
    }
    out
}

/// start epoch of the "@epoch" families (ms; deliberately not a multiple of 1000)
const EPOCH_MS: u64 = 1_700_000_000_700;
static ACTIVE_EPOCH_MS: std::sync::atomic::AtomicU64 = std::sync::atomic::AtomicU64::new(0);

/// Move the absolute timestamps of one alphabet line by the epoch: seconds after EXAT / EXPIREAT, milliseconds after
/// PXAT / PEXPIREAT (plain non-negative numerals below 10^12 only: the overflow and invalid probes stay as they are).
fn shift_absolute(line: &str) -> String {
    let toks: Vec<&str> = line.split(' ').collect();
    let mut out: Vec<String> = Vec::new();
    for (i, t) in toks.iter().enumerate() {
        let prev = if i > 0 { toks[i - 1].to_ascii_uppercase() } else { String::new() };
        let prev2 = if i > 1 { toks[i - 2].to_ascii_uppercase() } else { String::new() };
        let unit = if prev == "EXAT" || prev2 == "EXPIREAT" { Some(1000u64) } else if prev == "PXAT" || prev2 == "PEXPIREAT" { Some(1) } else { None };
        match (unit, t.parse::<u64>()) {
            (Some(u), Ok(n)) if n > 0 && n < 1_000_000_000_000 => out.push((n + EPOCH_MS / u).to_string()),
            _ => out.push(t.to_string()),
        }
    }
    out.join(" ")
}

struct Sys {
    /// unix ms = epoch + the executor's virtual ms (the model lives in unix ms)
    epoch: u64,
    ex: CommandExecutor,
    model: Model,
}

impl Sys {
    /// State identity for deduplication: the model state (clock + visible keyspace) AND the executor's own
    /// bookkeeping (raw key table, deadline table). Two histories are merged only when both agree, so a
    /// leftover the commands do not show yet (e.g. a deadline surviving its key) keeps its own future.
    fn fingerprint(&self) -> String {
        format!("{} |impl {:?}", self.model.fingerprint(), self.ex.verif_hidden_state())
    }

    fn new() -> Self {
        let epoch = ACTIVE_EPOCH_MS.load(std::sync::atomic::Ordering::Relaxed);
        let mut ex = CommandExecutor::new();
        if epoch > 0 {
            ex.set_simulation_start_epoch((epoch / 1000) as i64);
            ex.set_simulation_start_epoch_ms(epoch as i64);
        }
        ex.set_time(VirtualTime::from_millis(T0));
        Sys {
            ex,
            epoch,
            model: Model::new(epoch + T0),
        }
    }

    fn exec_impl(&mut self, a: &Argv) -> RespValue {
        match resp::parse(a) {
            Ok(cmd) => {
                self.ex.set_time(VirtualTime::from_millis(self.model.now - self.epoch));
                match std::panic::catch_unwind(std::panic::AssertUnwindSafe(|| self.ex.execute(&cmd))) {
                    Ok(r) => r,
                    Err(p) => RespValue::Error(format!("PANIC {}", vh::panic_text(&p)).into()),
                }
            }
            Err(e) => RespValue::Error(format!("ERR {e}").into()),
        }
    }

    fn scan_all(&mut self, count: Option<&str>) -> Result<Vec<Vec<u8>>, String> {
        let mut cursor = b"0".to_vec();
        let mut keys = Vec::new();
        for _ in 0..64 {
            let mut a: Argv = vec![b"SCAN".to_vec(), cursor.clone()];
            if let Some(c) = count {
                a.push(b"COUNT".to_vec());
                a.push(c.as_bytes().to_vec());
            }
            match self.exec_impl(&a) {
                RespValue::Array(Some(parts)) if parts.len() == 2 => {
                    let next = match &parts[0] {
                        RespValue::BulkString(Some(b)) => b.clone(),
                        other => return Err(format!("SCAN cursor not a bulk string: {}", resp::show(other))),
                    };
                    match &parts[1] {
                        RespValue::Array(Some(ks)) => {
                            for k in ks {
                                if let RespValue::BulkString(Some(b)) = k {
                                    keys.push(b.clone());
                                }
                            }
                        }
                        other => return Err(format!("SCAN keys not an array: {}", resp::show(other))),
                    }
                    if next == b"0" {
                        return Ok(keys);
                    }
                    cursor = next;
                }
                other => return Err(format!("SCAN replied {}", resp::show(&other))),
            }
        }
        Err("SCAN iteration did not return cursor 0 within 64 calls".into())
    }

    /// Apply one op to implementation and model; returns (reply mismatch, shown reply).
    fn apply(&mut self, op: &Argv) -> (Option<(String, String)>, String) {
        let name = String::from_utf8_lossy(&op[0]).to_string();
        if name == "ADVANCE" {
            let ms: u64 = String::from_utf8_lossy(&op[1]).parse().unwrap();
            self.model.advance(ms);
            self.ex.set_time(VirtualTime::from_millis(self.model.now - self.epoch));
            return (None, "advance".into());
        }
        if name == "SCANALL" {
            let count = op.get(1).map(|c| String::from_utf8_lossy(c).to_string());
            return match self.scan_all(count.as_deref()) {
                Err(e) => (Some(("scan-iteration".into(), e)), "scan-error".into()),
                Ok(keys) => {
                    let got: BTreeSet<Vec<u8>> = keys.iter().cloned().collect();
                    let want: BTreeSet<Vec<u8>> = self.model.keys.keys().cloned().collect();
                    let shown = format!("{:?}", keys.iter().map(|k| resp::esc(k)).collect::<Vec<_>>());
                    if got != want {
                        (Some(("scan-keys".into(), format!("full SCAN iteration returned {shown}, keys are {:?}", want.iter().map(|k| resp::esc(k)).collect::<Vec<_>>()))), shown)
                    } else {
                        (None, shown)
                    }
                }
            };
        }
        if name == "HSCANALL" || name == "ZSCANALL" {
            // full cursor iteration of HSCAN / ZSCAN (optionally with COUNT): the collected pairs are the hash's
            // fields and values / the sorted set's members and scores; a wrong type is a WRONGTYPE error
            let cmd = if name == "HSCANALL" { "HSCAN" } else { "ZSCAN" };
            let count = op.get(2).map(|c| String::from_utf8_lossy(c).to_string());
            let want: Result<BTreeSet<(Vec<u8>, String)>, ()> = match self.model.keys.get(&op[1]).map(|e| &e.val) {
                None => Ok(BTreeSet::new()),
                Some(model::MVal::Hash(h)) if cmd == "HSCAN" => Ok(h.iter().map(|(f, v)| (f.clone(), resp::esc(v))).collect()),
                Some(model::MVal::ZSet(z)) if cmd == "ZSCAN" => Ok(z.iter().map(|(sc, m)| (m.clone(), model::fmt_score(*sc))).collect()),
                Some(_) => Err(()),
            };
            let mut cursor = b"0".to_vec();
            let mut got: Vec<(Vec<u8>, String)> = Vec::new();
            for round in 0..64 {
                let mut a: Argv = vec![cmd.as_bytes().to_vec(), op[1].clone(), cursor.clone()];
                if let Some(c) = &count {
                    a.push(b"COUNT".to_vec());
                    a.push(c.as_bytes().to_vec());
                }
                match self.exec_impl(&a) {
                    RespValue::Error(e) if round == 0 && want.is_err() && e.starts_with("WRONGTYPE") => return (None, "wrongtype".into()),
                    RespValue::Array(Some(parts)) if parts.len() == 2 && want.is_ok() => {
                        let next = match &parts[0] {
                            RespValue::BulkString(Some(b)) => b.clone(),
                            other => return (Some(("scan-iteration".into(), format!("{cmd} cursor is not a bulk string: {}", resp::show(other)))), "scan-error".into()),
                        };
                        let items: Vec<Vec<u8>> = match &parts[1] {
                            RespValue::Array(Some(xs)) => xs.iter().filter_map(|x| if let RespValue::BulkString(Some(b)) = x { Some(b.clone()) } else { None }).collect(),
                            other => return (Some(("scan-iteration".into(), format!("{cmd} items are not an array: {}", resp::show(other)))), "scan-error".into()),
                        };
                        if items.len() % 2 != 0 {
                            return (Some(("scan-iteration".into(), format!("{cmd} returned an odd number of items: {}", resp::show(&parts[1])))), "scan-error".into());
                        }
                        for c in items.chunks(2) {
                            let second = if cmd == "ZSCAN" { model::string2d(&c[1]).map(model::fmt_score).unwrap_or_else(|| resp::esc(&c[1])) } else { resp::esc(&c[1]) };
                            got.push((c[0].clone(), second));
                        }
                        if next == b"0" {
                            let want = want.unwrap();
                            let shown = format!("{:?}", got.iter().map(|(a, b)| format!("{}={}", resp::esc(a), b)).collect::<Vec<_>>());
                            let got_set: BTreeSet<(Vec<u8>, String)> = got.iter().cloned().collect();
                            return if got_set != want {
                                (Some(("scan-items".into(), format!("full {cmd} iteration returned {shown}, content is {:?}", want.iter().map(|(a, b)| format!("{}={}", resp::esc(a), b)).collect::<Vec<_>>()))), shown)
                            } else {
                                (None, shown)
                            };
                        }
                        cursor = next;
                    }
                    other => {
                        let exp = if want.is_err() { "a WRONGTYPE error" } else { "[cursor, items]" };
                        return (Some((format!("exp={} got={}", if want.is_err() { "-WRONGTYPE" } else { "array" }, resp::kind(&other)), format!("{cmd} replied {} where {exp} was expected", resp::show(&other)))), resp::show(&other));
                    }
                }
            }
            return (Some(("scan-iteration".into(), format!("{cmd} iteration did not return cursor 0 within 64 calls"))), "scan-error".into());
        }
        let got = self.exec_impl(op);
        let exp = self.model.exec(op, &got);
        if matches!(exp, Expect::Unsupported) {
            panic!("model does not support {}", resp::show_argv(op));
        }
        let mm = model::mismatch(&exp, &got).map(|t| (format!("exp={} got={}", model::expect_kind(&exp), resp::kind(&got)), t));
        (mm, resp::show(&got))
    }

    fn impl_keyspace(&mut self) -> dump::Keyspace {
        dump::dump_via(|a| self.exec_impl(a))
    }
}

const KEYWORDS: &[&str] = &[
    "NX", "XX", "GT", "LT", "CH", "EX", "PX", "EXAT", "PXAT", "KEEPTTL", "GET", "WITHSCORES", "LIMIT", "PERSIST", "LEFT", "RIGHT", "COUNT", "MATCH",
];

fn arg_class(b: &[u8]) -> String {
    let u = String::from_utf8_lossy(b).to_ascii_uppercase();
    if KEYWORDS.contains(&u.as_str()) {
        return u;
    }
    if let Some(i) = model::string2ll(b) {
        return (if i == i64::MAX {
            "max"
        } else if i == i64::MIN {
            "min"
        } else if i.unsigned_abs() >= 1 << 40 {
            if i < 0 {
                "-huge"
            } else {
                "huge"
            }
        } else if i < 0 {
            "neg"
        } else {
            "n"
        })
        .to_string();
    }
    if b.is_empty() {
        return "empty".into();
    }
    if model::string2d(b).is_some() || model::string2d(b.strip_prefix(b"(").unwrap_or(b)).is_some() {
        return "float".into();
    }
    if b.iter().any(|c| !c.is_ascii()) {
        return "bin".into();
    }
    "s".into()
}

fn op_shape(op: &Argv) -> String {
    let mut s = String::from_utf8_lossy(&op[0]).to_ascii_uppercase();
    for a in op.iter().skip(2) {
        s.push(' ');
        s.push_str(&arg_class(a));
    }
    s
}

fn key_state(m: &Model, op: &Argv) -> String {
    let mut parts = Vec::new();
    for k in op.iter().skip(1) {
        if k.len() <= 4 && (k.starts_with(b"k") || k.iter().any(|c| !c.is_ascii())) {
            let st = match m.keys.get(k) {
                None => "none".to_string(),
                Some(e) => format!("{}{}", e.val.type_name(), if e.deadline.is_some() { "+ttl" } else { "" }),
            };
            if !parts.contains(&st) || parts.len() < 2 {
                parts.push(st);
            }
            if parts.len() == 2 {
                break;
            }
        }
    }
    parts.join(",")
}

fn show_hist(ops: &[Argv]) -> String {
    ops.iter().map(resp::show_argv).collect::<Vec<_>>().join("; ")
}

/// Run history then op with the oracle on the last step. Returns Ok(fingerprint) or Err((sig, detail)).
fn run_checked(history: &[Argv], op: &Argv) -> Result<String, (String, String)> {
    let mut sys = Sys::new();
    for h in history {
        sys.apply(h);
    }
    let pre_state = key_state(&sys.model, op);
    let pre = sys.model.fingerprint();
    // cause tag for the counter commands: is the stored operand something Redis itself would not accept as an integer
    // ("+1", "01", " 1": the listed lenient-parsing deviation)? A counter command that should fail on a CANONICAL operand
    // (overflow) and does not is another matter and must not share that signature.
    let operand_tag = {
        let name = String::from_utf8_lossy(&op[0]).to_ascii_uppercase();
        let canonical = |b: &[u8]| -> bool { std::str::from_utf8(b).ok().map(|t| t.parse::<i64>().map(|n| n.to_string() == t).unwrap_or(false)).unwrap_or(false) };
        let stored: Option<Vec<u8>> = match (name.as_str(), op.get(1).and_then(|k| sys.model.keys.get(k))) {
            ("INCR" | "DECR" | "INCRBY" | "DECRBY", Some(e)) => match &e.val {
                vh::model::MVal::Str(b) => Some(b.to_vec()),
                _ => None,
            },
            ("HINCRBY", Some(e)) => match (&e.val, op.get(2)) {
                (vh::model::MVal::Hash(h), Some(f)) => h.get(f.as_slice()).map(|b| b.to_vec()),
                _ => None,
            },
            _ => None,
        };
        match stored {
            Some(b) if !canonical(&b) => " stored-operand=noncanonical",
            _ => "",
        }
    };
    let (mm, shown) = sys.apply(op);
    if let Some(m) = mm {
        let _ = &pre_state;
        // integer-vs-integer mismatches also say how far off the reply is
        let delta_tag = {
            let ints: Vec<i128> = m.1.split(|c: char| c == ' ').filter_map(|t| t.strip_prefix(':')).filter_map(|t| t.parse::<i128>().ok()).collect();
            if m.0 == "exp=int got=int" && ints.len() == 2 {
                match ints[1] - ints[0] {
                    1 => "(+1)",
                    -1 => "(-1)",
                    _ => "(other)",
                }
            } else {
                ""
            }
        };
        let sig = format!("reply {}: {}{}{}", op_shape(op), m.0, delta_tag, if m.0.starts_with("exp=-ERR") { operand_tag } else { "" });
        let m = m.1;
        let detail = format!("after [{}] (state {}): `{}` -> {}", show_hist(history), pre, resp::show_argv(op), m);
        return Err((sig, detail));
    }
    let iks = sys.impl_keyspace();
    let mks = sys.model.keyspace();
    if let Some((kind, desc)) = dump::diff(&mks, &iks) {
        let sig = format!("keyspace:{} {}", kind, op_shape(op));
        let detail = format!(
            "after [{}] (state {}): `{}` replied {}; keyspace differs from Redis: {} (implementation: {}; model: {})",
            show_hist(history),
            pre,
            resp::show_argv(op),
            shown,
            desc,
            dump::show_keyspace(&iks),
            dump::show_keyspace(&mks)
        );
        return Err((sig, detail));
    }
    Ok(sys.fingerprint())
}

vh::use_jemalloc!();

fn main() {
    let args = cli::parse_args();
    vh::quiet_panics();
    if let Some(path) = &args.replay {
        let r = vh::report::load_replay(path);
        let hist: Vec<Argv> = r["history"].as_array().map(|a| a.iter().map(resp::argv_from_json).collect()).unwrap_or_default();
        let op = resp::argv_from_json(&r["op"]);
        if r["family"].as_str().map(|f| f.ends_with("@epoch")).unwrap_or(false) {
            ACTIVE_EPOCH_MS.store(EPOCH_MS, std::sync::atomic::Ordering::Relaxed);
        }
        match run_checked(&hist, &op) {
            Ok(fp) => {
                println!("replay: no violation; state {fp}");
                std::process::exit(0);
            }
            Err((sig, detail)) => {
                println!("{detail}");
                println!("VIOLATION property=C01 replay={} ({sig})", path.display());
                std::process::exit(1);
            }
        }
    }
    let rep = Reporter::new("C01", "model_checking", &args);
    let only = args.flag("--only").map(|s| s.to_string());
    let per_family_budget = Duration::from_secs(if args.tier == Tier::Thorough { 240 } else { 40 });
    let mut total_states = 0u64;
    let mut total_trans = 0u64;
    let mut fam_reports = Vec::new();
    let mut samples = Vec::new();
    let mut all_exhaustive = true;
    let outcomes: Mutex<BTreeSet<String>> = Mutex::new(BTreeSet::new());
    for (name, alphabet, depth) in families(args.tier) {
        if let Some(o) = &only {
            if o != name {
                continue;
            }
        }
        ACTIVE_EPOCH_MS.store(if name.ends_with("@epoch") { EPOCH_MS } else { 0 }, std::sync::atomic::Ordering::Relaxed);
        let ops: Vec<Argv> = alphabet.iter().map(|l| resp::line(l)).collect();
        let mut bfs = Bfs::new(ops.len(), depth);
        bfs.deadline = Some(Instant::now() + per_family_budget);
        bfs.probe_duplicates = args.tier == Tier::Quick; // thorough spends its budget on depth instead
        let init = Sys::new().fingerprint();
        let stats = bfs.run(&init, |hist, o| {
            let h: Vec<Argv> = hist.iter().map(|i| ops[*i as usize].clone()).collect();
            let op = &ops[o as usize];
            match run_checked(&h, op) {
                Ok(fp) => {
                    // distinct observed outcome classes (vacuity indicator)
                    if hist.len() < 2 {
                        outcomes.lock().unwrap().insert(fp.clone());
                    }
                    Some(fp)
                }
                Err((sig, detail)) => {
                    rep.violation(
                        format!("{name}: {sig}"),
                        detail,
                        json!({"family": name, "history": h.iter().map(resp::argv_json).collect::<Vec<_>>(), "op": resp::argv_json(op)}),
                    );
                    None
                }
            }
        });
        total_states += stats.states;
        total_trans += stats.transitions;
        if stats.truncated {
            all_exhaustive = false;
        }
        eprintln!(
            "family {name}: ops={} depth={} completed={} states={} transitions={} pruned={} dup-probes={} truncated={} ({:.1}s)",
            ops.len(),
            depth,
            stats.depth_completed,
            stats.states,
            stats.transitions,
            stats.pruned_transitions,
            stats.duplicate_probes,
            stats.truncated,
            rep.elapsed_s()
        );
        fam_reports.push(json!({
            "family": name, "alphabet_size": ops.len(), "depth_bound": depth, "depth_completed": stats.depth_completed,
            "states": stats.states, "transitions": stats.transitions, "violating_transitions": stats.pruned_transitions,
            "truncated_by_time_cap": stats.truncated, "frontier_sizes": stats.frontier_sizes, "one_step_probes_from_deduplicated_successors": stats.duplicate_probes,
        }));
        samples.push(json!({"family": name, "sample_sequence": alphabet.iter().step_by((alphabet.len() / 3).max(1)).take(3).collect::<Vec<_>>()}));
    }
    // ---- glob sweep: every pattern of <= 4 tokens against a fixed population of names, through KEYS (BFS machinery:
    // reply and keyspace against the model) and through SCAN / HSCAN / ZSCAN MATCH (the tree has no SSCAN) (names against the model's glob)
    let glob_tokens: &[&str] = &["k", "1", "*", "?", "[12]", "[^1]", "[1-3]", "\\x5ck", "["];
    let glob_names: &[&str] = &["k", "k1", "k2", "k3", "k10", "k12x", "1", "kk", "k[12]", "k[12]x", "[", "k*", "k?1"];
    let mut glob_patterns: Vec<Vec<usize>> = Vec::new();
    {
        let mut cur: Vec<Vec<usize>> = vec![vec![]];
        for _ in 0..(if args.tier == Tier::Thorough { 5 } else { 4 }) {
            cur = cur.iter().flat_map(|p| (0..glob_tokens.len()).map(move |t| { let mut x = p.clone(); x.push(t); x })).collect();
            glob_patterns.extend(cur.iter().cloned());
        }
    }
    let glob_cases = std::sync::atomic::AtomicU64::new(0);
    if only.is_none() || only.as_deref() == Some("glob") {
        let seed: Vec<Argv> = vec![
            resp::line(&format!("MSET {}", glob_names.iter().map(|n| format!("{n} v")).collect::<Vec<_>>().join(" "))),
            resp::line(&format!("HSET H {}", glob_names.iter().map(|n| format!("{n} v")).collect::<Vec<_>>().join(" "))),
            resp::line(&format!("ZADD Z {}", glob_names.iter().map(|n| format!("1 {n}")).collect::<Vec<_>>().join(" "))),
        ];
        let seen = std::sync::Mutex::new(BTreeSet::new());
        vh::par::par_map(&glob_patterns, |_, pat| {
            let text: String = pat.iter().map(|t| glob_tokens[*t]).collect();
            let shape: String = pat.iter().map(|t| match glob_tokens[*t] { "k" | "1" => "c", "\\x5ck" => "esc", t => t }).collect::<Vec<_>>().join(" ");
            let pat_bytes = resp::unescape(&text);
            // KEYS through the model
            let op = resp::line(&format!("KEYS {text}"));
            glob_cases.fetch_add(1, std::sync::atomic::Ordering::Relaxed);
            if let Err((sig, detail)) = run_checked(&seed, &op) {
                if seen.lock().unwrap().insert(format!("K{shape}")) {
                    rep.violation(format!("glob: {sig} pattern=[{shape}]"), detail, json!({"family": "glob", "history": seed.iter().map(resp::argv_json).collect::<Vec<_>>(), "op": resp::argv_json(&op)}));
                }
                return;
            }
            // the MATCH option of the four SCAN commands: one call with a COUNT above the population
            let mut sys = Sys::new();
            for h in &seed {
                sys.apply(h);
            }
            let want: BTreeSet<Vec<u8>> = glob_names.iter().map(|n| n.as_bytes().to_vec()).filter(|n| vh::model::glob(&pat_bytes, n)).collect();
            for (cmd, key, stride) in [("SCAN", None, 1usize), ("HSCAN", Some("H"), 2), ("ZSCAN", Some("Z"), 2)] {
                glob_cases.fetch_add(1, std::sync::atomic::Ordering::Relaxed);
                let mut a: Argv = vec![cmd.as_bytes().to_vec()];
                if let Some(k) = key {
                    a.push(k.as_bytes().to_vec());
                }
                a.extend([b"0".to_vec(), b"MATCH".to_vec(), pat_bytes.clone(), b"COUNT".to_vec(), b"1000".to_vec()]);
                let r = sys.exec_impl(&a);
                let got: Option<BTreeSet<Vec<u8>>> = match &r {
                    RespValue::Array(Some(parts)) if parts.len() == 2 => match &parts[1] {
                        RespValue::Array(Some(items)) => Some(items.iter().step_by(stride).filter_map(|i| if let RespValue::BulkString(Some(b)) = i { Some(b.clone()) } else { None }).filter(|n| key.is_some() || !matches!(n.as_slice(), b"H" | b"Z")).collect()),
                        _ => None,
                    },
                    _ => None,
                };
                if got.as_ref() != Some(&want) {
                    if seen.lock().unwrap().insert(format!("{cmd}{shape}")) {
                        rep.violation(
                            format!("glob: {cmd} MATCH names-differ pattern=[{shape}]"),
                            format!("names {:?}: `{}` replied {}; Redis's glob matches {:?}", glob_names, resp::show_argv(&a), resp::show(&r), want.iter().map(|n| resp::esc(n)).collect::<Vec<_>>()),
                            json!({"family": "glob", "history": seed.iter().map(resp::argv_json).collect::<Vec<_>>(), "op": resp::argv_json(&a)}),
                        );
                    }
                }
            }
        });
    }
    let coverage = json!({
        "glob_sweep": {"patterns": glob_patterns.len(), "cases": glob_cases.load(std::sync::atomic::Ordering::Relaxed), "tokens": glob_tokens, "names": glob_names,
            "rule": "every pattern of <=4 (thorough 5) tokens over {literal k, literal 1, *, ?, [12], [^1], [1-3], an escaped k, a lone [} against 13 names (incl. names that contain the metacharacters literally): KEYS against the reference model (reply and keyspace), and SCAN / HSCAN / ZSCAN with MATCH and a COUNT above the population against the model's glob"},
        "states": total_states,
        "transitions": total_trans,
        "traces_validated_against_impl": total_trans,
        "samples": samples,
        "families": fam_reports,
        "distinct_depth<=2_states_observed": outcomes.lock().unwrap().len(),
        "exhaustive": all_exhaustive,
        "rule": "per family: breadth-first over all command sequences up to the depth bound, states deduplicated on (clock, model keyspace); on every transition the real executor's reply is compared with the reference model's and the full visible keyspace (key,type,value,PTTL) is compared; a violating transition is reported and not expanded",
    });
    rep.finish(
        coverage,
        vec![
            "reference model = vh::model (independent re-statement of Redis 7 semantics); error replies are compared by error code word only".into(),
            "unordered replies compared as multisets; SPOP/RANDOMKEY choices validated against the model's set".into(),
            "executor driven as on the simulation path: set_time(now) then execute; epoch 0 so unix ms == virtual ms".into(),
        ],
    );
}
