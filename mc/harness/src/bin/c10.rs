//! C10 — WAL recovery yields only intact appended entries; truncation keeps newer ones.
//!
//! Part 1 (damage): WAL file images are produced by the real `WalRotator` over an
//! `InMemoryWalStore` (one rotator life per file, as after a restart); every file of every image
//! is then damaged in every enumerated way (every truncation length, every single-bit flip, every
//! 2-byte window stomped with 00 / FF) and the real `recover_all_entries` /
//! `recover_entries_after` are run on the damaged store.
//! Part 2 (truncation): every layout of 1..3 files x 1..2 entries with stamps from {1,2,3}
//! x T in 0..=4 x {active file open, no active file}: `truncate_before(T)`.
use redis_sim::replication::state::ReplicationDelta;
use redis_sim::streaming::wal::{WalEntry, WalRotator, WAL_ENTRY_OVERHEAD, WAL_HEADER_SIZE};
use redis_sim::streaming::wal_store::{InMemoryWalStore, WalStore};
use serde_json::{json, Value};
use std::collections::BTreeMap;
use std::panic::{catch_unwind, AssertUnwindSafe};
use vh::imgx::{self, Mutation, MutationSet};
use vh::{cli, par, Reporter, Tier};

const BIG: usize = 1 << 40;
const SIZE_NAMES: [&str; 3] = ["minimal", "24-byte value", "300-byte payload"];

// ---------------------------------------------------------------------------------------------
// images
// ---------------------------------------------------------------------------------------------

#[derive(Clone, Debug, PartialEq)]
struct Exp {
    stamp: u64,
    data: Vec<u8>,
    checksum: u32,
    start: usize,
    end: usize,
}

struct FileImg {
    name: String,
    bytes: Vec<u8>,
    entries: Vec<Exp>,
}

struct Image {
    store: InMemoryWalStore,
    files: Vec<FileImg>,
}

fn stamp_of(file: usize, idx: usize) -> u64 {
    (file as u64 + 1) * 1000 + idx as u64 * 7 + 1
}

fn payload_delta(size_kind: u8, file: usize, idx: usize) -> ReplicationDelta {
    let stamp = stamp_of(file, idx);
    match size_kind {
        0 => imgx::lww_delta("", b"", stamp, 0),
        1 => imgx::lww_delta("k", &(0..24u8).map(|i| b'a' + i).collect::<Vec<u8>>(), stamp, 1),
        _ => {
            // value length chosen so that the serialized payload is exactly 300 bytes
            let mut len = 200usize;
            loop {
                let v: Vec<u8> = (0..len).map(|i| (i * 13 + file * 5 + idx) as u8).collect();
                let d = imgx::lww_delta("key:300", &v, stamp, 2);
                let n = bincode::serialize(&d).map(|b| b.len()).unwrap_or(0);
                if n == 300 || len == 0 || len > 400 {
                    return d;
                }
                len = if n < 300 { len + (300 - n) } else { len - (n - 300) };
            }
        }
    }
}

/// Build the files of a layout with the real rotator: one rotator life per file.
fn build_image(layout: &[Vec<u8>]) -> Result<Image, String> {
    let store = InMemoryWalStore::new();
    let mut expected: Vec<Vec<(u64, Vec<u8>, u32)>> = Vec::new();
    for (fi, sizes) in layout.iter().enumerate() {
        let mut rot = WalRotator::new(store.clone(), BIG).map_err(|e| format!("rotator: {e}"))?;
        let mut es = Vec::new();
        let mut seq = None;
        for (ei, sk) in sizes.iter().enumerate() {
            let d = payload_delta(*sk, fi, ei);
            let e = WalEntry::from_delta(&d, stamp_of(fi, ei)).map_err(|e| format!("from_delta: {e}"))?;
            let s = rot.append(&e).map_err(|e| format!("append: {e}"))?;
            if let Some(prev) = seq {
                if prev != s {
                    return Err("entries of one rotator life went to different files".into());
                }
            }
            seq = Some(s);
            es.push((e.timestamp, e.data.clone(), e.checksum));
        }
        rot.sync().map_err(|e| format!("sync: {e}"))?;
        expected.push(es);
    }
    let names = store.list().map_err(|e| format!("list: {e}"))?;
    if names.len() != layout.len() {
        return Err(format!("{} files for a layout of {}", names.len(), layout.len()));
    }
    let mut files = Vec::new();
    for (name, es) in names.into_iter().zip(expected) {
        let bytes = store.get_file_data(&name).ok_or("file vanished")?;
        let mut off = WAL_HEADER_SIZE;
        let mut entries = Vec::new();
        for (stamp, data, checksum) in es {
            let end = off + WAL_ENTRY_OVERHEAD + data.len();
            entries.push(Exp { stamp, data, checksum, start: off, end });
            off = end;
        }
        if off != bytes.len() {
            return Err(format!("file {name}: {} bytes on disk, {} accounted for", bytes.len(), off));
        }
        files.push(FileImg { name, bytes, entries });
    }
    Ok(Image { store, files })
}

/// The same file in the previous on-disk format (version 1: the entry checksum covers the payload only), which
/// `WalReader` promises to keep reading (WAL_MIN_VERSION = 1): header byte 4 := 1, every entry's checksum := crc32(payload).
fn to_version_1(f: &FileImg) -> Vec<u8> {
    let mut b = f.bytes.clone();
    b[4] = 1;
    for e in &f.entries {
        let crc = crc32fast::hash(&e.data);
        b[e.start + 12..e.start + 16].copy_from_slice(&crc.to_le_bytes());
    }
    b
}

/// Every subset of the image's files rewritten in format version 1: recovery (both entry points) must return exactly
/// what it returns for the version-2 image.
fn eval_old_format(layout: &[Vec<u8>]) -> Result<(Option<Found>, u64), String> {
    let img = build_image(layout)?;
    let rot = WalRotator::new(img.store.clone(), BIG).map_err(|e| format!("rotator: {e}"))?;
    let canon = |es: &[WalEntry]| -> Vec<(u64, Vec<u8>)> { es.iter().map(|e| (e.timestamp, e.data.clone())).collect() };
    let want = canon(&rot.recover_all_entries().map_err(|e| format!("recover (v2 image): {e}"))?);
    let want_after: Vec<String> = rot.recover_entries_after(0).map_err(|e| format!("recover_entries_after (v2 image): {e}"))?.iter().map(imgx::canon).collect();
    let n = img.files.len();
    let mut cases = 0u64;
    for mask in 1u32..(1 << n) {
        for (i, f) in img.files.iter().enumerate() {
            img.store.set_file_data(&f.name, if mask & (1 << i) != 0 { to_version_1(f) } else { f.bytes.clone() });
        }
        cases += 1;
        let got = std::panic::catch_unwind(std::panic::AssertUnwindSafe(|| (rot.recover_all_entries(), rot.recover_entries_after(0))));
        let which: Vec<usize> = (0..n).filter(|i| mask & (1 << i) != 0).collect();
        let mk = |what: &str, detail: String| Found {
            sig: format!("version-1 file: {what}"),
            detail: format!("layout {:?} with file(s) {:?} rewritten in format version 1 (header byte 4 = 1, entry checksum = crc32 of the payload): {detail}", layout, which),
            replay: json!({"part": "old-format", "layout": layout}),
        };
        match got {
            Err(p) => return Ok((Some(mk("panic", vh::panic_text(&p))), cases)),
            Ok((all, after)) => {
                match all {
                    Err(e) => return Ok((Some(mk("recover-error", format!("recover_all_entries returned Err({e})"))), cases)),
                    Ok(es) if canon(&es) != want => return Ok((Some(mk("entries-not-returned", format!("recover_all_entries returns {} entries, the same image in version 2 returns {}", es.len(), want.len()))), cases)),
                    _ => {}
                }
                match after {
                    Err(e) => return Ok((Some(mk("entries-after-error", format!("recover_entries_after(0) returned Err({e})"))), cases)),
                    Ok(ds) if ds.iter().map(imgx::canon).collect::<Vec<_>>() != want_after => return Ok((Some(mk("entries-after-differ", format!("recover_entries_after(0) returns {} updates, the same image in version 2 returns {}", ds.len(), want_after.len()))), cases)),
                    _ => {}
                }
            }
        }
    }
    Ok((None, cases))
}

/// The same layout written through the repository's LOCAL-FILESYSTEM WAL store into a scratch directory (one rotator
/// life per file), then read back by a new store object and a new rotator on that directory (a restart): all entries
/// in order; then every truncation length of the last file (a torn tail on disk): the surviving prefix of that file,
/// everything of the others.
fn eval_local_store(layout: &[Vec<u8>], with_truncations: bool) -> Result<(Option<Found>, u64), String> {
    use redis_sim::streaming::wal_store::LocalWalStore;
    static SERIAL: std::sync::atomic::AtomicU64 = std::sync::atomic::AtomicU64::new(0);
    let dir = std::env::temp_dir().join(format!("verif-c10-{}-{}", std::process::id(), SERIAL.fetch_add(1, std::sync::atomic::Ordering::Relaxed)));
    let _ = std::fs::remove_dir_all(&dir);
    let res = (|| -> Result<(Option<Found>, u64), String> {
        let store = LocalWalStore::new(dir.clone()).map_err(|e| format!("local store: {e}"))?;
        let mut expected: Vec<Vec<(u64, Vec<u8>)>> = Vec::new();
        for (fi, sizes) in layout.iter().enumerate() {
            let mut rot = WalRotator::new(store.clone(), BIG).map_err(|e| format!("rotator: {e}"))?;
            let mut es = Vec::new();
            for (ei, sk) in sizes.iter().enumerate() {
                let d = payload_delta(*sk, fi, ei);
                let e = WalEntry::from_delta(&d, stamp_of(fi, ei)).map_err(|e| format!("from_delta: {e}"))?;
                rot.append(&e).map_err(|e| format!("append: {e}"))?;
                es.push((e.timestamp, e.data.clone()));
            }
            rot.sync().map_err(|e| format!("sync: {e}"))?;
            expected.push(es);
        }
        let mk = |what: &str, detail: String| Found {
            sig: format!("local-filesystem store: {what}"),
            detail: format!("layout {:?} written through LocalWalStore and read back after a restart: {detail}", layout),
            replay: json!({"part": "local-store", "layout": layout, "with_truncations": with_truncations}),
        };
        let read = || -> Result<Vec<(u64, Vec<u8>)>, String> {
            let st = LocalWalStore::new(dir.clone()).map_err(|e| format!("reopen: {e}"))?;
            let rot = WalRotator::new(st, BIG).map_err(|e| format!("rotator over the directory: {e}"))?;
            Ok(rot.recover_all_entries().map_err(|e| format!("recover_all_entries: {e}"))?.iter().map(|e| (e.timestamp, e.data.clone())).collect())
        };
        let mut cases = 1u64;
        let all: Vec<(u64, Vec<u8>)> = expected.iter().flatten().cloned().collect();
        match read() {
            Err(e) => return Ok((Some(mk("recover-error", e)), cases)),
            Ok(got) if got != all => return Ok((Some(mk("entries-differ", format!("{} entries recovered, {} appended (or contents / order differ)", got.len(), all.len()))), cases)),
            _ => {}
        }
        if with_truncations {
            let names = store.list().map_err(|e| format!("list: {e}"))?;
            let mut names = names;
            names.sort();
            let last = names.last().cloned().ok_or("no files")?;
            let path = dir.join(&last);
            let full = std::fs::read(&path).map_err(|e| e.to_string())?;
            let others: Vec<(u64, Vec<u8>)> = expected[..expected.len() - 1].iter().flatten().cloned().collect();
            let last_entries = expected.last().unwrap();
            for len in 0..full.len() {
                std::fs::write(&path, &full[..len]).map_err(|e| e.to_string())?;
                cases += 1;
                // entries of the last file that are complete within `len`
                let mut keep = Vec::new();
                let mut off = WAL_HEADER_SIZE;
                for (st, data) in last_entries {
                    off += WAL_ENTRY_OVERHEAD + data.len();
                    if off <= len {
                        keep.push((*st, data.clone()));
                    }
                }
                let want: Vec<(u64, Vec<u8>)> = others.iter().cloned().chain(keep).collect();
                match read() {
                    Err(e) => return Ok((Some(mk("recover-error-on-torn-tail", format!("last file cut to {len} of {} bytes: {e}", full.len()))), cases)),
                    Ok(got) if got != want => return Ok((Some(mk("torn-tail", format!("last file cut to {len} of {} bytes: {} entries recovered, {} expected", full.len(), got.len(), want.len()))), cases)),
                    _ => {}
                }
            }
        }
        Ok((None, cases))
    })();
    let _ = std::fs::remove_dir_all(&dir);
    res
}

/// Part 5: one large, intact entry between small ones (and a second file after it), fault-free. Whatever the size, the
/// entry was appended and synced, so recovery returns it bit-identical, decodes it to the update that was written, and
/// returns the entries around it and in the other file.
fn eval_large_entry(value_len: usize) -> Result<Option<Found>, String> {
    let store = InMemoryWalStore::new();
    let mk = |sig: &str, detail: String| Found { sig: format!("large-entry: {sig}"), detail: format!("undamaged WAL: file 0 = [small, one entry with a value of {value_len} bytes, small], file 1 = [small]: {detail}"), replay: json!({"part": "large-entry", "value_len": value_len}) };
    let big_value: Vec<u8> = (0..value_len).map(|i| (i as u32).wrapping_mul(2654435761).to_le_bytes()[3]).collect();
    let deltas = vec![
        vec![imgx::lww_delta("a", b"1", 1001, 1), imgx::lww_delta("big", &big_value, 1002, 1), imgx::lww_delta("c", b"3", 1003, 1)],
        vec![imgx::lww_delta("d", b"4", 2001, 1)],
    ];
    for file in &deltas {
        let mut rot = WalRotator::new(store.clone(), BIG).map_err(|e| format!("rotator: {e}"))?;
        for d in file {
            let e = WalEntry::from_delta(d, d.value.timestamp.time).map_err(|e| format!("from_delta: {e}"))?;
            rot.append(&e).map_err(|e| format!("append: {e}"))?;
        }
        rot.sync().map_err(|e| format!("sync: {e}"))?;
    }
    let rot = WalRotator::new(store.clone(), BIG).map_err(|e| format!("rotator: {e}"))?;
    let want: Vec<String> = deltas.iter().flatten().map(imgx::canon).collect();
    let all = match rot.recover_all_entries() {
        Ok(a) => a,
        Err(e) => return Ok(Some(mk("recover-error-on-undamaged-store", format!("recover_all_entries returned Err({e})")))),
    };
    if all.len() != want.len() {
        return Ok(Some(mk("entries-not-returned", format!("recover_all_entries returned {} entries, {} were appended", all.len(), want.len()))));
    }
    for (i, e) in all.iter().enumerate() {
        match e.to_delta() {
            Ok(d) if imgx::canon(&d) == want[i] => {}
            Ok(_) => return Ok(Some(mk("entry-decodes-to-another-update", format!("entry #{i} (stamp {}) decodes to an update other than the one appended", e.timestamp)))),
            Err(err) => return Ok(Some(mk("intact-entry-does-not-decode", format!("entry #{i} (stamp {}, {} payload bytes) was returned intact but to_delta() fails: {err}", e.timestamp, e.data.len())))),
        }
    }
    for t in [0u64, 1002, 1003] {
        let wanted: Vec<&String> = deltas.iter().flatten().zip(&want).filter(|(d, _)| d.value.timestamp.time >= t).map(|(_, w)| w).collect();
        match rot.recover_entries_after(t) {
            Err(e) => return Ok(Some(mk("entries-after-error", format!("recover_entries_after({t}) returned Err({e}) on an undamaged store")))),
            Ok(ds) => {
                let got: Vec<String> = ds.iter().map(imgx::canon).collect();
                if got.iter().collect::<Vec<_>>() != wanted {
                    return Ok(Some(mk("entries-after-differ", format!("recover_entries_after({t}) returned {} updates, {} were appended with a stamp >= {t}", got.len(), wanted.len()))));
                }
            }
        }
    }
    Ok(None)
}

fn regions(f: &FileImg) -> imgx::Regions {
    let mut r: imgx::Regions = vec![
        ("file.magic", 0, 4),
        ("file.version", 4, 5),
        ("file.flags", 5, 6),
        ("file.reserved", 6, 8),
        ("file.sequence", 8, 16),
    ];
    for e in &f.entries {
        r.push(("entry.len", e.start, e.start + 4));
        r.push(("entry.stamp", e.start + 4, e.start + 12));
        r.push(("entry.crc", e.start + 12, e.start + 16));
        r.push(("entry.payload", e.start + 16, e.end));
    }
    r
}

// ---------------------------------------------------------------------------------------------
// damage oracle
// ---------------------------------------------------------------------------------------------

#[derive(Default)]
struct Stats {
    evaluations: u64,
    nontrivial: u64,
    identity: u64,
    outcomes: BTreeMap<(&'static str, &'static str, String), u64>,
    after_calls: u64,
}

impl Stats {
    fn bump(&mut self, kind: &'static str, region: &'static str, outcome: &str) {
        match self.outcomes.iter_mut().find(|(k, _)| k.0 == kind && k.1 == region && k.2 == outcome) {
            Some((_, v)) => *v += 1,
            None => {
                self.outcomes.insert((kind, region, outcome.to_string()), 1);
            }
        }
    }
    fn table(&self) -> BTreeMap<String, u64> {
        self.outcomes.iter().map(|((k, r, o), v)| (format!("{k} {r} -> {o}"), *v)).collect()
    }
    fn merge(&mut self, o: Stats) {
        self.evaluations += o.evaluations;
        self.nontrivial += o.nontrivial;
        self.identity += o.identity;
        self.after_calls += o.after_calls;
        for (k, v) in o.outcomes {
            *self.outcomes.entry(k).or_insert(0) += v;
        }
    }
}

struct Found {
    sig: String,
    detail: String,
    replay: Value,
}

fn show_entry(stamp: u64, data: &[u8]) -> String {
    let h = imgx::hex(data);
    if h.len() > 48 {
        format!("(stamp={stamp} len={} payload={}..)", data.len(), &h[..48])
    } else {
        format!("(stamp={stamp} len={} payload={h})", data.len())
    }
}

/// Evaluate one mutation of file `m` of the image. Returns the violation, if any.
fn eval_mutation(
    img: &Image,
    rot: &WalRotator<InMemoryWalStore>,
    layout: &[Vec<u8>],
    m: usize,
    mu: Mutation,
    thresholds: &[u64],
    regs: &imgx::Regions,
    stats: &mut Stats,
) -> Option<Found> {
    let f = &img.files[m];
    let first = mu.first_changed(&f.bytes);
    let last_end = mu.last_changed_end(&f.bytes);
    stats.evaluations += 1;
    let region: &'static str = first.map(|o| imgx::region_of(regs, o)).unwrap_or("identity");
    let kind = mu.kind();
    let fail = |mismatch: &str, detail: String| -> Option<Found> {
        Some(Found {
            sig: format!("{kind} {region}: {mismatch}"),
            detail: format!(
                "layout (payload kinds per file) {:?}, file #{m} ({}, {} bytes), mutation {:?}: {detail}",
                layout,
                f.name,
                f.bytes.len(),
                mu
            ),
            replay: json!({"part": "damage", "layout": layout, "file": m, "mutation": mu.to_json()}),
        })
    };
    img.store.set_file_data(&f.name, mu.apply(&f.bytes));
    let result = catch_unwind(AssertUnwindSafe(|| {
        let all = rot.recover_all_entries();
        let mut after = Vec::new();
        for t in thresholds {
            after.push(rot.recover_entries_after(*t));
        }
        (all, after)
    }));
    img.store.set_file_data(&f.name, f.bytes.clone());
    let (all, after) = match result {
        Ok(r) => r,
        Err(p) => return fail("panic", format!("recovery panicked: {}", vh::panic_text(&p))),
    };
    // where the damage sits (needed to judge an error return, too)
    let header_touched = first.map(|o| o < WAL_HEADER_SIZE).unwrap_or(false);
    let first_entry_touched = match (first, last_end) {
        (Some(a), Some(b)) => f.entries.iter().position(|e| a < e.end && b > e.start),
        _ => None,
    };
    let others: usize = img.files.iter().enumerate().filter(|(i, _)| *i != m).map(|(_, f)| f.entries.len()).sum();
    let got = match all {
        Ok(g) => g,
        Err(e) => {
            // an error instead of entries is a violation exactly when it hides something intact
            if first.is_none() {
                return fail("recover-error-on-undamaged-store", format!("recover_all_entries returned Err({e})"));
            }
            if others > 0 {
                return fail(
                    "recover-error-hides-untouched-files",
                    format!("recover_all_entries returned Err({e}); the {others} intact entries of the other files are not returned"),
                );
            }
            let intact_before = if header_touched { 0 } else { first_entry_touched.unwrap_or(0) };
            if intact_before > 0 {
                return fail(
                    "recover-error-hides-intact-entries",
                    format!("recover_all_entries returned Err({e}); the {intact_before} intact entries before the damage are not returned"),
                );
            }
            stats.nontrivial += 1;
            stats.bump(kind, region, "error returned, nothing intact hidden");
            return None;
        }
    };
    // how many entries of the damaged file came back
    if got.len() < others {
        return fail(
            "entries-of-untouched-files-missing",
            format!("{} entries recovered, the untouched files alone hold {others}", got.len()),
        );
    }
    let p = got.len() - others;
    if p > f.entries.len() {
        return fail(
            "more-entries-than-appended",
            format!("{} entries recovered, only {} were ever appended", got.len(), others + f.entries.len()),
        );
    }
    // element-wise comparison with: full other files, first p entries of the damaged file
    let mut k = 0usize;
    for (fi, file) in img.files.iter().enumerate() {
        let take = if fi == m { p } else { file.entries.len() };
        for (ei, e) in file.entries.iter().take(take).enumerate() {
            let g = &got[k];
            k += 1;
            let what = if g.timestamp != e.stamp {
                Some("stamp")
            } else if g.data.len() != e.data.len() {
                Some("length")
            } else if g.data != e.data {
                Some("payload")
            } else if g.checksum != e.checksum {
                Some("crc")
            } else {
                None
            };
            if let Some(w) = what {
                let mism = if fi == m { format!("altered-entry({w})") } else { format!("untouched-file-entry-differs({w})") };
                return fail(
                    &mism,
                    format!(
                        "recovered entry #{} (file #{fi} entry {ei}) is {} but {} was appended: an entry that was never written",
                        k - 1,
                        show_entry(g.timestamp, &g.data),
                        show_entry(e.stamp, &e.data)
                    ),
                );
            }
        }
    }
    // where recovery of the damaged file must end
    let outcome;
    match (first, header_touched, first_entry_touched) {
        (None, _, _) => {
            stats.identity += 1;
            if p != f.entries.len() {
                return fail("undamaged-file-entries-missing", format!("identity mutation, {p} of {} entries recovered", f.entries.len()));
            }
            outcome = "unchanged image: all entries";
        }
        (Some(_), true, None) => {
            // damage confined to the file header: any prefix is made of appended entries only
            stats.nontrivial += 1;
            outcome = if p == 0 {
                "header damage: file skipped"
            } else if p == f.entries.len() {
                "header damage: ignored field, all entries"
            } else {
                "header damage: partial prefix"
            };
        }
        (Some(_), hdr, Some(t)) => {
            stats.nontrivial += 1;
            if p > t {
                return fail(
                    "entry-at-or-past-damage-returned",
                    format!("first damaged entry is #{t} of the file, yet {p} entries of the file were returned"),
                );
            }
            if p < t && !hdr {
                return fail(
                    "intact-entries-before-damage-lost",
                    format!("first damaged entry is #{t} of the file, only {p} intact entries before it were returned"),
                );
            }
            outcome = if hdr { "header+entry damage: no entry of the file returned" } else { "entry damage: recovery ends at last intact entry" };
        }
        (Some(_), _, None) => {
            // cannot happen: every byte belongs to the header or to an entry
            return fail("harness-region-gap", "damage outside header and entries".into());
        }
    }
    stats.bump(kind, region, outcome);
    // recover_entries_after(T) == deltas of the recovered entries stamped >= T, in order
    for (t, r) in thresholds.iter().zip(after) {
        stats.after_calls += 1;
        let ds = match r {
            Ok(d) => d,
            Err(e) => return fail("entries-after-error", format!("recover_entries_after({t}) returned Err({e}) although recover_all_entries succeeded")),
        };
        let want: Vec<&Vec<u8>> = got.iter().filter(|e| e.timestamp >= *t).map(|e| &e.data).collect();
        let have: Vec<Vec<u8>> = ds.iter().map(|d| bincode::serialize(d).unwrap_or_default()).collect();
        if want.len() != have.len() || want.iter().zip(&have).any(|(a, b)| *a != b) {
            return fail(
                "entries-after-inconsistent",
                format!("recover_entries_after({t}) returned {} deltas, recover_all_entries has {} entries stamped >= {t} (or contents differ)", have.len(), want.len()),
            );
        }
    }
    None
}

fn thresholds_of(img: &Image) -> Vec<u64> {
    let mut st: Vec<u64> = img.files.iter().flat_map(|f| f.entries.iter().map(|e| e.stamp)).collect();
    st.sort();
    vec![0, st[st.len() / 2], st[st.len() - 1] + 1]
}

/// All mutations of one file of one image. Returns stats and the first violation per signature.
fn sweep_file(layout: &[Vec<u8>], m: usize, set: MutationSet) -> Result<(Stats, Vec<Found>), String> {
    let img = build_image(layout)?;
    let rot = WalRotator::new(img.store.clone(), BIG).map_err(|e| format!("rotator: {e}"))?;
    let th = thresholds_of(&img);
    let mut stats = Stats::default();
    let mut found: BTreeMap<String, Found> = BTreeMap::new();
    let regs = regions(&img.files[m]);
    for mu in imgx::all_mutations(img.files[m].bytes.len(), set) {
        if let Some(f) = eval_mutation(&img, &rot, layout, m, mu, &th, &regs, &mut stats) {
            stats.bump("VIOLATION", "", &f.sig);
            found.entry(f.sig.clone()).or_insert(f);
        }
    }
    Ok((stats, found.into_values().collect()))
}

fn sequences(max_len: usize) -> Vec<Vec<u8>> {
    let mut out: Vec<Vec<u8>> = Vec::new();
    let mut cur: Vec<Vec<u8>> = vec![vec![]];
    for _ in 0..max_len {
        let mut next = Vec::new();
        for s in &cur {
            for k in 0..3u8 {
                let mut t = s.clone();
                t.push(k);
                next.push(t);
            }
        }
        out.extend(next.iter().cloned());
        cur = next;
    }
    out
}

fn layouts(n_files: usize, max_len: usize) -> Vec<Vec<Vec<u8>>> {
    let seqs = sequences(max_len);
    let mut out: Vec<Vec<Vec<u8>>> = vec![vec![]];
    for _ in 0..n_files {
        let mut next = Vec::new();
        for l in &out {
            for s in &seqs {
                let mut t = l.clone();
                t.push(s.clone());
                next.push(t);
            }
        }
        out = next;
    }
    out
}

// ---------------------------------------------------------------------------------------------
// truncate_before
// ---------------------------------------------------------------------------------------------

fn eval_truncate(layout: &[Vec<u64>], t: u64, active: bool) -> Result<(Option<Found>, String), String> {
    let store = InMemoryWalStore::new();
    let mut last: Option<WalRotator<InMemoryWalStore>> = None;
    for (fi, stamps) in layout.iter().enumerate() {
        let mut rot = WalRotator::new(store.clone(), BIG).map_err(|e| format!("rotator: {e}"))?;
        for (ei, s) in stamps.iter().enumerate() {
            let d = imgx::lww_delta(&format!("f{fi}e{ei}"), b"v", *s, 1);
            let e = WalEntry::from_delta(&d, *s).map_err(|e| format!("from_delta: {e}"))?;
            rot.append(&e).map_err(|e| format!("append: {e}"))?;
        }
        rot.sync().map_err(|e| format!("sync: {e}"))?;
        last = Some(rot);
    }
    let names = store.list().map_err(|e| format!("list: {e}"))?;
    if names.len() != layout.len() {
        return Err("file count differs from layout".into());
    }
    let active_name = names[names.len() - 1].clone();
    let mut rot = if active {
        last.ok_or("empty layout")?
    } else {
        drop(last);
        WalRotator::new(store.clone(), BIG).map_err(|e| format!("rotator: {e}"))?
    };
    let fail = |mismatch: &str, detail: String| {
        Found {
            sig: format!("truncate_before: {mismatch}"),
            detail: format!("stamps per file {:?}, active file {}, truncate_before({t}): {detail}", layout, if active { "open (last file)" } else { "none" }),
            replay: json!({"part": "truncate", "layout": layout, "t": t, "active": active}),
        }
    };
    let ident = |e: &WalEntry| (e.timestamp, e.data.clone());
    let r = catch_unwind(AssertUnwindSafe(|| {
        let before = rot.recover_all_entries();
        let n = rot.truncate_before(t);
        let after = rot.recover_all_entries();
        (before, n, after)
    }));
    let (before, n, after) = match r {
        Ok(x) => x,
        Err(p) => return Ok((Some(fail("panic", vh::panic_text(&p))), "panic".into())),
    };
    let (before, after) = match (before, after) {
        (Ok(b), Ok(a)) => (b, a),
        _ => return Ok((Some(fail("recover-error", "recover_all_entries failed".into())), "error".into())),
    };
    let n = match n {
        Ok(n) => n,
        Err(e) => return Ok((Some(fail("error", format!("returned Err({e})"))), "error".into())),
    };
    let total: usize = layout.iter().map(|f| f.len()).sum();
    if before.len() != total {
        return Ok((Some(fail("recovery-before-truncation-incomplete", format!("{} of {total} entries", before.len()))), "error".into()));
    }
    if active && !store.exists(&active_name).unwrap_or(false) {
        return Ok((Some(fail("active-file-removed", format!("{active_name} no longer exists"))), "viol".into()));
    }
    let after_ids: Vec<(u64, Vec<u8>)> = after.iter().map(ident).collect();
    let before_ids: Vec<(u64, Vec<u8>)> = before.iter().map(ident).collect();
    for b in &before_ids {
        if b.0 > t && !after_ids.contains(b) {
            return Ok((
                Some(fail("newer-entry-removed", format!("entry stamped {} (> {t}) is gone after truncation; {n} files deleted", b.0))),
                "viol".into(),
            ));
        }
    }
    // what remains is a subsequence of what was there (only appended entries, in order)
    let mut it = before_ids.iter();
    for a in &after_ids {
        if !it.any(|b| b == a) {
            return Ok((Some(fail("unknown-or-reordered-entry-after-truncation", format!("entry stamped {} not in append order", a.0))), "viol".into()));
        }
    }
    if active {
        // entries of the active file all survive
        let act = &layout[layout.len() - 1];
        let tail: Vec<u64> = after_ids.iter().rev().take(act.len()).rev().map(|x| x.0).collect();
        if &tail != act {
            return Ok((Some(fail("active-file-entries-lost", format!("active file holds {:?}, recovery ends with {:?}", act, tail))), "viol".into()));
        }
    }
    Ok((None, format!("deleted {n} of {} files, {} of {} entries remain", layout.len(), after.len(), before.len())))
}

fn trunc_layouts() -> Vec<Vec<Vec<u64>>> {
    let mut per_file: Vec<Vec<u64>> = Vec::new();
    for a in 1..=3u64 {
        per_file.push(vec![a]);
    }
    for a in 1..=3u64 {
        for b in 1..=3u64 {
            per_file.push(vec![a, b]);
        }
    }
    let mut out = Vec::new();
    let mut cur: Vec<Vec<Vec<u64>>> = vec![vec![]];
    for _ in 0..3 {
        let mut next = Vec::new();
        for l in &cur {
            for f in &per_file {
                let mut t = l.clone();
                t.push(f.clone());
                next.push(t);
            }
        }
        out.extend(next.iter().cloned());
        cur = next;
    }
    out
}

// ---------------------------------------------------------------------------------------------

fn parse_layout_u8(v: &Value) -> Vec<Vec<u8>> {
    v.as_array()
        .map(|a| a.iter().map(|f| f.as_array().map(|x| x.iter().map(|n| n.as_u64().unwrap_or(0) as u8).collect()).unwrap_or_default()).collect())
        .unwrap_or_default()
}

fn parse_layout_u64(v: &Value) -> Vec<Vec<u64>> {
    v.as_array()
        .map(|a| a.iter().map(|f| f.as_array().map(|x| x.iter().map(|n| n.as_u64().unwrap_or(0)).collect()).unwrap_or_default()).collect())
        .unwrap_or_default()
}

fn replay(path: &std::path::Path) -> ! {
    let r = vh::report::load_replay(path);
    let found = match r["part"].as_str() {
        Some("damage") => {
            let layout = parse_layout_u8(&r["layout"]);
            let m = r["file"].as_u64().unwrap_or(0) as usize;
            let Some(mu) = Mutation::from_json(&r["mutation"]) else {
                eprintln!("bad mutation in replay");
                std::process::exit(2)
            };
            let img = build_image(&layout).unwrap_or_else(|e| {
                eprintln!("cannot build image: {e}");
                std::process::exit(2)
            });
            let rot = WalRotator::new(img.store.clone(), BIG).unwrap_or_else(|_| std::process::exit(2));
            let th = thresholds_of(&img);
            println!("layout {:?}: files {:?}", layout, img.files.iter().map(|f| (f.name.clone(), f.bytes.len())).collect::<Vec<_>>());
            println!("original file #{m}: {}", imgx::hex(&img.files[m].bytes));
            println!("mutation {:?} -> {}", mu, imgx::hex(&mu.apply(&img.files[m].bytes)));
            let mut st = Stats::default();
            let regs = regions(&img.files[m]);
            eval_mutation(&img, &rot, &layout, m, mu, &th, &regs, &mut st)
        }
        Some("large-entry") => match eval_large_entry(r["value_len"].as_u64().unwrap_or(0) as usize) {
            Ok(f) => f,
            Err(e) => {
                eprintln!("harness: {e}");
                std::process::exit(2)
            }
        },
        Some("local-store") => match eval_local_store(&parse_layout_u8(&r["layout"]), r["with_truncations"].as_bool().unwrap_or(false)) {
            Ok((f, _)) => f,
            Err(e) => {
                eprintln!("harness: {e}");
                std::process::exit(2)
            }
        },
        Some("old-format") => match eval_old_format(&parse_layout_u8(&r["layout"])) {
            Ok((f, _)) => f,
            Err(e) => {
                eprintln!("harness: {e}");
                std::process::exit(2)
            }
        },
        Some("truncate") => {
            let layout = parse_layout_u64(&r["layout"]);
            let t = r["t"].as_u64().unwrap_or(0);
            let active = r["active"].as_bool().unwrap_or(false);
            match eval_truncate(&layout, t, active) {
                Ok((f, o)) => {
                    println!("outcome: {o}");
                    f
                }
                Err(e) => {
                    eprintln!("harness: {e}");
                    std::process::exit(2)
                }
            }
        }
        _ => {
            eprintln!("unknown replay part");
            std::process::exit(2)
        }
    };
    match found {
        Some(f) => {
            println!("{}", f.detail);
            println!("VIOLATION property=C10 replay={} ({})", path.display(), f.sig);
            std::process::exit(1)
        }
        None => {
            println!("replay: no violation");
            std::process::exit(0)
        }
    }
}

fn main() {
    let args = cli::parse_args();
    vh::quiet_panics();
    if let Some(path) = &args.replay {
        replay(path);
    }
    let rep = Reporter::new("C10", "fault_enumeration", &args);
    let thorough = args.tier == Tier::Thorough;
    let set = MutationSet { truncations: true, bitflips: true, stomps: true, setbytes: false };

    // ---- part 1: damage -----------------------------------------------------------------
    // quick: 1 file x all 39 sequences (1..3 entries); 2 files x 12^2 (1..2 entries); 3 files x 3^3 (1 entry)
    // thorough: 1 file x 39, 2 files x 39^2, 3 files x 39^3
    let mut work: Vec<(Vec<Vec<u8>>, usize)> = Vec::new();
    let mut image_count = 0usize;
    let mut add = |ls: Vec<Vec<Vec<u8>>>, work: &mut Vec<(Vec<Vec<u8>>, usize)>| {
        for l in ls {
            image_count += 1;
            for m in 0..l.len() {
                work.push((l.clone(), m));
            }
        }
    };
    add(layouts(1, 3), &mut work);
    if thorough {
        add(layouts(2, 3), &mut work);
        add(layouts(3, 3), &mut work);
    } else {
        add(layouts(2, 2), &mut work);
        add(layouts(3, 1), &mut work);
    }
    if !work.is_empty() {
        let r = (args.seed as usize) % work.len();
        work.rotate_left(r);
    }
    let results = par::par_map(&work, |_, (layout, m)| sweep_file(layout, *m, set));
    let mut stats = Stats::default();
    for (r, (layout, m)) in results.into_iter().zip(&work) {
        match r {
            Ok((s, found)) => {
                stats.merge(s);
                for f in found {
                    rep.violation(f.sig, f.detail, f.replay);
                }
            }
            Err(e) => rep.machinery_failure(&format!("image {:?} file {m}: {e}", layout)),
        }
    }

    // ---- part 2: truncate_before --------------------------------------------------------
    let tl = trunc_layouts();
    let mut twork: Vec<(Vec<Vec<u64>>, u64, bool)> = Vec::new();
    for l in &tl {
        for t in 0..=4u64 {
            for active in [false, true] {
                twork.push((l.clone(), t, active));
            }
        }
    }
    let tres = par::par_map(&twork, |_, (l, t, a)| eval_truncate(l, *t, *a));
    let mut t_outcomes: BTreeMap<String, u64> = BTreeMap::new();
    let mut t_nontrivial = 0u64;
    for (r, (l, t, a)) in tres.into_iter().zip(&twork) {
        match r {
            Ok((f, o)) => {
                *t_outcomes.entry(o.clone()).or_insert(0) += 1;
                // non-trivial: something was deleted, or something stamped <= T had to be kept
                let any_le = l.iter().flatten().any(|s| s <= t);
                if any_le {
                    t_nontrivial += 1;
                }
                if let Some(f) = f {
                    rep.violation(f.sig, f.detail, f.replay);
                }
            }
            Err(e) => rep.machinery_failure(&format!("truncation case {:?} T={t} active={a}: {e}", l)),
        }
    }

    // ---- part 3: files written in the previous format -----------------------------------
    let mut old_layouts = layouts(1, 3);
    old_layouts.extend(layouts(2, 2));
    old_layouts.extend(layouts(3, 1));
    let ores = par::par_map(&old_layouts, |_, l| eval_old_format(l));
    let mut old_cases = 0u64;
    for (r, l) in ores.into_iter().zip(&old_layouts) {
        match r {
            Ok((f, n)) => {
                old_cases += n;
                if let Some(f) = f {
                    rep.violation(f.sig, f.detail, f.replay);
                }
            }
            Err(e) => rep.machinery_failure(&format!("old-format case {:?}: {e}", l)),
        }
    }

    // ---- part 4: the local-filesystem store ---------------------------------------------
    let mut local_layouts: Vec<(Vec<Vec<u8>>, bool)> = layouts(1, 3).into_iter().map(|l| (l, false)).collect();
    local_layouts.extend(layouts(2, 2).into_iter().map(|l| (l, false)));
    local_layouts.extend([vec![vec![0u8, 1]], vec![vec![1u8], vec![0, 2]], vec![vec![2u8, 0], vec![1], vec![0, 0]]].into_iter().map(|l| (l, true)));
    let lres = par::par_map(&local_layouts, |_, (l, t)| eval_local_store(l, *t));
    let mut local_cases = 0u64;
    for (r, (l, _)) in lres.into_iter().zip(&local_layouts) {
        match r {
            Ok((f, n)) => {
                local_cases += n;
                if let Some(f) = f {
                    rep.violation(f.sig, f.detail, f.replay);
                }
            }
            Err(e) => rep.machinery_failure(&format!("local-store case {:?}: {e}", l)),
        }
    }

    // ---- part 5: one large intact entry ---------------------------------------------------
    let large_sizes: Vec<usize> = if thorough {
        vec![65_535, 65_536, (1 << 20) + 1, (4 << 20) - 1, 16 << 20, (16 << 20) + 1, 33 << 20, (64 << 20) + 1, 128 << 20]
    } else {
        vec![65_536, (1 << 20) + 1, (16 << 20) + 1]
    };
    for (n, r) in large_sizes.iter().zip(par::par_map(&large_sizes, |_, n| eval_large_entry(*n))) {
        match r {
            Ok(Some(f)) => rep.violation(f.sig, f.detail, f.replay),
            Ok(None) => {}
            Err(e) => rep.machinery_failure(&format!("large-entry case {n}: {e}")),
        }
    }

    let sample_layout = vec![vec![0u8, 2], vec![1]];
    let sample_img = build_image(&sample_layout).ok();
    let samples = json!([
        {"part": "damage", "layout": [[0, 2], [1]], "payload_kinds": SIZE_NAMES,
         "file_sizes": sample_img.as_ref().map(|i| i.files.iter().map(|f| f.bytes.len()).collect::<Vec<_>>()),
         "file0_hex_prefix": sample_img.as_ref().map(|i| imgx::hex(&i.files[0].bytes[..64.min(i.files[0].bytes.len())])),
         "mutation": Mutation::BitFlip{byte: 20, bit: 0}.to_json(),
         "meaning": "flip the lowest bit of the stamp of the first entry of file 0"},
        {"part": "damage", "layout": [[1, 1, 1]], "mutation": Mutation::Truncate(57).to_json(), "meaning": "tear the file inside the first entry's payload"},
        {"part": "truncate", "layout": [[3], [1, 2], [2]], "t": 2, "active": true},
        {"part": "truncate", "layout": [[2, 1], [3, 3], [1]], "t": 1, "active": false},
    ]);
    let outcome_count = stats.outcomes.len();
    let coverage = json!({
        "evaluations": stats.evaluations + twork.len() as u64,
        "distinct_nontrivial": stats.nontrivial + t_nontrivial,
        "rule": "damage: every (image, file, mutation) triple, image = layout of 1..3 files each holding an entry sequence of 1..3 entries over payload kinds {minimal, 24-byte value, 300-byte payload} written by the real WalRotator, mutation = every truncation length 0..=len, every single-bit flip, every 2-byte window set to 00 and to FF of that file; a triple is non-trivial when the mutation changes or removes at least one byte (identity mutations are counted separately as controls). truncation: every layout of 1..3 files x 1..2 entries with stamps from {1,2,3} x T in 0..=4 x {last file open in the rotator, fresh rotator}; non-trivial when some entry is stamped <= T (deletion is possible). All triples/cases are distinct by construction.",
        "damage_images": image_count,
        "damage_image_file_pairs": work.len(),
        "damage_evaluations": stats.evaluations,
        "damage_identity_controls": stats.identity,
        "damage_nontrivial": stats.nontrivial,
        "recover_entries_after_calls_checked": stats.after_calls,
        "damage_bounds": if thorough { "1 file: 39 sequences; 2 files: 39^2; 3 files: 39^3 (sequences of 1..3 entries over 3 payload kinds)" } else { "1 file: 39 sequences of 1..3 entries; 2 files: 12^2 (sequences of 1..2 entries); 3 files: 3^3 (1 entry each); 3 payload kinds" },
        "distinct_outcome_classes": outcome_count,
        "outcomes_by_mutation_and_region": stats.table(),
        "large_entry_value_sizes": large_sizes,
        "large_entry_rule": "fault-free: file 0 = [small, one entry whose value has the given size, small], file 1 = [small], written by the real rotator; recover_all_entries returns all four bit-identical, each decodes (to_delta) to the update appended, recover_entries_after(T) returns the suffix for T at, before and after the large entry",
        "local_filesystem_store_cases": local_cases,
        "local_filesystem_store_rule": "layouts of the quick damage set written through the repository's LocalWalStore into a scratch directory and read back by a new store and rotator on that directory; for three layouts also every truncation length of the last file on disk",
        "previous_format_cases": old_cases,
        "previous_format_rule": "every image of the quick damage set with every non-empty subset of its files rewritten in on-disk format version 1 (entry checksum over the payload only), which the reader promises to keep reading: recover_all_entries and recover_entries_after(0) must return exactly what they return for the version-2 image",
        "truncation_cases": twork.len(),
        "truncation_layouts": tl.len(),
        "truncation_nontrivial": t_nontrivial,
        "truncation_outcomes": t_outcomes,
        "samples": samples,
        "exhaustive": true,
    });
    rep.finish(
        coverage,
        vec![
            "files of an image are written by successive WalRotator lives over one InMemoryWalStore (a restart starts a new file); the size-based rotation inside one life is not what separates the files".into(),
            "damage is applied to one file at a time through InMemoryWalStore::set_file_data; recovery runs on a fresh WalRotator over the damaged store".into(),
            "an entry is identified by (stamp, payload length, payload bytes, crc field); 'bit-identical' is equality of all four".into(),
            "for damage confined to the 16-byte file header any prefix of the file's entries is accepted (the property only forbids altered or foreign entries there); for damage inside the entry area the file must yield exactly the entries before the first damaged one".into(),
            "recover_entries_after(T) is compared, via bincode re-serialisation of the returned deltas, with the entries of recover_all_entries stamped >= T, for T in {0, median stamp, max stamp + 1}".into(),
            "corruption wider than 2 bytes and damage to several files at once are outside the bound".into(),
        ],
    );
}
